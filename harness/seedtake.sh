#!/bin/bash
# Development aid: take over the deliverables of a finished seeding sub-agent (/tmp/wt_<name>), drop its worktree, confirm the
# change in a fresh scratch worktree and run the property's quick check against it.   harness/seedtake.sh C05r8 [more names]
here="$(cd "$(dirname "$0")/.." && pwd)"
for name in "$@"; do
  wt="/tmp/wt_$name"
  if [ -d "$wt" ]; then
    mkdir -p "$here/seeded/$name"
    cp "$wt/patch.diff" "$wt"/demo_* "$wt"/NOTES_* "$here/seeded/$name/" 2>/dev/null
    git -C /repo worktree remove --force "$wt" >/dev/null 2>&1
  fi
  "$here/harness/seedconfirm.sh" "$here/seeded/$name" 2>&1 | grep -v conda
  "$here/harness/seedrun.sh" "$name" 2>&1 | grep -v conda | grep -v KNOWN-FINDING | cut -c1-220 | head -3
done
