# coding=utf-8
"""
Independent writer of the replay container (own key constants, Blowfish *encrypt*, zlib)
and helpers to run the model on a container file.
"""
import json
import struct
import zlib

from Cryptodome.Cipher import Blowfish

MAGIC = bytes([0x12, 0x32, 0x34, 0x11])
KEYS = {
    'wowsreplay': bytes([0x29, 0xB7, 0xC9, 0x09, 0x38, 0x3F, 0x84, 0x88, 0xFA, 0x98, 0xEC, 0x4E, 0x13, 0x19, 0x79, 0xFB]),
    'wowpreplay': bytes([0xDE, 0x72, 0xBE, 0xEF, 0xDE, 0xAD, 0xBE, 0xEF, 0xDE, 0xAD, 0xBE, 0xEF, 0xDE, 0xAD, 0xBE, 0xEF]),
    'wotreplay': bytes([0xDE, 0x72, 0xBE, 0xA0, 0xDE, 0x04, 0xBE, 0xB1, 0xDE, 0xFE, 0xBE, 0xEF, 0xDE, 0xAD, 0xBE, 0xEF]),
}
GAME = {'wowsreplay': 'wows', 'wowpreplay': 'wowp', 'wotreplay': 'wot'}


def compress(stream, level=6, strategy=zlib.Z_DEFAULT_STRATEGY, wbits=None, mem=None):
    # any RFC 1950 stream is a well-formed payload: the window size (9..15 bits, visible in the first byte of the stream) and the memory
    # level are chosen from the content, so that every writer of containers in the harness varies them
    if wbits is None:
        wbits = 9 + zlib.crc32(stream) % 7
    if mem is None:
        mem = 1 + zlib.crc32(stream[::-1]) % 9
    c = zlib.compressobj(level, zlib.DEFLATED, wbits, mem, strategy)
    return c.compress(stream) + c.flush()


def encrypt_payload(ext, compressed, prefix=b'\x00' * 8, pad_byte=b'\x00'):
    """8-byte prefix, then blocks c_i = E(p_i xor p_{i-1}) (no xor for the first)"""
    data = compressed + pad_byte * (-len(compressed) % 8)
    cipher = Blowfish.new(KEYS[ext], Blowfish.MODE_ECB)
    out = [prefix]
    prev = None
    for i in range(0, len(data), 8):
        p = data[i:i + 8]
        x = p if prev is None else bytes(a ^ b for a, b in zip(p, prev))
        out.append(cipher.encrypt(x))
        prev = p
    return b''.join(out)


def write_container(ext, engine_json_bytes, extra_blocks, stream, level=6, strategy=zlib.Z_DEFAULT_STRATEGY,
                    prefix=b'\x00' * 8, pad_byte=b'\x00', magic=MAGIC, count=None):
    """extra_blocks: list of bytes (b'' = empty block)"""
    out = [magic, struct.pack('<i', (1 + len(extra_blocks)) if count is None else count)]
    out.append(struct.pack('<i', len(engine_json_bytes)) + engine_json_bytes)
    for b in extra_blocks:
        out.append(struct.pack('<i', len(b)) + b)
    out.append(encrypt_payload(ext, compress(stream, level, strategy), prefix, pad_byte))
    return b''.join(out)


def dtable_for(ext, file_bytes, payload_offset):
    """ECB plaintext of every 8-byte ciphertext chunk after the first (for the model)"""
    cipher = Blowfish.new(KEYS[ext], Blowfish.MODE_ECB)
    area = file_bytes[payload_offset:]
    table = {}
    for i in range(8, len(area), 8):
        c = area[i:i + 8]
        if len(c) == 8 and c not in table:
            table[c] = cipher.decrypt(c)
    return [[c.hex(), p.hex()] for c, p in table.items()]


def payload_offset(file_bytes):
    """offset of the encrypted area, by an independent walk of the block table"""
    count, = struct.unpack('<i', file_bytes[4:8])
    pos = 8
    for _ in range(max(count, 1)):
        size, = struct.unpack('<i', file_bytes[pos:pos + 4])
        pos += 4 + size
    return pos


def model_request(ext, file_bytes, offset=None):
    try:
        off = payload_offset(file_bytes) if offset is None else offset
        table = dtable_for(ext, file_bytes, off) if ext in KEYS else []
    except Exception:
        table = []
    return {'op': 'container.read', 'ext': ext, 'file': file_bytes.hex(), 'dtable': table}
