# coding=utf-8
"""
Shared driver for the history-based properties (C02, C05, C06, C07, C08, C12):
generated definition set -> real Definitions + model defs.load -> generated history ->
model `play` vs real player vs the plain interpreter's expectation.
"""
import json
import os
import random
import shutil

from . import common, xmltree
from .gen import defsets, history
from .impl import defs as idefs
from .impl import play as iplay


class Setup:
    """one generated definition set loaded on both sides"""

    def __init__(self, seed_key, want_nested=True):
        self.rng = random.Random(seed_key)
        self.base = os.path.join(common.WORK, 'defs', 'hist-%d-%s' % (os.getpid(), abs(hash(seed_key)) % 10 ** 8))
        import zlib
        h = zlib.crc32(str(seed_key).encode())
        # rare features on a fixed share of the sets (not left to the dice): 1 in 8 with a wide entity, 1 in 16 with a huge fixed-size
        # property, 1 in 4 with shadowing aliases, random section order and library identifiers as argument names
        force = (('wide',) if h % 8 == 0 else ()) + (('huge',) if h % 16 == 1 else ()) + (('shadow', 'order', 'libnames') if h % 4 == 2 else ())
        for attempt in range(20):
            ds = defsets.gen_defset(self.rng, n_entities=self.rng.randint(2, 4), simple_types=True, want_nested=want_nested, force=force)
            defsets.write_defset(ds, self.base)
            loaded = idefs.load_views(self.base)
            if 'ok' in loaded:
                break
        else:
            raise common.Infra('could not generate a loadable definition set')
        self.ds = ds
        self.definitions = loaded['defs']
        self.views = loaded['ok']
        # histories are written with the ids the *stated rules* give (C04's naive oracle). On the unchanged tree these are the ids the
        # implementation computes; where they differ, writing by the rule turns the difference into wrong entity state, i.e. a concrete input
        try:
            rule = json.loads(json.dumps(defsets.expected_views(ds)))
            if rule != json.loads(json.dumps(loaded['ok'])) and len(rule) == len(loaded['ok']):
                self.views = rule
        except Exception:
            pass
        self.trees = xmltree.load_dir(self.base)
        self.load_req = xmltree.load_request('H', self.trees)

    def cleanup(self):
        shutil.rmtree(self.base, ignore_errors=True)


def norm_end(r):
    """comparable summary of how play ended"""
    e = r.get('end')
    if e == 'headerShort' or e == 'struct.error' or (e == 'raised' and r.get('err') == 'short'):
        return 'struct.error'
    if e == 'raised':
        return 'raised'
    return e


def model_play(drv_requests, setup, dialect, stream, strict, subs=None, every=False):
    req = {'op': 'play', 'defs': 'H', 'dialect': dialect, 'strict': strict, 'every': every,
           'subs': {'methods': (subs or {}).get('methods', []), 'props': (subs or {}).get('props', []), 'nested': (subs or {}).get('nested', [])},
           'stream': stream.hex()}
    return req


def strip_log_paths(log):
    """the implementation's nested callbacks do not receive the path: drop it from model entries"""
    out = []
    for e in log:
        if e[0] == 'N' and len(e) == 6:
            out.append([e[0], e[1], e[2], e[3], e[5]])
        else:
            out.append(e)
    return out


def compare_worlds(a, b):
    """first difference between two world dumps, or None"""
    if a == b:
        return None
    if a.get('playerId') != b.get('playerId'):
        return 'playerId %r vs %r' % (a.get('playerId'), b.get('playerId'))
    if a.get('map') != b.get('map'):
        return 'map %r vs %r' % (a.get('map'), b.get('map'))
    ea, eb = a['entities'], b['entities']
    if [x['id'] for x in ea] != [x['id'] for x in eb]:
        return 'entity ids %r vs %r' % ([x['id'] for x in ea], [x['id'] for x in eb])
    for x, y in zip(ea, eb):
        for k in ('type', 'client', 'cell', 'base', 'volatile'):
            if x[k] != y[k]:
                if isinstance(x[k], list):
                    dx, dy = dict((p[0], p[1]) for p in x[k]), dict((p[0], p[1]) for p in y[k])
                    for name in sorted(set(dx) | set(dy)):
                        if dx.get(name, '<absent>') != dy.get(name, '<absent>'):
                            return 'entity %s %s[%s]: %s vs %s' % (x['id'], k, name, json.dumps(dx.get(name, '<absent>'))[:300], json.dumps(dy.get(name, '<absent>'))[:300])
                return 'entity %s %s: %r vs %r' % (x['id'], k, x[k], y[k])
    return 'worlds differ'


def run_history(drv, setup, dialect, hist_packets, strict=True, subs=None, every=False, stream=None):
    """-> (model reply (canonicalised), implementation reply)"""
    stream = history.stream_of(hist_packets) if stream is None else stream
    impl = iplay.play_stream(dialect, setup.definitions, setup.views, stream, strict, subs, every=every)
    model = None
    if drv is not None:
        rep = drv.run([setup.load_req, model_play(None, setup, dialect, stream, strict, subs, every)])
        if 'err' in rep[0]:
            raise common.Infra('model cannot load a definition set the implementation loads: %s' % rep[0])
        model = iplay.canon_generic(rep[1])
        if 'log' in model:
            model['log'] = strip_log_paths(model['log'])
        for s in model.get('steps', []):
            s['log'] = strip_log_paths(s['log'])
    return model, impl, stream


# =====================================================================================
# generic worker: a batch of histories over one definition set
# =====================================================================================

def shrink_packets(packets, still_bad, budget=60):
    """greedy delta-debugging on the packet list"""
    cur = list(packets)
    n = 2
    tries = 0
    while len(cur) >= 2 and tries < budget:
        chunk = max(1, len(cur) // n)
        removed = False
        for i in range(0, len(cur), chunk):
            cand = cur[:i] + cur[i + chunk:]
            tries += 1
            if cand and still_bad(cand):
                cur = cand
                n = max(n - 1, 2)
                removed = True
                break
            if tries >= budget:
                break
        if not removed:
            if chunk == 1:
                break
            n = min(n * 2, len(cur))
    return cur


def packets_json(packets):
    return [[t, p.hex(), {k: v for k, v in m.items() if k in ('kind', 'time', 'id', 'op', 'path', 'fault')}] for t, p, m in packets]


def _hist_worker(cfg):
    """cfg: seed_key, dialects, n_hist, n_events, weights, every, strict, subs_fn (name), fields (oracle), big"""
    drv = common.Driver()
    st = Setup(cfg['seed_key'], want_nested=cfg.get('want_nested', True))
    out = {'cases': [], 'problems': [], 'stats': {}}
    try:
        for hi in range(cfg['n_hist']):
            dialect = cfg['dialects'][hi % len(cfg['dialects'])]
            rng = random.Random('%s-%d-%s' % (cfg['seed_key'], hi, dialect))
            subs = None
            if cfg.get('subs'):
                subs = gen_subs(rng, st.views, cfg['subs'])
            # a set with a property of tens of kilobytes: short histories, no per-packet dumps (the point is the id order, not the volume)
            heavy = any(p[1] >= 60000 and p[0] == 'huge' for v in st.views for p in v['clientProps'])
            h = history.generate(rng, st.views, dialect, min(cfg['n_events'], 20) if heavy else cfg['n_events'], weights=cfg.get('weights'), big=cfg.get('big', False),
                                 subscribed=set(s[0] for s in subs['methods']) if subs else None)
            strict = cfg.get('strict', False)
            every_ = cfg.get('every', False) and not heavy
            model, impl, stream = run_history(drv, st, dialect, h.packets, strict=strict, subs=subs, every=every_)
            exp = iplay.canon_generic(history.expected_world(h))
            kinds = {}
            for _, _, m in h.packets:
                kinds[m['kind']] = kinds.get(m['kind'], 0) + 1
            case = {'dialect': dialect, 'kinds': kinds, 'packets': len(h.packets), 'entities': len(h.world), 'bytes': len(stream),
                    'key': '%s-%d' % (cfg['seed_key'], hi)}
            if subs:
                case['subs'] = sum(len(v) for v in subs.values())
            out['cases'].append(case)
            # ---- oracle: the implementation alone against the plain interpreter
            fields = cfg.get('fields', ['entities', 'playerId', 'map'])
            d_or = oracle_diff(impl['world'], exp, fields, cfg.get('entity_fields'))
            exp_log = None
            if subs is not None:
                exp_log = expected_log(h, st.views, subs)
                if impl['log'] != exp_log and d_or is None:
                    d_or = 'invocation log: ' + first_log_diff(impl['log'], exp_log)
            if impl.get('early') and d_or is None:
                d_or = 'a property subscriber is called while the entity does not yet hold the value it is told about: %s' % json.dumps(impl['early'][:3])
            if impl.get('hang'):
                d_or = 'the implementation does not terminate on this history (CPU-time limit of the harness reached)'
            if d_or is None and not any(m.get('expect_error') or m.get('garbage') for _, _, m in h.packets):
                if impl.get('end') != 'finished' and not cfg.get('expect_failures'):
                    d_or = 'well-formed history does not play to the end: %s' % json.dumps({k: impl.get(k) for k in ('end', 'err', 'index')})
            # ---- correspondence
            d_co = None
            if model is not None:
                d_co = compare_worlds(model['world'], impl['world'])
                if d_co is None and norm_end(model) != norm_end(impl):
                    d_co = 'ending %s vs %s' % (norm_end(model), norm_end(impl))
                if d_co is None and model.get('log', impl['log']) != impl['log'] and not every_:
                    d_co = 'invocation log: ' + first_log_diff(model['log'], impl['log'])
                if d_co is None and every_:
                    for k, (ms, is_) in enumerate(zip(model['steps'], impl['steps'])):
                        dd = compare_worlds(ms['world'], is_['world'])
                        if dd is None and (ms['err'] is None) != (is_['err'] is None):
                            dd = 'error %r vs %r' % (ms['err'], is_['err'])
                        if dd is None and ms['log'] != is_['log']:
                            dd = 'log ' + first_log_diff(ms['log'], is_['log'])
                        if dd:
                            d_co = 'after packet %d (%s): %s' % (k, h.packets[k][2]['kind'], dd)
                            break
                    if d_co is None and len(model['steps']) != len(impl['steps']):
                        d_co = 'number of processed packets %d vs %d' % (len(model['steps']), len(impl['steps']))
            # ---- the model's nested-update encoder (C06.nested_encode_apply is about its bytes) against
            #      the bytes this history actually carried, and its executed round trip against the tracker
            if d_co is None and cfg.get('check_encoder'):
                encs = [m['enc'] for _, _, m in h.packets if m.get('kind') == 'nested' and m.get('enc')]
                if encs:
                    reps = drv.run([{'op': 'nested.encode', 'ty': e['ty'], 'val': e['val'], 'nprops': e['nprops'], 'pi': e['pi'],
                                     'path': e['path'], 'leaf': e['leaf']} for e in encs])
                    out['stats']['model-encoder:ops'] = out['stats'].get('model-encoder:ops', 0) + len(encs)
                    for e, r in zip(encs, reps):
                        kk = 'model-encoder:%s:depth%d' % (e['leaf']['k'], len(e['path']))
                        out['stats'][kk] = out['stats'].get(kk, 0) + 1
                        if r.get('ok') != e['body']:
                            d_co = 'nested encoder: model %s vs harness %s for %s' % (json.dumps(r)[:200], e['body'][:200], json.dumps({k: e[k] for k in ('pi', 'path', 'leaf')})[:300])
                            break
                        if iplay.canon_generic(r.get('after')) != iplay.canon_generic(e['after']):
                            d_co = 'nested round trip in the model: %s vs list/dict operation %s' % (json.dumps(r.get('after'))[:200], json.dumps(e['after'])[:200])
                            break
            if d_or or d_co:
                packets = h.packets
                if d_co and model is not None:
                    def still_bad(ps):
                        m2, i2, _ = run_history(drv, st, dialect, ps, strict=strict, subs=subs, every=False)
                        return compare_worlds(m2['world'], i2['world']) is not None or norm_end(m2) != norm_end(i2) or m2['log'] != i2['log']
                    try:
                        if still_bad(packets):
                            packets = shrink_packets(packets, still_bad)
                    except Exception:
                        pass
                out['problems'].append({'oracle': d_or, 'corr': d_co, 'dialect': dialect, 'defset': st.ds, 'packets': packets_json(packets),
                                        'strict': strict, 'subs': subs, 'key': case['key']})
            if hi == 0 and cfg.get('want_sample'):
                out['sample'] = {'dialect': dialect, 'kinds': kinds, 'entities': [[e['id'], e['type']] for e in impl['world']['entities']][:6],
                                 'first_packets': packets_json(h.packets[:3])}
    finally:
        st.cleanup()
    return out


def oracle_diff(world, exp, fields, entity_fields=None):
    a = {k: world.get(k) for k in fields}
    b = {k: exp.get(k) for k in fields}
    if entity_fields and 'entities' in fields:
        a['entities'] = [{k: e[k] for k in ['id', 'type'] + entity_fields} for e in world['entities']]
        b['entities'] = [{k: e[k] for k in ['id', 'type'] + entity_fields} for e in exp['entities']]
        for x in a['entities'] + b['entities']:
            for k in ('client', 'cell', 'base', 'volatile'):
                x.setdefault(k, [])
    if a == b:
        return None
    wa = dict(world, **a)
    wb = dict(exp, **b)
    for w in (wa, wb):
        w.setdefault('playerId', None)
        w.setdefault('map', None)
    return compare_worlds(wa, wb) or 'worlds differ'


def first_log_diff(a, b):
    for i, (x, y) in enumerate(zip(a, b)):
        if x != y:
            return 'entry %d: %s vs %s' % (i, json.dumps(x)[:300], json.dumps(y)[:300])
    return 'length %d vs %d (next: %s)' % (len(a), len(b), json.dumps((a + b)[min(len(a), len(b))])[:300] if len(a) != len(b) else '')


# ---- subscriptions ------------------------------------------------------------------

def gen_subs(rng, views, mode):
    """random subsets of keys with 1..3 recording subscribers each (registration order is the
    list order)"""
    spec = {'methods': [], 'props': [], 'nested': []}
    tag = 0
    keys_m, keys_p, keys_n = [], [], []
    seen = set()
    for v in views:
        for m in v['methods']:
            k = v['name'] + '_' + m['name']
            if k not in seen:
                seen.add(k)
                keys_m.append(k)
        for p in v['clientProps']:
            k = v['name'] + '_' + p[0]
            if k not in seen:
                seen.add(k)
                keys_p.append(k)
                if history.peel(p[2])['k'] in ('array', 'dict'):
                    keys_n.append(k)
    frac = rng.choice([0.3, 0.6, 1.0])
    regs = []
    for k in keys_m:
        if rng.random() < frac:
            regs += [('methods', k)] * rng.choice([1, 1, 2, 3])
    for k in keys_p:
        if rng.random() < frac:
            regs += [('props', k)] * rng.choice([1, 1, 2, 3])
    for k in keys_n:
        if rng.random() < frac:
            regs += [('nested', k)] * rng.choice([1, 2])
    rng.shuffle(regs)
    for kind, k in regs:
        # mode 'raising': some method subscribers raise TypeError after having been called (the call is logged first): the dispatch must
        # stop there -- later subscribers of that call are not reached, nobody is called twice
        raises = (mode == 'raising' and kind == 'methods' and rng.random() < 0.2)
        spec[kind].append([k, tag, raises])
        tag += 1
    return spec


def expected_log(h, views, subs):
    """what the subscribers must see, from the generated events alone (exactly once per
    matching event, in stream order, registration order within an event)"""
    def subs_of(kind, key):
        return [s for s in subs[kind] if s[0] == key]
    log = []
    by_name = {}
    for v in views:
        by_name.setdefault(v['name'], v)
    for ptype, payload, m in h.packets:
        k = m['kind']
        if k == 'method' and not m.get('garbage'):
            key = m['entity_type'] + '_' + m['method']
            pos = [a for a, n in zip(m['args'], m['names']) if n is None]
            kw = {}
            for a, n in zip(m['args'], m['names']):
                if n is not None:
                    kw[n] = a
            for s in subs_of('methods', key):
                log.append(['M', key, s[1], m['id'], pos, sorted([[n, a] for n, a in kw.items()])])
                if s[2]:
                    break           # a raising subscriber ends the dispatch of this call
        elif k == 'prop':
            tname = views[h_type(h, m['id'])]['name'] if h_type(h, m['id']) is not None else None
            key = '%s_%s' % (m.get('etype'), m['prop'])
            for s in subs_of('props', key):
                log.append(['P', key, s[1], m['id'], m['value']])
        elif k == 'create':
            for name, val in m.get('prop_values', []):
                key = '%s_%s' % (m.get('etype'), name)
                for s in subs_of('props', key):
                    log.append(['P', key, s[1], m['id'], val])
        elif k == 'nested' and m.get('notify') is not None:
            full = '%s_%s' % (m.get('etype'), '.'.join(m['path']))
            # table order: first registration of each key; substring match
            order = []
            for s in subs['nested']:
                if s[0] not in order:
                    order.append(s[0])
            for key in order:
                if key in full:
                    for s in subs_of('nested', key):
                        log.append(['N', key, s[1], m['id'], m['notify']])
    return iplay.canon_generic(log)


def h_type(h, eid):
    e = h.world.get(eid)
    return e['type'] if e else None


# =====================================================================================
# glue for the property modules
# =====================================================================================

def run_batches(chk, cfgs, label, what_violation, nontrivial=lambda case: True):
    """runs the workers, does the bookkeeping, reports oracle failures as violations and
    model/implementation disagreements as broken correspondences"""
    results = common.pmap(_hist_worker, cfgs)
    for r in results:
        for case in r['cases']:
            chk.count((label, case['key']), nontrivial(case))
            chk.dist('%s:histories' % label)
            chk.dist('%s:dialect:%s' % (label, case['dialect']))
            chk.dist('%s:packets' % label, case['packets'])
            for k, n in case['kinds'].items():
                chk.dist('%s:kind:%s' % (label, k), n)
        for k, n in (r.get('stats') or {}).items():
            chk.dist('%s:%s' % (label, k), n)
        if r.get('sample') and len(chk.cov['samples']) < 3:
            chk.cov['samples'].append(r['sample'])
        bad_keys = set()
        for p in r['problems']:
            bad_keys.add(p['key'])
            rep = {'kind': 'history', 'dialect': p['dialect'], 'strict': p['strict'], 'subs': p['subs'], 'defset': p['defset'],
                   'packets': p['packets'], 'oracle': p['oracle'], 'correspondence': p['corr']}
            if p['oracle']:
                chk.report('%s: %s' % (what_violation, p['oracle']), rep)
            else:
                chk.broken.append('correspondence play (%s, history %s): %s' % (p['dialect'], p['key'], p['corr']))
                save_corpus_candidate(chk, rep)
        chk.cov['traces_validated_against_impl'] += len([c for c in r['cases'] if c['key'] not in bad_keys])


def save_corpus_candidate(chk, rep):
    path = os.path.join(common.WORK, 'replays', '%s-corr-%s-%d.json' % (chk.pid, chk.seed, len(chk.broken)))
    with open(path, 'w') as f:
        json.dump({'property': chk.pid, 'replay': rep}, f, default=str)


def restore_defset(ds):
    """JSON turned the generator's tuples into lists"""
    def fix(sec):
        for p in sec['props']:
            p['type'] = tuple(p['type'])
        for k in ('client', 'cell', 'base'):
            for m in sec[k]:
                m['args'] = [(a, tuple(t)) for a, t in m['args']]
    ds['aliases'] = [(n, tuple(x)) for n, x in ds['aliases']]
    if ds['alias_ext'] is not None:
        ds['alias_ext'] = [(n, tuple(x)) for n, x in ds['alias_ext']]
    for s in ds['interfaces'] + ds['entities']:
        fix(s)
    return ds


def replay_history(chk, drv, rep):
    r = rep['replay']
    ds = restore_defset(r['defset'])
    base = os.path.join(common.WORK, 'defs', 'replay-%d' % os.getpid())
    defsets.write_defset(ds, base)
    try:
        loaded = idefs.load_views(base)
        st = Setup.__new__(Setup)
        st.base, st.ds, st.definitions, st.views = base, ds, loaded['defs'], loaded['ok']
        st.trees = xmltree.load_dir(base)
        st.load_req = xmltree.load_request('H', st.trees)
        packets = [(t, bytes.fromhex(p), m) for t, p, m in r['packets']]
        model, impl, stream = run_history(drv, st, r['dialect'], packets, strict=r.get('strict', False), subs=r.get('subs'), every=False)
        print('recorded: oracle=%s correspondence=%s' % (r.get('oracle'), r.get('correspondence')))
        print('stream (%d bytes, %d packets), dialect %s' % (len(stream), len(packets), r['dialect']))
        print('implementation end:', {k: impl.get(k) for k in ('end', 'err')})
        if model is not None:
            print('model end         :', {k: model.get(k) for k in ('end', 'err', 'index')})
            print('model vs implementation world:', compare_worlds(model['world'], impl['world']))
            print('model vs implementation log  :', 'same' if model['log'] == impl['log'] else first_log_diff(model['log'], impl['log']))
        print('implementation world:', json.dumps(impl['world'])[:2000])
    finally:
        shutil.rmtree(base, ignore_errors=True)
    return 0
