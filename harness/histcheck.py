# coding=utf-8
"""
Shared driver for the history-based properties (C02, C05, C06, C07, C08, C12):
generated definition set -> real Definitions + model defs.load -> generated history ->
model `play` vs real player vs the plain interpreter's expectation.
"""
import json
import os
import random
import shutil

from . import common, xmltree
from .gen import defsets, history
from .impl import defs as idefs
from .impl import play as iplay


class Setup:
    """one generated definition set loaded on both sides"""

    def __init__(self, seed_key, want_nested=True):
        self.rng = random.Random(seed_key)
        self.base = os.path.join(common.WORK, 'defs', 'hist-%d-%s' % (os.getpid(), abs(hash(seed_key)) % 10 ** 8))
        for attempt in range(20):
            ds = defsets.gen_defset(self.rng, n_entities=self.rng.randint(2, 4), simple_types=True, want_nested=want_nested)
            defsets.write_defset(ds, self.base)
            loaded = idefs.load_views(self.base)
            if 'ok' in loaded:
                break
        else:
            raise common.Infra('could not generate a loadable definition set')
        self.ds = ds
        self.definitions = loaded['defs']
        self.views = loaded['ok']
        self.trees = xmltree.load_dir(self.base)
        self.load_req = xmltree.load_request('H', self.trees)

    def cleanup(self):
        shutil.rmtree(self.base, ignore_errors=True)


def norm_end(r):
    """comparable summary of how play ended"""
    e = r.get('end')
    if e == 'headerShort' or e == 'struct.error' or (e == 'raised' and r.get('err') == 'short'):
        return 'struct.error'
    if e == 'raised':
        return 'raised'
    return e


def model_play(drv_requests, setup, dialect, stream, strict, subs=None, every=False):
    req = {'op': 'play', 'defs': 'H', 'dialect': dialect, 'strict': strict, 'every': every,
           'subs': {'methods': (subs or {}).get('methods', []), 'props': (subs or {}).get('props', []), 'nested': (subs or {}).get('nested', [])},
           'stream': stream.hex()}
    return req


def strip_log_paths(log):
    """the implementation's nested callbacks do not receive the path: drop it from model entries"""
    out = []
    for e in log:
        if e[0] == 'N' and len(e) == 6:
            out.append([e[0], e[1], e[2], e[3], e[5]])
        else:
            out.append(e)
    return out


def compare_worlds(a, b):
    """first difference between two world dumps, or None"""
    if a == b:
        return None
    if a.get('playerId') != b.get('playerId'):
        return 'playerId %r vs %r' % (a.get('playerId'), b.get('playerId'))
    if a.get('map') != b.get('map'):
        return 'map %r vs %r' % (a.get('map'), b.get('map'))
    ea, eb = a['entities'], b['entities']
    if [x['id'] for x in ea] != [x['id'] for x in eb]:
        return 'entity ids %r vs %r' % ([x['id'] for x in ea], [x['id'] for x in eb])
    for x, y in zip(ea, eb):
        for k in ('type', 'client', 'cell', 'base', 'volatile'):
            if x[k] != y[k]:
                if isinstance(x[k], list):
                    dx, dy = dict((p[0], p[1]) for p in x[k]), dict((p[0], p[1]) for p in y[k])
                    for name in sorted(set(dx) | set(dy)):
                        if dx.get(name, '<absent>') != dy.get(name, '<absent>'):
                            return 'entity %s %s[%s]: %s vs %s' % (x['id'], k, name, json.dumps(dx.get(name, '<absent>'))[:300], json.dumps(dy.get(name, '<absent>'))[:300])
                return 'entity %s %s: %r vs %r' % (x['id'], k, x[k], y[k])
    return 'worlds differ'


def run_history(drv, setup, dialect, hist_packets, strict=True, subs=None, every=False):
    """-> (model reply (canonicalised), implementation reply)"""
    stream = history.stream_of(hist_packets)
    impl = iplay.play_stream(dialect, setup.definitions, setup.views, stream, strict, subs, every=every)
    model = None
    if drv is not None:
        rep = drv.run([setup.load_req, model_play(None, setup, dialect, stream, strict, subs, every)])
        if 'err' in rep[0]:
            raise common.Infra('model cannot load a definition set the implementation loads: %s' % rep[0])
        model = iplay.canon_generic(rep[1])
        if 'log' in model:
            model['log'] = strip_log_paths(model['log'])
        for s in model.get('steps', []):
            s['log'] = strip_log_paths(s['log'])
    return model, impl, stream
