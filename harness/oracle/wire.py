# coding=utf-8
"""
Independent statement of the BigWorld wire encoding (third implementation, used by the
failing-input search: the property "decode(wire(v)) = v, consuming exactly wire(v)" is
then executable on the implementation alone).
"""
import struct


def packed_len(n):
    if n < 255:
        return bytes([n])
    return b'\xff' + struct.pack('<I', n)[:3]


def encode(t, v, h=1):
    k = t['k']
    if k == 'int':
        fmt = {1: 'b', 2: 'h', 4: 'i', 8: 'q'}[t['size']]
        return struct.pack('<' + (fmt if t['signed'] else fmt.upper()), v)
    if k == 'f32':
        return struct.pack('<I', v['f32'])
    if k == 'f64':
        return struct.pack('<Q', v['f64'])
    if k == 'vec':
        return b''.join(struct.pack('<I', x) for x in v['vec'])
    if k in ('blob', 'python', 'string'):
        b = bytes.fromhex(v['b'] if 'b' in v else v['s'])
        return packed_len(len(b)) + b
    if k == 'mailbox':
        return bytes.fromhex(v['mb'][0]) + struct.pack('>H', v['mb'][1])
    if k == 'array':
        body = b''.join(encode(t['of'], x, h) for x in v)
        if t['size'] is None:
            return bytes([len(v)]) + body
        return body
    if k == 'dict':
        if v is None:
            return b'\x00'
        body = b''.join(encode(f, x[1], h) for (nm, f), x in zip(t['fields'], v['d']))
        return (b'\x01' if t['allowNone'] else b'') + body
    if k == 'user':
        if t['of']['k'] == 'blob':
            return encode(t['of'], v, h)
        body = encode(t['of'], v, h)
        return packed_len(len(body)) + body
    raise AssertionError(k)


def user_ok(t, v, h):
    """domain on which the code's USER_TYPE header skipping coincides with the wire format"""
    k = t['k']
    if k == 'array':
        return all(user_ok(t['of'], x, h) for x in v)
    if k == 'dict':
        return v is None or all(user_ok(f, x[1], h) for (nm, f), x in zip(t['fields'], v['d']))
    if k == 'user':
        if t['of']['k'] == 'blob':
            return True
        return h == 1 and len(encode(t['of'], v, h)) < 255 and user_ok(t['of'], v, h)
    return True
