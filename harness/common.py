# coding=utf-8
"""
Shared machinery of the checks: paths, seeds, the Lean build + audit step, the
JSON-lines driver, evidence writing, known findings and the VIOLATION protocol.
"""
import fcntl
import hashlib
import json
import os
import random
import re
import subprocess
import sys
import time

VERIF = os.path.dirname(os.path.dirname(os.path.abspath(__file__)))
REPO = os.environ.get('VERIF_REPO', '/repo')
LEAN = os.path.join(VERIF, 'lean')
WORK = os.path.join(VERIF, 'work')
EVIDENCE = os.path.join(VERIF, 'evidence')
DRIVER = os.path.join(LEAN, '.lake', 'build', 'bin', 'rmdriver')
PY = '/venv/bin/python'

ALLOWED_AXIOMS = {'propext', 'Quot.sound', 'Classical.choice'}
FORBIDDEN = re.compile(r'\b(sorry|admit|native_decide|bv_decide|implemented_by|unsafe)\b|^\s*axiom\s|maxHeartbeats\s+0\b')

TRUSTED_BASE = [
    "Lean 4.33.0 kernel + elaborator; axioms per theorem audited ⊆ {propext, Quot.sound, Classical.choice}; no native_decide / bv_decide / sorry",
    "Lean compiler + runtime for the rmdriver executable (correspondence outputs and hypotheses evaluated on large extracted data are computed by compiled code)",
    "Driver/*.lean JSON glue, harness/*.py (generators, adapters, canonicaliser, facts translator), CPython 3.12 and the packages in /venv",
    "the Python source is modelled, not verified: the only link is the regenerated facts and the behavioural correspondence of this run",
]


def ensure_dirs():
    for d in (WORK, EVIDENCE, os.path.join(WORK, 'replays')):
        os.makedirs(d, exist_ok=True)


def repo_on_path():
    if REPO not in sys.path:
        sys.path.insert(0, REPO)


class BuildResult:
    def __init__(self):
        self.ok = True
        self.log = ''
        self.failed_modules = []


def lake_build(targets=('ReplayModel', 'ReplayProofs', 'rmdriver')):
    """Incremental `lake build` under a lock (parallel checks must not race)."""
    ensure_dirs()
    res = BuildResult()
    lock = open(os.path.join(WORK, 'build.lock'), 'w')
    fcntl.flock(lock, fcntl.LOCK_EX)
    try:
        p = subprocess.run(['lake', 'build', *targets], cwd=LEAN, stdout=subprocess.PIPE,
                           stderr=subprocess.STDOUT, text=True)
        res.log = p.stdout
        res.ok = p.returncode == 0
        if not res.ok:
            res.failed_modules = re.findall(r'^- (\S+)', p.stdout, re.M)
    finally:
        fcntl.flock(lock, fcntl.LOCK_UN)
        lock.close()
    return res


def property_theorems(pid):
    """Names of the theorems stated in ReplayProofs/<pid>.lean (the obligations)."""
    path = os.path.join(LEAN, 'ReplayProofs', pid + '.lean')
    if not os.path.exists(path):
        return []
    src = open(path, encoding='utf-8').read()
    src = re.sub(r'/-.*?-/', '', src, flags=re.S)
    src = re.sub(r'--.*', '', src)
    return re.findall(r'^\s*theorem\s+([A-Za-z_][A-Za-z0-9_\'.]*)', src, re.M)


def grep_forbidden():
    hits = []
    for sub in ('ReplayModel', 'ReplayProofs'):
        for root, _, files in os.walk(os.path.join(LEAN, sub)):
            for fn in files:
                if not fn.endswith('.lean'):
                    continue
                path = os.path.join(root, fn)
                src = open(path, encoding='utf-8').read()
                src = re.sub(r'/-.*?-/', lambda m: '\n' * m.group(0).count('\n'), src, flags=re.S)
                for i, line in enumerate(src.split('\n'), 1):
                    line = re.sub(r'--.*', '', line)
                    if FORBIDDEN.search(line):
                        hits.append('%s:%d: %s' % (os.path.relpath(path, LEAN), i, line.strip()))
    return hits


def audit(pid):
    """`#print axioms` for every property theorem of <pid>.
    Returns (obligations, discharged, details) — a theorem is discharged when it is
    present in the built library and depends on allowed axioms only."""
    names = property_theorems(pid)
    if not names:
        return [], [], {}
    ensure_dirs()
    path = os.path.join(WORK, 'audit_%s_%d.lean' % (pid, os.getpid()))
    with open(path, 'w') as f:
        f.write('import ReplayProofs.%s\n' % pid)
        for n in names:
            f.write('#print axioms ReplayModel.%s.%s\n' % (pid, n))
    p = subprocess.run(['lake', 'env', 'lean', path], cwd=LEAN, stdout=subprocess.PIPE,
                       stderr=subprocess.STDOUT, text=True)
    os.unlink(path)
    out = p.stdout
    details = {}
    for m in re.finditer(r"'ReplayModel\.%s\.([^']+)' (does not depend on any axioms|depends on axioms: \[([^\]]*)\])" % pid, out):
        axs = [a.strip() for a in (m.group(3) or '').replace('\n', ' ').split(',') if a.strip()]
        details[m.group(1)] = axs
    discharged = [n for n in names if n in details and set(details[n]) <= ALLOWED_AXIOMS]
    return names, discharged, details


class Driver:
    """Batch interface to rmdriver: send request dicts, get reply dicts."""

    def __init__(self):
        if not os.path.exists(DRIVER):
            raise RuntimeError('rmdriver is not built')

    def run(self, requests):
        if not requests:
            return []
        data = '\n'.join(json.dumps(r, separators=(',', ':')) for r in requests) + '\n'
        p = subprocess.run([DRIVER], input=data.encode(), stdout=subprocess.PIPE, stderr=subprocess.PIPE)
        if p.returncode != 0:
            raise RuntimeError('rmdriver failed: %s' % p.stderr.decode()[-2000:])
        lines = p.stdout.decode().split('\n')
        out = [json.loads(l) for l in lines if l]
        if len(out) != len(requests):
            raise RuntimeError('rmdriver: %d replies for %d requests' % (len(out), len(requests)))
        for r in out:
            if 'fatal' in r:
                raise RuntimeError('rmdriver protocol error: %s' % r['fatal'])
        return out


def load_known_findings(pid):
    path = os.path.join(VERIF, 'known_findings.json')
    if not os.path.exists(path):
        return []
    data = json.load(open(path))
    return [f for f in data.get('findings', []) if f['property'] == pid]


class Check:
    """One run of one property's check."""

    def __init__(self, pid, tier, seed):
        ensure_dirs()
        self.pid = pid
        self.tier = tier
        self.seed = seed
        self.rng = random.Random('%s-%s' % (pid, seed))
        self.t0 = time.time()
        self.violations = []          # (what, replay_path, no_input)
        self.known_hits = {}          # key -> description
        self.known = load_known_findings(pid)
        self.cov = {
            'evaluations': 0, 'distinct_nontrivial': 0, 'rule': '', 'samples': [],
            'traces_validated_against_impl': 0, 'distribution': {},
        }
        self._distinct = set()
        self.assumptions = []
        self.broken = []              # broken proof obligations / correspondences (names)
        self.notes = []

    # ---- coverage bookkeeping -------------------------------------------------
    def count(self, key, nontrivial=True, sample=None):
        self.cov['evaluations'] += 1
        if nontrivial:
            k = hashlib.sha1(repr(key).encode()).hexdigest()
            if k not in self._distinct:
                self._distinct.add(k)
        if sample is not None and len(self.cov['samples']) < 5:
            self.cov['samples'].append(sample)

    def dist(self, name, n=1):
        d = self.cov['distribution']
        d[name] = d.get(name, 0) + n

    # ---- violations ------------------------------------------------------------
    def known_key(self, key):
        for f in self.known:
            if f['key'] == key:
                return f
        return None

    def report(self, what, replay, key=None, no_input=False):
        """A property failure shown on the implementation (or a broken obligation
        with no failing input). `key` identifies the failure for known_findings."""
        if key is not None:
            f = self.known_key(key)
            if f is not None:
                self.known_hits.setdefault(key, f['description'])
                return False
        if any(w == what for (w, _, _) in self.violations) or len(self.violations) >= 5:
            self.dup_violations = getattr(self, 'dup_violations', 0) + 1
            return True
        path = os.path.join(WORK, 'replays', '%s-%s-%d.json' % (self.pid, self.seed, len(self.violations)))
        with open(path, 'w') as fh:
            json.dump({'property': self.pid, 'seed': self.seed, 'tier': self.tier, 'what': what,
                       'key': key, 'replay': replay}, fh, indent=1, default=str)
        self.violations.append((what, path, no_input))
        return True

    # ---- finishing -------------------------------------------------------------
    def finish(self, obligations, discharged, checker_cmd, extra_cov=None, level='proof'):
        self.cov['distinct_nontrivial'] = len(self._distinct)
        cov = dict(self.cov)
        cov['obligations'] = len(obligations)
        cov['discharged'] = len(discharged)
        cov['obligation_names'] = list(obligations)
        cov['checker_cmd'] = checker_cmd
        cov['trusted_base'] = TRUSTED_BASE
        cov['known_findings_still_present'] = sorted(self.known_hits)
        if self.notes:
            cov['notes'] = self.notes
        if extra_cov:
            cov.update(extra_cov)
        if not cov['samples']:
            cov['samples'] = list(obligations[:3]) or ['(no case)']
        ev = {
            'property_id': self.pid, 'tier': self.tier, 'seed': self.seed, 'level': level,
            'coverage': cov, 'assumptions': self.assumptions,
            'wall_s': round(time.time() - self.t0, 2), 'violations': len(self.violations),
        }
        with open(os.path.join(EVIDENCE, self.pid + '.json'), 'w') as fh:
            json.dump(ev, fh, indent=1, default=str)
        for key in sorted(self.known_hits):
            print('KNOWN-FINDING: property=%s %s' % (self.pid, self.known_hits[key]))
        for what, path, no_input in self.violations:
            print('violation: %s' % what)
            print('VIOLATION property=%s replay=%s%s' % (self.pid, path, ' no-failing-input-found' if no_input else ''))
        sys.stdout.flush()
        return 1 if self.violations else 0


def canon_float32(x):
    import struct
    return struct.unpack('<I', struct.pack('<f', x))[0]


def canon_float64(x):
    import struct
    return struct.unpack('<Q', struct.pack('<d', x))[0]


class Infra(Exception):
    """A problem that has nothing to do with /repo (tool missing, time-out...)."""


def pmap(fn, items, procs=None):
    """Parallel map over processes (fork)."""
    import multiprocessing as mp
    procs = procs or min(16, os.cpu_count() or 1)
    if procs <= 1 or len(items) <= 1:
        return [fn(x) for x in items]
    with mp.get_context('fork').Pool(procs) as pool:
        return pool.map(fn, items, chunksize=max(1, len(items) // (procs * 4)))
