# coding=utf-8
"""
Stand-alone worker: parses each given file under a memory limit and a per-file time limit
and prints one JSON line per file: outcome in {result, exception, timeout, memory}.
Usage: python corrupt_runner.py <mem_bytes> <mode> <seconds_base> <seconds_per_mb> <file>...
"""
import json
import logging
import os
import resource
import signal
import sys
import time


class Timeout(BaseException):
    pass


def on_alarm(signum, frame):
    raise Timeout()


def main():
    mem, mode = int(sys.argv[1]), sys.argv[2]
    base, per_mb = float(sys.argv[3]), float(sys.argv[4])
    files = sys.argv[5:]
    resource.setrlimit(resource.RLIMIT_AS, (mem, mem))
    # the library's own default logging configuration (root logger at WARNING, records formatted by the last-resort handler): what a
    # program that simply calls ReplayParser gets. The text itself goes nowhere.
    sys.stderr = open(os.devnull, 'w')
    import replay_parser
    # the limit is on CPU time of this process (immune to load on the machine); a wall-clock limit 8x as long catches a parser that sleeps
    signal.signal(signal.SIGPROF, on_alarm)
    signal.signal(signal.SIGALRM, on_alarm)
    for path in files:
        size_mb = os.path.getsize(path) / 1e6
        limit = base + per_mb * size_mb
        rec = {'file': os.path.basename(path), 'limit_s': round(limit, 1)}
        t0 = time.time()
        rss0 = resource.getrusage(resource.RUSAGE_SELF).ru_maxrss
        cpu0 = time.process_time()
        signal.setitimer(signal.ITIMER_PROF, limit)
        signal.setitimer(signal.ITIMER_REAL, 8 * limit)
        # the timers only fire between byte codes: a loop inside one C call (hashing, formatting) is ended by the kernel instead
        # (SIGXCPU kills the worker; the parent names the file that was being parsed)
        soft = int(time.process_time() + 2 * limit + 10)
        hard = resource.getrlimit(resource.RLIMIT_CPU)[1]
        resource.setrlimit(resource.RLIMIT_CPU, (soft if hard == resource.RLIM_INFINITY else min(soft, hard), hard))
        try:
            info = replay_parser.ReplayParser(path, strict=(mode == 'strict')).get_info()
            rec['outcome'] = 'result'
            rec['hidden'] = info.get('hidden') is not None
        except Timeout:
            rec['outcome'] = 'timeout'
        except MemoryError:
            # an allocation request refused outright (e.g. the unpickler asked for a declared length) costs nothing and is an ordinary
            # exception; memory that was really used shows in the growth of the peak resident set, judged below
            rec['outcome'] = 'exception'
            rec['exc'] = 'MemoryError'
        except Exception as e:
            rec['outcome'] = 'exception'
            rec['exc'] = type(e).__name__
        except BaseException as e:
            rec['outcome'] = 'escape'
            rec['exc'] = type(e).__name__
        finally:
            signal.setitimer(signal.ITIMER_PROF, 0)
            signal.setitimer(signal.ITIMER_REAL, 0)
        rec['wall_s'] = round(time.time() - t0, 2)
        rec['cpu_s'] = round(time.process_time() - cpu0, 2)
        # growth of the peak resident set while this file was parsed (ru_maxrss is monotone, KiB on Linux)
        rec['rss_growth_mb'] = round((resource.getrusage(resource.RUSAGE_SELF).ru_maxrss - rss0) / 1024.0, 1)
        rec['size_mb'] = round(size_mb, 3)
        if rec['outcome'] in ('result', 'exception') and rec['rss_growth_mb'] > 1024 + 100 * size_mb:
            rec['outcome'] = 'memory'
        sys.stdout.write(json.dumps(rec) + '\n')
        sys.stdout.flush()


if __name__ == '__main__':
    main()
