#!/bin/bash
# Development aid (not a registered check): apply seeded/<name>/patch.diff to /repo,
# run ./check <ID> (quick) and always undo the patch afterwards.
#   harness/seedrun.sh C07r5 [ID] [extra check args]
# Output: work/seedrun/<name>.<ID>.log, last lines printed.
set -u
name="$1"; shift
pid="${1:-${name:0:3}}"; [ $# -gt 0 ] && shift
here="$(cd "$(dirname "$0")/.." && pwd)"
patch="$here/seeded/$name/patch.diff"
mkdir -p "$here/work/seedrun"
log="$here/work/seedrun/$name.$pid.log"
if [ -n "$(git -C /repo status --porcelain)" ]; then
  echo "refusing: /repo has local changes under replay_unpack/ or setup.py"; exit 3
fi
ev="$here/evidence/$pid.json"; [ -f "$ev" ] && cp "$ev" "$here/work/seedrun/$pid.evidence.keep"
git -C /repo apply "$patch" || { echo "patch does not apply"; exit 3; }
trap 'git -C /repo checkout -- . ; git -C /repo clean -fdq -- replay_unpack MANIFEST.in setup.cfg pyproject.toml; [ -f "$here/work/seedrun/$pid.evidence.keep" ] && mv "$here/work/seedrun/$pid.evidence.keep" "$ev"' EXIT
( cd "$here" && ./check "$pid" --tier quick "$@" ) > "$log" 2>&1
rc=$?
echo "== $name via $pid: exit $rc"
grep -E "VIOLATION|KNOWN-FINDING|broken|Traceback" "$log" | head -8
exit $rc
