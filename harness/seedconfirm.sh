#!/bin/bash
# Development aid: confirm a seeded change in a scratch worktree of /repo (never in /repo):
#   demo passes without the patch, fails with it, and the pinned suite still passes with it.
#   harness/seedconfirm.sh <dir-with-patch.diff-and-demo> [name]
# Prints one summary line; removes the worktree afterwards.
set -u
src="$(cd "$1" && pwd)"; name="${2:-$(basename "$src")}"
wt="/tmp/wt_confirm_$name"
git -C /repo worktree remove --force "$wt" >/dev/null 2>&1
git -C /repo worktree add --detach "$wt" HEAD >/dev/null 2>&1 || { echo "$name: worktree failed"; exit 3; }
trap 'git -C /repo worktree remove --force "$wt" >/dev/null 2>&1; rm -rf "$wt"' EXIT
demo="$(ls "$src"/demo* 2>/dev/null | head -1)"
cp "$demo" "$wt/"; d="$wt/$(basename "$demo")"
run_demo() {
  case "$d" in
    *.py) ( cd "$wt" && PYTHONPATH="$wt" timeout 600 /venv/bin/python "$d" >"$wt/demo.out" 2>&1 );;
    *.sh) ( cd "$wt" && PYTHONPATH="$wt" timeout 600 bash "$d" >"$wt/demo.out" 2>&1 );;
  esac
}
run_demo; clean_rc=$?
git -C "$wt" apply "$src/patch.diff" || { echo "$name: patch does not apply"; exit 3; }
run_demo; patched_rc=$?
suite="$( cd "$wt" && PYTHONPATH="$wt" /venv/bin/python -m pytest -q -p no:cacheprovider --timeout=900 -n 4 2>&1 | tail -1 )"
echo "$name: demo clean rc=$clean_rc patched rc=$patched_rc; suite with patch: $suite"
