# coding=utf-8
"""
Seeded generator of packet histories over a definition set, together with the plain
last-writer-wins / list-dict interpreter that states what the world must be afterwards
(the oracle of C05, C06, C08; "no change" for the faulty packets of C12).

Definitions come as the view JSON (`defs.load` output format): per entity the exposed
methods with argument types, the exposed / internal / cell / base property lists.
"""
import copy
import struct

from . import types as gt
from ..oracle import wire

DIALECTS = {
    'wowsOld': {'game': 'wows', 'base': 0x0, 'cell': 0x1, 'control': 0x2, 'enter': 0x3, 'leave': 0x4, 'create': 0x5, 'prop': 0x7,
                'method': 0x8, 'position': 0x0a, 'version': 0x16, 'ppos': 0x2b, 'map': 0x27, 'nested': 0x22},
    'wowsNew': {'game': 'wows', 'base': 0x0, 'cell': 0x1, 'control': 0x2, 'enter': 0x3, 'leave': 0x4, 'create': 0x5, 'prop': 0x7,
                'method': 0x8, 'position': 0x0a, 'version': 0x16, 'ppos': 0x2b, 'map': 0x28, 'nested': 0x23, 'stats': 0x22},
    'wot': {'game': 'wot', 'base': 0x0, 'cell': 0x1, 'control': 0x2, 'enter': 0x3, 'leave': 0x4, 'create': 0x5, 'prop': 0x7,
            'method': 0x8, 'position': 0x0a, 'map': 0xf, 'nested': 0x24},
    'wowp': {'game': 'wowp', 'base': 0x0, 'control': 0x2, 'enter': 0x3, 'leave': 0x4, 'prop': 0x7, 'method': 0x8,
             'position': 0x0a, 'version': 0x16, 'nested': 0x22},
}
MAPPED = {d: set(v for k, v in t.items() if k != 'game') for d, t in DIALECTS.items()}


def bits_required(n):
    return 0 if n <= 1 else (n - 1).bit_length()


class BitWriter:
    def __init__(self):
        self.bits = []

    def put(self, value, width):
        for i in reversed(range(width)):
            self.bits.append((value >> i) & 1)

    def bytes(self):
        b = self.bits + [0] * (-len(self.bits) % 8)
        return bytes(int(''.join(map(str, b[i:i + 8])), 2) for i in range(0, len(b), 8))


def net_packet(ptype, payload, time_bits=0, declared=None):
    size = len(payload) if declared is None else declared
    return struct.pack('<III', size, ptype, time_bits) + payload


def bstream(b):
    return struct.pack('<I', len(b)) + b


def vec3(rng):
    return [gt.gen_f32(rng) for _ in range(3)]


def pack_bits(xs):
    return b''.join(struct.pack('<I', x) for x in xs)


def truthy(v):
    """Python truthiness of a canonical value"""
    if v is None:
        return False
    if isinstance(v, int):
        return v != 0
    if isinstance(v, list):
        return len(v) > 0
    if 'd' in v:
        return len(v['d']) > 0
    if 'b' in v:
        return len(v['b']) > 0
    if 's' in v:
        return len(v['s']) > 0
    if 'f32' in v:
        return (v['f32'] & 0x7fffffff) != 0
    if 'f64' in v:
        return (v['f64'] & 0x7fffffffffffffff) != 0
    return True


def peel(t):
    while t['k'] == 'user':
        t = t['of']
    return t


def zero_width_possible(t):
    t = peel(t)
    if t['k'] == 'array':
        return t['size'] == 0 or (t['size'] is not None and zero_width_possible(t['of']))
    if t['k'] == 'dict':
        return (not t['allowNone']) and all(zero_width_possible(f) for _, f in t['fields'])
    return False


class History:
    """builds a stream and tracks the expected world"""

    def __init__(self, rng, views, dialect, big=False, subscribed=None):
        self.subscribed = subscribed       # method keys with a subscriber (None: nobody subscribes)
        self.rng = rng
        self.views = views
        self.dialect = dialect
        self.tab = DIALECTS[dialect]
        self.game = self.tab['game']
        self.packets = []       # (ptype, payload, meta)
        self.world = {}         # id -> {'type': view index, 'client': {}, 'base': {}, 'pose': {...}}  (insertion ordered)
        self.player_id = None
        self.map = None
        self.calls = []         # expected method calls (entity id, method name, args)
        self.big = big
        self.avatar_idx = None
        for i, v in enumerate(views):
            if v['name'] == 'Avatar':
                self.avatar_idx = i         # by_name: the last one wins
        self.next_id = rng.choice([1, 100, 70000])
        self.time = 0

    # ---- helpers ------------------------------------------------------------------
    def clock(self):
        """the 32 bits of a packet's time field: usually a slowly growing pattern, sometimes any float32 there is (NaN, infinities,
        negative, huge) -- the field is carried along, never interpreted"""
        self.time += self.rng.randint(0, 1000)
        if self.rng.random() < 0.12:
            return self.rng.choice([0x7fc00000, 0x7f800000, 0xff800000, 0x80000000, 0x7f7fffff, 0xffffffff, self.rng.getrandbits(32)])
        return self.time

    def emit(self, kind, payload, **meta):
        meta['kind'] = kind
        self.packets.append((self.tab[kind], payload, dict(meta, time=self.clock())))

    def default_pose(self, view):
        p = {}
        for v in view['volatile']:
            p[v] = {'vec': [0, 0, 0]} if v == 'position' else {'f32': 0}
        return p

    def new_entity(self, eid, tidx):
        return {'type': tidx, 'client': {}, 'cell': {}, 'base': {}, 'pose': self.default_pose(self.views[tidx])}

    def fresh_id(self):
        self.next_id += self.rng.randint(1, 5)
        return self.next_id

    def value(self, t):
        return gt.gen_value(self.rng, t, big_ok=self.big)

    # ---- events -------------------------------------------------------------------
    def base_player(self, eid=None):
        if self.avatar_idx is None:
            return False
        if eid is None:
            # mostly a fresh id; sometimes an avatar that so far only got its cell-player packet (the order of the two is not fixed)
            known = [i for i, e in self.world.items() if e['type'] == self.avatar_idx and i != self.player_id and 0 <= i < 2 ** 31]
            eid = self.rng.choice(known) if known and self.rng.random() < 0.3 else self.fresh_id()
        view = self.views[self.avatar_idx]
        body = b''
        ent = self.world.get(eid) or self.new_entity(eid, self.avatar_idx)
        if eid in self.world and self.world[eid]['type'] != self.avatar_idx:
            # an existing entity of another type is reused with ITS property lists
            view = self.views[self.world[eid]['type']]
        with_props = self.game != 'wot'
        vals = {}
        if with_props:
            for name, size, t, flags in view['base']:
                v = self.value(t)
                vals[name] = v
                body += wire.encode(t, v, 1)
        payload = struct.pack('<ih', eid, self.avatar_idx + 1) + bstream(body + (b'\x07' * self.rng.choice([0, 0, 2])))
        ent['base'].update(vals)
        self.world[eid] = ent
        self.player_id = eid
        self.emit('base', payload, id=eid)
        return True

    def cell_player(self, eid=None):
        if 'cell' not in self.tab or self.avatar_idx is None:
            return False
        eid = eid if eid is not None else (self.player_id if self.player_id is not None and self.rng.random() < 0.7 else self.fresh_id())
        ent = self.world.get(eid) or self.new_entity(eid, self.avatar_idx)
        view = self.views[ent['type']]
        body = b''
        vals = {}
        for name, size, t, flags in view['internal']:
            v = self.value(t)
            vals[name] = v
            body += wire.encode(t, v, 1)
        head = struct.pack('<ii', eid, 5)
        if self.game == 'wot':
            head += struct.pack('<h', 0)
        head += struct.pack('<i', 0) + pack_bits(vec3(self.rng)) + pack_bits(vec3(self.rng))
        ent['client'].update(vals)
        self.world[eid] = ent
        self.emit('cell', head + bstream(body + (b'\x07' * self.rng.choice([0, 0, 3]))), id=eid)
        return True

    def entity_create(self, eid=None, tidx=None):
        if 'create' not in self.tab:
            return False
        tidx = tidx if tidx is not None else self.rng.randrange(len(self.views))
        eid = eid if eid is not None else (self.fresh_id() if (not self.world or self.rng.random() < 0.8) else self.rng.choice(list(self.world)))
        view = self.views[tidx]
        ent = self.new_entity(eid, tidx)
        props = view['clientProps']
        idxs = [i for i in range(min(len(props), 256)) if self.rng.random() < 0.6]
        self.rng.shuffle(idxs)
        if self.rng.random() < 0.2 and idxs:
            idxs.append(self.rng.choice(idxs))       # the same property twice: last wins
        state = bytes([len(idxs)])
        prop_values = []
        for i in idxs:
            name, size, t, flags = props[i]
            v = self.value(t)
            ent['client'][name] = v
            prop_values.append([name, copy.deepcopy(v)])
            state += bytes([i]) + wire.encode(t, v, 1)
        head = struct.pack('<ihii', eid, tidx + 1, 0, 5) + pack_bits(vec3(self.rng)) + pack_bits(vec3(self.rng))
        if self.game == 'wot':
            head += struct.pack('<i', 0)
        if eid in self.world:
            # re-creation replaces the entity but keeps its position in the table
            self.world[eid] = ent
        else:
            self.world[eid] = ent
        self.emit('create', head + bstream(state), id=eid, type=tidx, props=[props[i][0] for i in idxs],
                  etype=view['name'], prop_values=prop_values)
        return True

    def entity_property(self):
        cands = [(eid, e) for eid, e in self.world.items() if self.views[e['type']]['clientProps'] and 0 <= eid < 2 ** 32]
        if not cands or self.game == 'wowp':
            return False
        # the server re-sends values: sometimes an earlier update packet is repeated byte for byte (whatever happened to that property
        # in between -- another update, a cell-player packet, a nested change -- the repeated value is the latest one again)
        sent = getattr(self, 'sent_props', None)
        if sent is None:
            sent = self.sent_props = []
        again = [x for x in sent if x[0] in self.world and self.views[self.world[x[0]]['type']]['name'] == x[2]]
        if again and self.rng.random() < 0.25:
            eid, name, etype, payload, v = self.rng.choice(again)
            self.world[eid]['client'][name] = copy.deepcopy(v)
            self.emit('prop', payload, id=eid, prop=name, value=copy.deepcopy(v), etype=etype, repeated=True)
            return True
        eid, ent = self.rng.choice(cands)
        props = self.views[ent['type']]['clientProps']
        i = self.rng.randrange(len(props))
        name, size, t, flags = props[i]
        v = self.value(t)
        ent['client'][name] = v
        payload = struct.pack('<II', eid, i) + bstream(wire.encode(t, v, 1) + (b'\x09' * self.rng.choice([0, 0, 1])))
        self.emit('prop', payload, id=eid, prop=name, value=copy.deepcopy(v), etype=self.views[ent['type']]['name'])
        sent.append((eid, name, self.views[ent['type']]['name'], payload, copy.deepcopy(v)))
        del sent[:-12]
        return True

    def entity_method(self, garbage=False):
        cands = [(eid, e) for eid, e in self.world.items() if self.views[e['type']]['methods'] and 0 <= eid < 2 ** 32]
        if not cands or self.game == 'wowp':
            return False
        eid, ent = self.rng.choice(cands)
        view = self.views[ent['type']]
        i = self.rng.randrange(len(view['methods']))
        m = view['methods'][i]
        if garbage and self.subscribed is not None and (view['name'] + '_' + m['name']) in self.subscribed:
            return False          # garbage goes to methods nobody subscribed to
        if garbage:
            body = bytes(self.rng.getrandbits(8) for _ in range(self.rng.randint(0, 6)))
            self.emit('method', struct.pack('<II', eid, i) + bstream(body), id=eid, method=m['name'], garbage=True, entity_type=view['name'])
            return True
        args = [self.value(t) for _, t in m['args']]
        body = b''.join(wire.encode(t, v, m['header']) for (_, t), v in zip(m['args'], args))
        self.emit('method', struct.pack('<II', eid, i) + bstream(body), id=eid, method=m['name'], args=args, entity_type=view['name'],
                  names=[a for a, _ in m['args']])
        return True

    def position(self, eid=None):
        if self.game == 'wowp' or not self.world:
            return False
        eid = eid if eid is not None else self.rng.choice(list(self.world))
        if not (-2 ** 31 <= eid < 2 ** 31):
            return False
        pos, yaw, pitch, roll = vec3(self.rng), gt.gen_f32(self.rng), gt.gen_f32(self.rng), gt.gen_f32(self.rng)
        # the second field names a vehicle the entity rides on; it does not change whose pose the packet sets
        r = self.rng.random()
        others = [x for x in self.world if -2 ** 31 <= x < 2 ** 31]
        vehicle = 0 if r < 0.5 or not others else (eid if r < 0.6 else self.rng.choice(others) if r < 0.9 else 3999999)
        payload = struct.pack('<ii', eid, vehicle) + pack_bits(pos) + pack_bits(vec3(self.rng)) + pack_bits([yaw, pitch, roll]) + b'\x00'
        if eid in self.world:
            self.world[eid]['pose'].update({'position': {'vec': pos}, 'yaw': {'f32': yaw}, 'pitch': {'f32': pitch}, 'roll': {'f32': roll}})
        self.emit('position', payload, id=eid)
        return True

    def player_position(self):
        if 'ppos' not in self.tab:
            return False
        ids = list(self.world)
        r = self.rng.random()
        unknown = self.fresh_id() + 1000
        id1 = self.rng.choice(ids + [0, unknown]) if ids else self.rng.choice([0, unknown])
        if r < 0.4:
            id2 = 0
        elif r < 0.8 and ids:
            id2 = self.rng.choice(ids)
        else:
            id2 = unknown
        if not (-2 ** 31 <= id1 < 2 ** 31 and -2 ** 31 <= id2 < 2 ** 31):
            return False
        pos, yaw, pitch, roll = vec3(self.rng), gt.gen_f32(self.rng), gt.gen_f32(self.rng), gt.gen_f32(self.rng)
        payload = struct.pack('<ii', id1, id2) + pack_bits(pos) + pack_bits([yaw, pitch, roll])
        expect_error = False
        if id2 != 0:
            if id2 in self.world and id1 in self.world:
                m = self.world[id2]['pose']
                if all(k in m for k in ('position', 'yaw', 'pitch', 'roll')):
                    self.world[id1]['pose'].update({k: copy.deepcopy(m[k]) for k in ('position', 'yaw', 'pitch', 'roll')})
                else:
                    # the copy goes through getters that raise for a volatile the type does not declare
                    for k in ('position', 'yaw', 'pitch', 'roll'):
                        if k not in m:
                            break
                        self.world[id1]['pose'][k] = copy.deepcopy(m[k])
                    expect_error = True
        elif id1 != 0:
            if id1 in self.world:
                self.world[id1]['pose'].update({'position': {'vec': pos}, 'yaw': {'f32': yaw}, 'pitch': {'f32': pitch}, 'roll': {'f32': roll}})
        self.emit('ppos', payload, id1=id1, id2=id2, expect_error=expect_error)
        return True

    def map_packet(self):
        if 'map' not in self.tab:
            return False
        name = self.rng.choice(['spaces/s07_Advance', 'spaces/08_NE_passage', 'spaces/ocean', 'mapä', 'spaces/spaces/x'])
        nb = name.encode('utf-8')
        if self.game == 'wot':
            payload = struct.pack('<iib', 1, 77, len(nb)) + nb
        elif self.rng.random() < 0.5:
            # short form: pos + name_size + 64 == s_len - 1
            payload = struct.pack('<iqi', 1, 1234567890123, len(nb)) + nb + b'\x00' * 65
        else:
            payload = struct.pack('<iqi', 1, 1234567890123, 999) + b'\x00' * (16 * 8 + 4) + struct.pack('<i', len(nb)) + nb + b'\x01\x02'
        self.map = name
        self.emit('map', payload, name=name)
        return True

    def noise(self):
        """packets the player does not act on: unmapped types and mapped-but-ignored kinds"""
        r = self.rng.random()
        if r < 0.5:
            while True:
                t = self.rng.choice([6, 9, 0x0b, 0x10, 0x17, 0x20, 0x21, 0x25, 0x26, 0x29, 0x30, 0xff, 0xffff, 2 ** 32 - 1, self.rng.getrandbits(32)])
                if t not in MAPPED[self.dialect]:
                    break
            body = bytes(self.rng.getrandbits(8) for _ in range(self.rng.choice([0, 1, 5, 40])))
            self.packets.append((t, body, {'kind': 'unmapped', 'time': self.clock()}))
        elif r < 0.7:
            self.emit('control', struct.pack('<ib', self.rng.randint(-5, 500), self.rng.choice([0, 1])))
        elif r < 0.85 and 'version' in self.tab:
            v = '0,10,%d,0' % self.rng.randint(0, 9)
            self.emit('version', struct.pack('<i', len(v)) + v.encode())
        elif self.world:
            eid = self.rng.choice(list(self.world))
            if -2 ** 31 <= eid < 2 ** 31:
                if self.rng.random() < 0.5:
                    self.emit('enter', struct.pack('<iii', eid, 1, 0))
                else:
                    self.emit('leave', struct.pack('<i', eid))
        return True

    def stray(self):
        """a well-formed update / call / position for an entity id that does not exist (never created, or not yet): the players fail on it
        without any effect -- nothing may be delivered to some other entity or its subscribers"""
        if self.game == 'wowp' or not self.world:
            return False
        unknown = 3000000 + self.rng.randint(0, 999)
        while unknown in self.world:
            unknown += 1
        ent = self.rng.choice(list(self.world.values()))
        view = self.views[ent['type']]
        r = self.rng.random()
        if r < 0.4 and view['methods']:
            i = self.rng.randrange(len(view['methods']))
            m = view['methods'][i]
            body = b''.join(wire.encode(t, self.value(t), m['header']) for _, t in m['args'])
            self.emit('method', struct.pack('<II', unknown, i) + bstream(body), id=unknown, stray=True, expect_error=True, garbage=True)
        elif r < 0.7 and view['clientProps']:
            i = self.rng.randrange(len(view['clientProps']))
            name, size, t, flags = view['clientProps'][i]
            self.emit('prop', struct.pack('<II', unknown, i) + bstream(wire.encode(t, self.value(t), 1)), id=unknown, stray=True, expect_error=True,
                      prop=name, value=None, etype=None)
        else:
            self.emit('position', struct.pack('<ii', unknown, 0) + pack_bits(vec3(self.rng)) + pack_bits(vec3(self.rng)) + pack_bits(vec3(self.rng)) + b'\x00',
                      id=unknown, stray=True, expect_error=True)
        return True

    # ---- nested -------------------------------------------------------------------
    def nested(self):
        if 'nested' not in self.tab or self.game == 'wowp':
            return False
        cands = []
        for eid, ent in self.world.items():
            if not (0 <= eid < 2 ** 32):
                continue
            props = self.views[ent['type']]['clientProps']
            for i, (name, size, t, flags) in enumerate(props):
                pt = peel(t)
                if pt['k'] in ('array', 'dict') and name in ent['client'] and ent['client'][name] is not None:
                    cands.append((eid, ent, i, name, t))
        if not cands:
            return False
        eid, ent, pi, pname, t = self.rng.choice(cands)
        props = self.views[ent['type']]['clientProps']
        bw = BitWriter()
        bw.put(1, 1)
        bw.put(pi, bits_required(len(props)))
        # what the model's encoder (ReplayModel.encodeNested) is asked for the same operation
        enc = {'ty': t, 'val': copy.deepcopy(ent['client'][pname]), 'nprops': len(props), 'pi': pi, 'path': [], 'leaf': None}
        # walk down
        holder, key = ent['client'], pname
        t = peel(t)
        path = [pname]
        while True:
            v = holder[key] if not isinstance(holder, list) else holder[key]
            # descend further?
            children = []
            if truthy(v):
                if t['k'] == 'dict' and v is not None:
                    for fi, ((fname, ft), fv) in enumerate(zip(t['fields'], v['d'])):
                        if peel(ft)['k'] in ('array', 'dict') and fv[1] is not None:
                            children.append((fi, len(t['fields']), peel(ft), ('d', fi), fname))
                elif t['k'] == 'array':
                    for li, lv in enumerate(v):
                        if peel(t['of'])['k'] in ('array', 'dict') and lv is not None:
                            children.append((li, len(v), peel(t['of']), ('l', li), str(li)))
            if children and self.rng.random() < 0.5:
                ci, n, ct, where, label = self.rng.choice(children)
                bw.put(1, 1)
                bw.put(ci, bits_required(n))
                enc['path'].append(ci)
                if where[0] == 'd':
                    holder, key = _DictSlot(v['d'], where[1]), 0
                else:
                    holder, key = v, where[1]
                t = ct
                path.append(label)
                continue
            break
        v = holder[key]
        # stop bit: 0 (or, on a falsy container, possibly a 1 that the walk swallows)
        if not truthy(v) and self.rng.random() < 0.3:
            bw.put(1, 1)
            enc = None                               # outside the encoder's domain (it writes a 0 stop bit)
        else:
            bw.put(0, 1)
        is_slice = False
        if t['k'] == 'dict':
            if v is None:
                return False
            n = len(t['fields'])
            fi = self.rng.randrange(n)
            fname, ft = t['fields'][fi]
            bw.put(fi, bits_required(n))
            nv = gt.gen_value(self.rng, ft, big_ok=False)
            data = wire.encode(ft, nv, 1)
            v['d'][fi][1] = nv
            path.append(fname)
            op = 'dict-set'
            leaf = {'k': 'dictSet', 'i': fi, 'val': nv}
        else:
            et = t['of']
            if zero_width_possible(et):
                return False
            n = len(v)
            r = self.rng.random()
            if r < 0.35 and n > 0:
                i = self.rng.randrange(n)
                bw.put(i, bits_required(n))
                if self.rng.random() < 0.15:
                    data = b''
                    v[i] = None
                    op = 'list-clear'
                    leaf = {'k': 'listClear', 'i': i}
                else:
                    nv = gt.gen_value(self.rng, et, big_ok=False)
                    data = wire.encode(et, nv, 1)
                    if len(data) == 0:
                        return False
                    v[i] = nv
                    op = 'list-set'
                    leaf = {'k': 'listSet', 'i': i, 'val': nv}
                path.append(str(i))
            else:
                is_slice = True
                w = bits_required(n + 1)
                i = self.rng.randint(0, n)
                j = self.rng.randint(0, n)
                if self.rng.random() < 0.6 and j < i:
                    i, j = j, i
                if self.rng.random() < 0.2:
                    i = j = n                      # insert at the end
                # indices beyond len (representable in the width) exercise the clamping
                if self.rng.random() < 0.1:
                    j = (1 << w) - 1 if w else 0
                bw.put(i, w)
                bw.put(j, w)
                k = self.rng.choice([0, 0, 1, 1, 2, 3])
                new = [gt.gen_value(self.rng, et, big_ok=False) for _ in range(k)]
                data = b''.join(wire.encode(et, x, 1) for x in new)
                if k and len(data) == 0:
                    return False
                lo = min(i, n)
                hi = max(lo, min(j, n))
                v[lo:hi] = new
                path.append('%d:%d' % (i, j))
                op = 'slice'
                leaf = {'k': 'slice', 'i': i, 'j': j, 'vals': new}
        payload_body = bw.bytes() + data
        if t['k'] == 'array' and self.fixed_size_violation(t, v):
            pass
        payload = struct.pack('<IbI', eid, 1 if is_slice else 0, len(payload_body)) + payload_body
        # a dict field assignment always notifies; list operations only when elements were sent
        notify = copy.deepcopy(v) if (op == 'dict-set' or len(data) > 0) else None
        if enc is not None:
            enc['leaf'] = copy.deepcopy(leaf)
            enc['body'] = payload_body.hex()
            enc['after'] = copy.deepcopy(ent['client'][pname])
        self.emit('nested', payload, id=eid, path=path, op=op, body_len=len(payload_body), notify=notify,
                  etype=self.views[ent['type']]['name'], enc=enc)
        return True

    def fixed_size_violation(self, t, v):
        return False


class _DictSlot:
    """list-like view of one dict entry's value inside canonical {'d': [[k, v]..]}"""

    def __init__(self, entries, idx):
        self.entries = entries
        self.idx = idx

    def __getitem__(self, k):
        return self.entries[self.idx][1]

    def __setitem__(self, k, v):
        self.entries[self.idx][1] = v


def stream_of(packets):
    out = b''
    for ptype, payload, meta in packets:
        out += net_packet(ptype, payload, meta.get('time', 0) & 0xffffffff)
    return out


def expected_world(h):
    """canonical dump of the tracker, same shape as the model's / implementation's dump"""
    ents = []
    for eid, e in h.world.items():
        ents.append({'id': eid, 'type': h.views[e['type']]['name'],
                     'client': sorted([[k, v] for k, v in e['client'].items()]),
                     'cell': sorted([[k, v] for k, v in e['cell'].items()]),
                     'base': sorted([[k, v] for k, v in e['base'].items()]),
                     'volatile': sorted([[k, v] for k, v in e['pose'].items()])})
    return {'entities': ents, 'playerId': h.player_id, 'map': h.map.encode('utf-8').hex() if h.map is not None else None}


def generate(rng, views, dialect, n_events, weights=None, big=False, subscribed=None):
    h = History(rng, views, dialect, big=big, subscribed=subscribed)
    w = dict(base=1, cell=1, create=6, prop=8, method=6, position=4, ppos=3, map=1, noise=4, nested=8, garbage=1, stray=1)
    if weights:
        w.update(weights)
    kinds = list(w)
    # start with a player and a few entities so that updates have targets
    if w.get('base', 1):
        h.base_player()
    for _ in range(rng.randint(1, 3)):
        h.entity_create()
    guard = 0
    while len(h.packets) < n_events and guard < n_events * 20:
        guard += 1
        k = rng.choices(kinds, [w[x] for x in kinds])[0]
        if k == 'base':
            h.base_player(h.player_id if (h.player_id is not None and rng.random() < 0.5) else None)
        elif k == 'cell':
            h.cell_player()
        elif k == 'create':
            h.entity_create()
        elif k == 'prop':
            h.entity_property()
        elif k == 'method':
            h.entity_method()
        elif k == 'garbage':
            h.entity_method(garbage=True)
        elif k == 'position':
            h.position()
        elif k == 'ppos':
            h.player_position()
        elif k == 'map':
            h.map_packet()
        elif k == 'noise':
            h.noise()
        elif k == 'nested':
            h.nested()
        elif k == 'stray':
            h.stray()
    return h
