# coding=utf-8
"""
Seeded generators of type trees (the alias/.def grammar) and of values.
A type tree is the model's Ty JSON; a value is the canonical value JSON:
  int -> number, {"f32": bits}, {"f64": bits}, {"vec": [bits]}, {"b": hex}, {"s": hex},
  null, [..], {"d": [[name, value], ..]}, {"mb": [hex ip, port]}
"""

INT_KINDS = [(1, True), (2, True), (4, True), (8, True), (1, False), (2, False), (4, False), (8, False)]
INT_NAMES = {(1, True): 'INT8', (2, True): 'INT16', (4, True): 'INT32', (8, True): 'INT64',
             (1, False): 'UINT8', (2, False): 'UINT16', (4, False): 'UINT32', (8, False): 'UINT64'}

BOUNDARY_LENGTHS = [0, 1, 2, 253, 254, 255, 256, 257, 65534, 65535, 65536, 65537]


def T_int(size, signed):
    return {'k': 'int', 'size': size, 'signed': signed}


def gen_type(rng, depth=4, writable=False, allow_user=True, width=6):
    """random type tree; depth bounds nesting"""
    leafs = ['int', 'int', 'f32', 'f64', 'vec', 'blob', 'string', 'mailbox']
    if not writable:
        leafs += ['python']
    nests = ['array', 'array', 'dict', 'dict']
    if allow_user and not writable:
        nests += ['user']
    if depth <= 0 or rng.random() < 0.35:
        k = rng.choice(leafs)
    else:
        k = rng.choice(nests)
    if k == 'int':
        s, sg = rng.choice(INT_KINDS)
        return T_int(s, sg)
    if k == 'vec':
        return {'k': 'vec', 'n': rng.choice([2, 3, 4])}
    if k in ('f32', 'f64', 'blob', 'string', 'python', 'mailbox'):
        return {'k': k}
    if k == 'array':
        size = None
        if rng.random() < 0.4:
            size = rng.choice([0, 1, 2, 3, 5])
        return {'k': 'array', 'of': gen_type(rng, depth - 1, writable, allow_user, width), 'size': size}
    if k == 'dict':
        n = rng.randint(1, width)
        names = []
        while len(names) < n:
            nm = rng.choice(['a', 'b', 'id', 'x', 'pos', 'name', 'state', 'v']) + str(rng.randint(0, 99))
            if nm not in names:
                names.append(nm)
        return {'k': 'dict', 'fields': [[nm, gen_type(rng, depth - 1, writable, allow_user, width)] for nm in names],
                'allowNone': rng.random() < 0.4}
    if k == 'user':
        if rng.random() < 0.5:
            return {'k': 'user', 'of': {'k': 'blob'}}
        return {'k': 'user', 'of': gen_type(rng, depth - 1, writable, allow_user, width)}
    raise AssertionError(k)


def has_nonblob_user(t):
    k = t['k']
    if k == 'user':
        return t['of']['k'] != 'blob' or has_nonblob_user(t['of'])
    if k == 'array':
        return has_nonblob_user(t['of'])
    if k == 'dict':
        return any(has_nonblob_user(f[1]) for f in t['fields'])
    return False


def type_kinds(t, acc=None):
    acc = acc if acc is not None else {}
    k = t['k']
    acc[k] = acc.get(k, 0) + 1
    if k in ('user', 'array'):
        type_kinds(t['of'], acc)
    elif k == 'dict':
        for _, f in t['fields']:
            type_kinds(f, acc)
    return acc


def is_nested(t):
    return t['k'] in ('array', 'dict', 'user', 'blob', 'string', 'python')


# --- XML ----------------------------------------------------------------------------

def type_xml_body(t, names=None):
    """inner text+children of a type section (what stands inside <Type>…</Type>)"""
    k = t['k']
    if names is not None and id(t) in names:
        return names[id(t)]
    if k == 'int':
        return INT_NAMES[(t['size'], t['signed'])]
    if k == 'f32':
        return 'FLOAT32'
    if k == 'f64':
        return 'FLOAT64'
    if k == 'vec':
        return 'VECTOR%d' % t['n']
    if k == 'blob':
        return 'BLOB'
    if k == 'string':
        return 'STRING'
    if k == 'python':
        return 'PYTHON'
    if k == 'mailbox':
        return 'MAILBOX'
    if k == 'array':
        s = 'ARRAY <of> %s </of>' % type_xml_body(t['of'], names)
        if t['size'] is not None:
            s += ' <size> %d </size>' % t['size']
        return s
    if k == 'dict':
        s = 'FIXED_DICT <Properties>'
        for nm, f in t['fields']:
            s += '<%s><Type> %s </Type></%s>' % (nm, type_xml_body(f, names), nm)
        s += '</Properties>'
        if t['allowNone']:
            s += '<AllowNone> true </AllowNone>'
        return s
    if k == 'user':
        if t['of']['k'] == 'blob' and t.get('_implicit_blob'):
            return 'USER_TYPE <implementedBy>X.y</implementedBy>'
        return 'USER_TYPE <Type> %s </Type><implementedBy>X.y</implementedBy>' % type_xml_body(t['of'], names)
    raise AssertionError(k)


# --- values -------------------------------------------------------------------------

def gen_bytes(rng, n):
    return bytes(rng.getrandbits(8) for _ in range(n)) if n < 64 else rng.randbytes(n)


def gen_len(rng, big_ok=True):
    r = rng.random()
    if r < 0.7:
        return rng.randint(0, 12)
    if r < 0.9 or not big_ok:
        return rng.choice([0, 1, 2, 253, 254, 255, 256, 257, 300])
    return rng.choice(BOUNDARY_LENGTHS)


def gen_text(rng, n):
    """UTF-8 bytes of a random text of about n bytes (mixed 1-4 byte code points)"""
    out = bytearray()
    if n >= 3 and rng.random() < 0.08:
        out += b'\xef\xbb\xbf'                 # U+FEFF in front: a character like any other, not a byte-order mark to be swallowed
    while len(out) < n:
        r = rng.random()
        if r < 0.03:
            cp = rng.choice([0xfeff, 0x0, 0x2028, 0x85, 0xa0, 0x200b])
        elif r < 0.6:
            cp = rng.randint(0x20, 0x7e)
        elif r < 0.8:
            cp = rng.randint(0x80, 0x7ff)
        elif r < 0.95:
            cp = rng.choice([rng.randint(0x800, 0xd7ff), rng.randint(0xe000, 0xffff)])
        else:
            cp = rng.randint(0x10000, 0x10ffff)
        e = chr(cp).encode('utf-8')
        if len(out) + len(e) > n:
            e = b'x' * (n - len(out))
        out += e
    return bytes(out)


def utf8_ok(b):
    try:
        b.decode('utf-8')
        return True
    except UnicodeDecodeError:
        return False


FLOAT32_SPECIALS = [0x00000000, 0x80000000, 0x3f800000, 0xbf800000, 0x7f800000, 0xff800000, 0x00000001,
                    0x007fffff, 0x00800000, 0x7f7fffff, 0x7fc00000, 0x7fa00001, 0xffc00000]
FLOAT64_SPECIALS = [0, 1 << 63, 0x3ff0000000000000, 0x7ff0000000000000, 0xfff0000000000000, 1,
                    0x000fffffffffffff, 0x7fefffffffffffff, 0x7ff8000000000000, 0x7ff4000000000001]


def gen_f32(rng):
    return rng.choice(FLOAT32_SPECIALS) if rng.random() < 0.3 else rng.getrandbits(32)


def gen_f64(rng):
    return rng.choice(FLOAT64_SPECIALS) if rng.random() < 0.3 else rng.getrandbits(64)


def gen_int(rng, size, signed):
    bits = 8 * size
    lo, hi = (-(1 << (bits - 1)), (1 << (bits - 1)) - 1) if signed else (0, (1 << bits) - 1)
    r = rng.random()
    if r < 0.35:
        return rng.choice([lo, hi, 0, 1, -1 if signed else hi - 1, lo + 1, hi // 2])
    return rng.randint(lo, hi)


def gen_value(rng, t, big_ok=True, budget=None):
    """a value of type t in canonical form (always satisfies the model's hasTy)"""
    k = t['k']
    if k == 'int':
        return gen_int(rng, t['size'], t['signed'])
    if k == 'f32':
        return {'f32': gen_f32(rng)}
    if k == 'f64':
        return {'f64': gen_f64(rng)}
    if k == 'vec':
        return {'vec': [gen_f32(rng) for _ in range(t['n'])]}
    if k in ('blob', 'python'):
        return {'b': gen_bytes(rng, gen_len(rng, big_ok)).hex()}
    if k == 'string':
        n = gen_len(rng, big_ok)
        if rng.random() < 0.8:
            return {'s': gen_text(rng, n).hex()}
        b = gen_bytes(rng, max(n, 1))
        if utf8_ok(b):
            b = b + b'\xff'
        return {'b': b.hex()}
    if k == 'mailbox':
        return {'mb': [gen_bytes(rng, 4).hex(), rng.choice([0, 1, 255, 256, 65535, rng.randint(0, 65535)])]}
    if k == 'array':
        if t['size'] is not None:
            n = t['size']
        else:
            r = rng.random()
            n = rng.randint(0, 4) if r < 0.8 else (rng.choice([0, 1, 254, 255]) if not is_nested(t['of']) else rng.randint(0, 6))
        return [gen_value(rng, t['of'], big_ok=False) for _ in range(n)]
    if k == 'dict':
        if t['allowNone'] and rng.random() < 0.35:
            return None
        return {'d': [[nm, gen_value(rng, f, big_ok=False)] for nm, f in t['fields']]}
    if k == 'user':
        return gen_value(rng, t['of'], big_ok=False)
    raise AssertionError(k)
