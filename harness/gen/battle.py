# coding=utf-8
"""
Synthetic battles for the bundled versions: a complete minimal (or richer, random) battle
encoded against a version's own definitions and packet numbering, wrapped into a real
container, together with what the summary must contain according to the generated events
(naive fold, per-field variant knowledge kept to a minimum and listed in DESIGN appendix C).
"""
import importlib
import json
import os
import pickle
import struct

from . import history
from . import types as gt
from ..oracle import wire
from .. import container

AVATAR_ID = 1000
LOGIC_ID = 2000
VEHICLE_BASE = 3000


# value policies for fields the battle does not set itself (C15: extreme but legal values); None = zeros
INT_POLICY = None
FLOAT_BITS = None
ARENA_BYTES = None


def int_extreme(which):
    def f(t, hint):
        bits = 8 * t['size']
        if which == 'ones':
            return -1 if t['signed'] else (1 << bits) - 1
        if which == 'top':
            return -(1 << (bits - 1)) if t['signed'] else 1 << (bits - 1)
        return (1 << (bits - 1)) - 1
    return f


def benign(t, hint='', depth=0, consts=None):
    """a harmless value of type t (canonical form); `hint` is the field / property name"""
    k = t['k']
    if k == 'int':
        return INT_POLICY(t, hint) if INT_POLICY else 0
    if k == 'f32':
        return {'f32': FLOAT_BITS[0] if FLOAT_BITS else 0}
    if k == 'f64':
        return {'f64': FLOAT_BITS[1] if FLOAT_BITS else 0}
    if k == 'vec':
        return {'vec': [0] * t['n']}
    if k in ('blob', 'python'):
        return {'b': pickle.dumps({}, protocol=2).hex()}
    if k == 'string':
        return {'s': b'x'.hex()}
    if k == 'mailbox':
        return {'mb': ['7f000001', 1]}
    if k == 'array':
        n = t['size'] if t['size'] is not None else 0
        if hint == 'learnedSkills' and t['size'] is None:
            n = 8
        return [benign(t['of'], hint, depth + 1, consts) for _ in range(n)]
    if k == 'dict':
        return {'d': [[n, benign(f, n, depth + 1, consts)] for n, f in t['fields']]}
    if k == 'user':
        return benign(t['of'], hint, depth + 1, consts)
    raise AssertionError(k)


def find_field(t, v, name):
    """(type, value-holder list) of the first dict field called `name` below (t, v)"""
    t = history.peel(t)
    if t['k'] == 'dict' and v is not None:
        for (fn, ft), entry in zip(t['fields'], v['d']):
            if fn == name:
                return ft, entry
            r = find_field(ft, entry[1], name)
            if r:
                return r
    return None


class Battle(history.History):
    def __init__(self, rng, game, version, views, dialect):
        super().__init__(rng, views, dialect)
        self.game_name = game
        self.version = version
        self.consts = None
        try:
            self.consts = importlib.import_module('replay_unpack.clients.%s.versions.%s.constants' % (game, version))
        except Exception:
            pass
        self.expect = {}
        self.trace = []          # abstract events for the controller model

    def value(self, t):
        return benign(t)

    def value_for(self, t, name):
        return benign(t, name)

    def type_index(self, name):
        for i, v in enumerate(self.views):
            if v['name'] == name:
                return i
        return None

    # property values by name: History's generators call self.value(t); re-implement the few
    # events we need so that names are available
    def create_named(self, eid, tname, overrides=None):
        tidx = self.type_index(tname)
        if tidx is None:
            return False
        view = self.views[tidx]
        ent = self.new_entity(eid, tidx)
        props = view['clientProps'][:255]
        state = bytes([len(props)])
        for i, (name, size, t, flags) in enumerate(props):
            v = (overrides or {}).get(name) or benign(t, name)
            ent['client'][name] = v
            state += bytes([i]) + wire.encode(t, v, 1)
        head = struct.pack('<ihii', eid, tidx + 1, 0, 5) + b'\x00' * 24
        if self.game == 'wot':
            head += struct.pack('<i', 0)
        self.world[eid] = ent
        self.emit('create', head + history.bstream(state), id=eid, type=tidx)
        return True

    def player(self, eid):
        """the recording player's creation packets; the base and cell packets come in either order (the players say they do not rely on one)"""
        ai = self.avatar_idx
        view = self.views[ai]
        body = b''
        if self.game != 'wot':
            for name, size, t, flags in view['base']:
                body += wire.encode(t, benign(t, name), 1)
        base = ('base', struct.pack('<ih', eid, ai + 1) + history.bstream(body))
        self.world[eid] = self.new_entity(eid, ai)
        self.player_id = eid
        cell = None
        if 'cell' in self.tab:
            body = b''
            for name, size, t, flags in view['internal']:
                v = benign(t, name)
                self.world[eid]['client'][name] = v
                body += wire.encode(t, v, 1)
            head = struct.pack('<ii', eid, 5)
            if self.game == 'wot':
                head += struct.pack('<h', 0)
            head += struct.pack('<i', 0) + b'\x00' * 24
            cell = ('cell', head + history.bstream(body))
        order = [base, cell] if cell is not None else [base]
        if cell is not None and self.rng.random() < 0.4:
            order = [cell, base]
        for kind, payload in order:
            self.emit(kind, payload, id=eid)

    def set_prop(self, eid, pname, v=None):
        ent = self.world[eid]
        props = self.views[ent['type']]['clientProps']
        for i, (name, size, t, flags) in enumerate(props):
            if name == pname:
                v = v if v is not None else benign(t, name)
                ent['client'][name] = v
                self.emit('prop', struct.pack('<II', eid, i) + history.bstream(wire.encode(t, v, 1)), id=eid, prop=name)
                return True
        return False

    def call(self, eid, mname, argvals):
        """argvals: dict name-> canonical value or list by position; missing ones are benign"""
        ent = self.world[eid]
        view = self.views[ent['type']]
        for i, m in enumerate(view['methods']):
            if m['name'] == mname:
                vals = []
                for j, (an, t) in enumerate(m['args']):
                    if isinstance(argvals, dict):
                        v = argvals.get(an if an is not None else j)
                    else:
                        v = argvals[j] if j < len(argvals) else None
                    vals.append(v if v is not None else benign(t, an or ''))
                body = b''.join(wire.encode(t, v, m['header']) for (an, t), v in zip(m['args'], vals))
                self.emit('method', struct.pack('<II', eid, i) + history.bstream(body), id=eid, method=mname)
                return m
        return None

    def method_def(self, tname, mname):
        ti = self.type_index(tname)
        if ti is None:
            return None
        for m in self.views[ti]['methods']:
            if m['name'] == mname:
                return m
        return None


FORCE_END = False          # set by battlecheck.make_battle for every second battle of a version: battle end + a later change, for certain


class Py2Str(str):
    """a text the Python 2 client pickles as a byte string"""


class Py2Text(dict):
    """a nested value whose text (dict keys, strings) the game client, a Python 2 program, pickles as byte strings; as a Python object
    it is the dict the summary must show (text as str)"""


def deep_value(depth):
    v = {'leaf': [1, 'x', {'k': 2}]}
    for _ in range(depth):
        v = {'next': v}
    return Py2Text(v)


def _has_py2(obj):
    if isinstance(obj, (Py2Text, Py2Str, set, frozenset)):
        return True
    if isinstance(obj, dict):
        return any(_has_py2(k) or _has_py2(v) for k, v in obj.items())
    if isinstance(obj, (list, tuple)):
        return any(_has_py2(x) for x in obj)
    return False


def py2_dumps(obj):
    """a protocol-2 pickle as Python 2 writes it: text inside a Py2Text is a byte string (SHORT_BINSTRING / BINSTRING), everything else as
    the standard pickler does; no memo, no classes"""
    out = [b'\x80\x02']

    def put(x, py2):
        if x is None:
            out.append(b'N')
        elif x is True:
            out.append(b'\x88')
        elif x is False:
            out.append(b'\x89')
        elif isinstance(x, int):
            if -2 ** 31 <= x < 2 ** 31:
                out.append(b'J' + struct.pack('<i', x))
            else:
                raw = x.to_bytes((x.bit_length() + 8) // 8, 'little', signed=True)
                out.append(b'\x8a' + bytes([len(raw)]) + raw)
        elif isinstance(x, float):
            out.append(b'G' + struct.pack('>d', x))
        elif isinstance(x, (set, frozenset)):
            out.append(b'c__builtin__\n' + (b'set' if isinstance(x, set) else b'frozenset') + b'\n(](')
            for y in sorted(x, key=repr):
                put(y, py2)
            out.append(b'etR')
        elif isinstance(x, str):
            raw = x.encode('utf-8')
            if py2 or isinstance(x, Py2Str):
                out.append((b'U' + bytes([len(raw)]) if len(raw) < 256 else b'T' + struct.pack('<i', len(raw))) + raw)
            else:
                out.append(b'X' + struct.pack('<I', len(raw)) + raw)
        elif isinstance(x, bytes):
            out.append((b'U' + bytes([len(x)]) if len(x) < 256 else b'T' + struct.pack('<i', len(x))) + x)
        elif isinstance(x, (list, tuple)):
            if isinstance(x, list):
                out.append(b'](')
                for y in x:
                    put(y, py2)
                out.append(b'e')
            else:
                out.append(b'(')
                for y in x:
                    put(y, py2)
                out.append(b't')
        elif isinstance(x, dict):
            inner = py2 or isinstance(x, Py2Text)
            out.append(b'}(')
            for k, v in x.items():
                put(k, inner)
                put(v, inner)
            out.append(b'u')
        else:
            raise TypeError(type(x))
    put(obj, False)
    out.append(b'.')
    return b''.join(out)


def blob(obj):
    if _has_py2(obj):
        return {'b': py2_dumps(obj).hex()}
    return {'b': pickle.dumps(obj, protocol=2).hex()}


def roster_rows(consts, kind, players):
    """rows [(index, value)..] for the version's own index->name table"""
    table = {'player': 'id_property_map', 'bot': 'id_property_map_bots', 'observer': 'id_property_map_observer'}[kind]
    mp = getattr(consts, table, None)
    if mp is None:
        return None
    rev = {v: k for k, v in mp.items()}
    rows = []
    for p in players:
        rows.append([(rev[k], v) for k, v in p.items() if k in rev])
    return rows


def version_string(game, version):
    comps = version.split('_')
    if game == 'wows':
        return {'clientVersionFromXml': ','.join(comps + ['0'] if len(comps) == 3 else comps)}
    if game == 'wot':
        return {'clientVersionFromXml': 'World\xa0of\xa0Tanks v.%s.0 #1' % '.'.join(comps)}
    return {'clientVersion': 'World of Warplanes %s.0' % '.'.join(comps)}


def dialect_for(game, version):
    if game == 'wot':
        return 'wot'
    if game == 'wowp':
        return 'wowp'
    comps = tuple(int(x) for x in version.split('_')[:3])
    return 'wowsNew' if comps >= (12, 6, 0) else 'wowsOld'


def build(rng, game, version, views, rich=False, ids=None):
    """-> (Battle, expectation dict). `ids` optionally supplies entity ids (avatar, logic, vehicles...)"""
    global AVATAR_ID, LOGIC_ID, VEHICLE_BASE
    b = Battle(rng, game, version, views, dialect_for(game, version))
    exp = {}
    ids = list(ids or [])
    AVATAR_ID = ids.pop(0) if ids else 1000
    LOGIC_ID = ids.pop(0) if ids else 2000
    b.extra_ids = ids
    b.player(AVATAR_ID)
    b.trace.append(['player', AVATAR_ID])
    exp['player_id'] = AVATAR_ID
    if game == 'wowp':
        return b, exp
    arena = rng.choice(['spaces/s07_Advance', 'spaces/a08_NE_passage', 'spaces/42_Neighbors', 'spaces/estuary', 'spaces/spaces_x', 'spaces/spaces/c', 'capes', 'spaces/ocean'])
    nb = arena.encode()
    if ARENA_BYTES is not None:
        nb = ARENA_BYTES            # an arena name that is not valid UTF-8 (C14)
    if game == 'wot':
        b.emit('map', struct.pack('<iib', 1, 77, len(nb)) + nb, name=arena)
    else:
        b.emit('map', struct.pack('<iqi', 1, 123456789012, len(nb)) + nb + b'\x00' * 65, name=arena)
    exp['map'] = arena[len('spaces/'):] if arena.startswith('spaces/') else arena
    b.trace.append(['map', nb.hex()])
    if game == 'wot':
        # the wot controller records the arguments of Avatar.showTracer in its summary
        m = b.method_def('Avatar', 'showTracer')
        if m is not None and rich:
            for _ in range(rng.randint(1, 3)):
                args = {}
                for j, (an, t) in enumerate(m['args']):
                    args[an if an is not None else j] = benign(history.peel(t), an or '')
                b.call(AVATAR_ID, 'showTracer', args)
        return b, exp
    consts = b.consts
    # --- entities the summary reads
    n_vehicles = rng.randint(2, 4) if rich else 1
    vehicles = [VEHICLE_BASE + i for i in range(n_vehicles)]
    for i in range(min(len(vehicles), len(b.extra_ids))):
        vehicles[i] = b.extra_ids[i]
    # --- roster
    players = []
    for i, vid in enumerate(vehicles):
        players.append({'id': 500 + i, 'avatarId': AVATAR_ID + 10 * i, 'shipId': vid, 'name': rng.choice(['Alice', 'Bob', 'Ünï', 'Ж']) + str(i),
                        'teamId': i % 2, 'accountDBID': 9000 + i, 'isBot': False, 'maxHealth': 10000 + i})
    b.create_named(LOGIC_ID, 'BattleLogic')
    for vid, pl in zip(vehicles, players):
        b.create_named(vid, 'Vehicle', overrides={'owner': pl['avatarId']})
    arena_id = rng.choice([1, 2 ** 40 + 5, 987654321])
    rows = roster_rows(consts, 'player', players) if consts is not None else None
    m = b.method_def('Avatar', 'onArenaStateReceived')
    if m is not None and rows is not None:
        args = {}
        for j, (an, t) in enumerate(m['args']):
            key = an if an is not None else j
            pt = history.peel(t)
            if an == 'arenaUniqueId':
                args[key] = arena_id
            elif an in ('playersStates',):
                args[key] = blob(rows)
            elif an in ('botsStates', 'observersState', 'preBattlesInfo', 'buildingsInfo'):
                args[key] = blob([])
            elif pt['k'] == 'dict':
                # 0.8.0: one ARENA_STATE dict argument
                v = benign(t, an or '')
                for fname, val in (('playersStates', blob(rows)), ('arenaUniqueId', arena_id)):
                    r = find_field(t, v, fname)
                    if r and history.peel(r[0])['k'] in ('blob', 'int'):
                        r[1][1] = val
                for fname in ('botsStates', 'observersState', 'preBattlesInfo', 'buildingsInfo'):
                    r = find_field(t, v, fname)
                    if r and history.peel(r[0])['k'] == 'blob':
                        r[1][1] = blob([])
                args[key] = v
        b.call(AVATAR_ID, 'onArenaStateReceived', args)
        exp['players'] = {p['id']: dict(p) for p in players}
        exp['arena_id'] = arena_id
        b.trace.append(['arena', arena_id])
        for p in players:
            b.trace.append(['roster', p['id'], [[k, json.dumps(v, default=str)] for k, v in p.items()]])
    # pose packets for every entity (ids may come from the literal dictionary)
    for eid in [AVATAR_ID] + vehicles:
        if -2 ** 31 <= eid < 2 ** 31:
            b.position(eid)
    if 'ppos' in b.tab and -2 ** 31 <= AVATAR_ID < 2 ** 31:
        pos = history.vec3(rng)
        b.emit('ppos', struct.pack('<ii', AVATAR_ID, 0) + history.pack_bits(pos) + history.pack_bits([0, 0, 0]), id1=AVATAR_ID, id2=0)
        b.emit('ppos', struct.pack('<ii', AVATAR_ID, vehicles[0]) + history.pack_bits(pos) + history.pack_bits([0, 0, 0]), id1=AVATAR_ID, id2=vehicles[0])
    if not rich or rows is None:
        return b, exp
    ver = tuple(int(x) for x in version.split('_')[:3])
    if rng.random() < 0.5:
        world_fields(b, rng, consts, vehicles)
    events(b, rng, exp, ver, players, vehicles, consts)
    if rng.random() < 0.7:
        world_fields(b, rng, consts, vehicles)          # the last update is what the final world shows
    for _ in range(rng.choice([0, 1, 2])):
        control_point_slice(b, rng, consts)
    world_expectation(b, exp, consts, vehicles, exp.get('death_map', []))
    return b, exp


# ---- the part of the summary that is read from the final world (crew, control points, tasks) ------------------------------------

_F32 = [struct.unpack('<I', struct.pack('<f', x))[0] for x in (0.0, 1.5, -2.25, 120.0, 0.125, 3.0e5)]


def rich_value(rng, t, hint, consts):
    """a non-trivial value of type t (canonical form): small numbers, finite floats, short texts, 0..3 elements; the fields the controllers
    interpret get values from the version's own tables"""
    k = t['k']
    if k == 'user':
        return rich_value(rng, t['of'], hint, consts)
    if k == 'int':
        if hint == 'paramsId':
            return rng.randint(1, 2 ** 32 - 1) if (t['size'] == 4 and not t['signed']) else rng.randint(0, 100)
        hi = min(3, (1 << (8 * t['size'] - (1 if t['signed'] else 0))) - 1)
        for nm, cls in (('category', 'Category'), ('status', 'Status'), ('type', 'TaskType')):
            names = getattr(getattr(consts, cls, None), 'names', None)
            if hint == nm and names:
                return rng.choice(sorted(names))
        if INT_POLICY:
            return INT_POLICY(t, hint)          # battles with extreme field values keep them in the updates, too
        return rng.randint(0, hi)
    if k == 'f32':
        return {'f32': rng.choice(_F32)}
    if k == 'f64':
        return {'f64': struct.unpack('<Q', struct.pack('<d', rng.choice([0.0, 2.5, -7.0])))[0]}
    if k == 'vec':
        return {'vec': [rng.choice(_F32) for _ in range(t['n'])]}
    if k == 'string':
        return {'s': rng.choice([b'', b'pt', b'timer_a']).hex()}
    if k in ('blob', 'python', 'mailbox'):
        return benign(t, hint)
    if k == 'array':
        inner = history.peel(t['of'])
        if hint == 'learnedSkills' and inner['k'] == 'array' and history.peel(inner['of'])['k'] == 'int' and t['size'] is None:
            ship_types = getattr(consts, 'SHIP_TYPE_BY_ID', None) or {}
            skills = sorted(getattr(consts, 'SKILL_TYPE_ID_TO_NAME', None) or {1: 'x'})
            n = max(list(ship_types) + [7]) + 1
            return [sorted(rng.sample(skills, min(len(skills), rng.choice([0, 0, 1, 3, 6])))) + ([250] if rng.random() < 0.2 else [])
                    for _ in range(n)]
        n = t['size'] if t['size'] is not None else rng.randint(0, 3)
        return [rich_value(rng, t['of'], hint, consts) for _ in range(n)]
    if k == 'dict':
        return {'d': [[n, rich_value(rng, f, n, consts)] for n, f in t['fields']]}
    raise AssertionError(k)


def jsonify(v):
    """a canonical value as the shipped encoder shows it"""
    if isinstance(v, list):
        return [jsonify(x) for x in v]
    if isinstance(v, dict):
        if 'd' in v:
            return {k: jsonify(x) for k, x in v['d']}
        if 'f32' in v:
            return struct.unpack('<f', struct.pack('<I', v['f32']))[0]
        if 'f64' in v:
            return struct.unpack('<d', struct.pack('<Q', v['f64']))[0]
        if 'vec' in v:
            return [struct.unpack('<f', struct.pack('<I', x))[0] for x in v['vec']]
        if 's' in v:
            raw = bytes.fromhex(v['s'])
            try:
                return raw.decode('utf-8')
            except UnicodeDecodeError:
                return str(raw)
        if 'b' in v:
            return str(bytes.fromhex(v['b']))
        if 'mb' in v:
            return list(v['mb'])
    return v


def field_of(v, name):
    if isinstance(v, dict) and 'd' in v:
        for k, x in v['d']:
            if k == name:
                return x
    return None


def world_fields(b, rng, consts, vehicles):
    """non-trivial crew parameters on the vehicles and a non-trivial state on the battle logic (sent as updates after creation)"""
    for vid in vehicles:
        if vid in b.world and rng.random() < 0.8:
            for name, size, t, flags in b.views[b.world[vid]['type']]['clientProps']:
                if name == 'crewModifiersCompactParams':
                    b.set_prop(vid, name, rich_value(rng, history.peel(t), name, consts))
    if LOGIC_ID in b.world:
        for name, size, t, flags in b.views[b.world[LOGIC_ID]['type']]['clientProps']:
            if name == 'state' and history.peel(t)['k'] == 'dict':
                b.set_prop(LOGIC_ID, name, rich_value(rng, history.peel(t), name, consts))


def control_point_slice(b, rng, consts):
    """a path-addressed update of the battle logic's state: one more control point appended by a slice (is_slice = 1, element data) --
    what a nested-change subscriber on `state.controlPoints` is told about, and what the summary's control points must show afterwards"""
    if 'nested' not in b.tab or LOGIC_ID not in b.world:
        return False
    ent = b.world[LOGIC_ID]
    props = b.views[ent['type']]['clientProps']
    for pi, (name, size, t, flags) in enumerate(props):
        pt = history.peel(t)
        if name != 'state' or pt['k'] != 'dict' or ent['client'].get('state') is None:
            continue
        for fi, (fname, ft) in enumerate(pt['fields']):
            lt = history.peel(ft)
            cur = field_of(ent['client']['state'], 'controlPoints')
            if fname != 'controlPoints' or lt['k'] != 'array' or lt['size'] is not None or not isinstance(cur, list):
                continue
            elem = rich_value(rng, history.peel(lt['of']), 'controlPoints', consts)
            data = wire.encode(lt['of'], elem, 1)
            if not data:
                return False
            bw = history.BitWriter()
            bw.put(1, 1)
            bw.put(pi, history.bits_required(len(props)))
            bw.put(1, 1)
            bw.put(fi, history.bits_required(len(pt['fields'])))
            bw.put(0, 1)
            w = history.bits_required(len(cur) + 1)
            bw.put(len(cur), w)
            bw.put(len(cur), w)
            body = bw.bytes() + data
            cur.append(elem)
            b.emit('nested', struct.pack('<IbI', LOGIC_ID, 1, len(body)) + body, id=LOGIC_ID, path=['state', 'controlPoints', 'append'], op='slice')
            return True
    return False


def world_expectation(b, exp, consts, vehicles, deaths):
    """what the summary must say about the final world, restated from the tracker and the version's own tables"""
    state = (b.world.get(LOGIC_ID) or {}).get('client', {}).get('state')
    cps = field_of(state, 'controlPoints')
    if cps is not None:
        exp['control_points'] = jsonify(cps)
    tasks = field_of(state, 'tasks')
    cat, st, tt = (getattr(getattr(consts, c, None), 'names', None) for c in ('Category', 'Status', 'TaskType'))
    if isinstance(tasks, list) and cat and st and tt:
        out = []
        # two generations of controllers: from 12.7.0 on a task is listed by its `id` and only when it is shown on the HUD; before
        # that every task is listed by its `name`
        newer = tuple(int(x) for x in b.version.split('_')[:3]) >= (12, 7, 0)
        for task in tasks:
            if newer and not field_of(task, 'showOnHUD'):
                continue
            out.append({'category': cat[field_of(task, 'category')], 'status': st[field_of(task, 'status')],
                        'name': jsonify(field_of(task, 'id' if newer else 'name')), 'type': tt[field_of(task, 'type')]})
        exp['tasks'] = out
    ship_types = getattr(consts, 'SHIP_TYPE_BY_ID', None)
    skill_names = getattr(consts, 'SKILL_TYPE_ID_TO_NAME', None)
    if ship_types and skill_names is not None:
        crew = {}
        vidx = b.type_index('Vehicle')
        for eid, ent in b.world.items():
            if ent['type'] != vidx:
                continue
            params = ent['client'].get('crewModifiersCompactParams')
            packed = field_of(params, 'learnedSkills')
            if not isinstance(packed, list) or (packed and not isinstance(packed[0], list)):
                crew = None
                break
            learned = {}
            for type_id, type_name in ship_types.items():
                if not packed[type_id]:
                    continue
                learned[type_name] = [skill_names.get(sid) for sid in packed[type_id]]
            crew[eid] = {'crew_id': field_of(params, 'paramsId'), 'learned_skills': learned}
        if crew is not None:
            exp['crew'] = crew
    dt = getattr(consts, 'DEATH_TYPES', None)
    if isinstance(dt, dict) and dt and all(isinstance(x, dict) and 'icon' in x and 'name' in x for x in dt.values()):
        info = {}
        for victim, killer, typ in deaths:
            if typ in dt:
                info[victim] = {'killer_id': killer, 'icon': dt[typ]['icon'], 'name': dt[typ]['name']}
        exp['death_info'] = info


def events(b, rng, exp, ver, players, vehicles, consts):
    """random battle events + the naive fold of what the summary must say about them"""
    deaths, ach, ribbons, shots, dmg, planes_list, planes_count = [], {}, {}, {}, {}, [], {}
    by_id = exp['players']

    sent_rosters = []

    def resend_roster(which):
        """an earlier roster message again, byte for byte (a repeated message is merged again like any other)"""
        meth0, args0, kinds0 = which
        if b.call(AVATAR_ID, meth0, args0):
            for kind in ('player', 'bot', 'observer'):
                for row in kinds0.get(kind, []):
                    by_id.setdefault(row['id'], {}).update(row)
                    b.trace.append(['roster', row['id'], [[k, json.dumps(v, default=str)] for k, v in row.items()]])

    def roster_message(meth, force_all=False, pl=None):
        if not force_all and pl is None and sent_rosters and rng.random() < 0.25:
            return resend_roster(rng.choice(sent_rosters))
        pl = pl or rng.choice(players)
        upd = {'id': pl['id'], 'maxHealth': rng.randint(1, 99999), 'name': rng.choice(['Zed', 'Ωmega', 'Q'])}
        # a property whose value is a nested structure (real rosters carry dicts and lists: crew parameters, dog tags, ...), at depths from
        # flat to far deeper than anything a recording has
        table = getattr(consts, 'id_property_map', None) or {}
        deep_names = [nm for nm in ('dogTag', 'crewParams', 'playerMode', 'skinId', 'prebattleId') if nm in table.values()]
        if deep_names and (force_all or rng.random() < 0.4):
            upd[deep_names[0]] = deep_value(rng.choice([0, 1, 3, 40, 120, 150]))
        if len(deep_names) > 1 and (force_all or rng.random() < 0.3):
            # a set is a legal pickled value (the shipped encoder writes str(o) for it); members of different kinds
            upd[deep_names[1]] = rng.choice([{1, None}, frozenset([2, None]), {3}])
        if force_all or rng.random() < 0.3:
            # names as the Python 2 client pickles them (byte strings), up to well beyond a kilobyte
            upd['name'] = Py2Str(rng.choice(['N', 'clan_tag_', 'x']) * rng.choice([1, 40, 400, 1500]))
        m = b.method_def('Avatar', meth)
        # the roster messages carry up to three lists (players, bots, observers), each with its own index -> name table
        kinds = {'player': [upd]}
        if m is not None:
            for an, t in m['args']:
                kind = 'bot' if an and 'bots' in an else 'observer' if an and 'observers' in an else None
                table = getattr(consts, {'bot': 'id_property_map_bots', 'observer': 'id_property_map_observer'}.get(kind, ''), None)
                if kind and table and 'id' in table.values() and (force_all or rng.random() < 0.6):
                    names = set(table.values())
                    extra_id = 700 + len(by_id)
                    row = {'id': extra_id}
                    for k, v in (('name', rng.choice(['Bot', 'Ōbs', 'X'])), ('accountDBID', rng.randint(1, 10 ** 6)), ('avatarId', rng.randint(1, 10 ** 6)),
                                 ('maxHealth', rng.randint(1, 99999)), ('teamId', rng.randint(0, 1))):
                        if k in names and rng.random() < 0.8:
                            row[k] = v
                    kinds[kind] = [row]
        rows = {k: roster_rows(consts, k, v) for k, v in kinds.items()}
        if m is not None and rows['player'] is not None:
            args = {}
            first_blob = True
            for j, (an, t) in enumerate(m['args']):
                key = an if an is not None else j
                if history.peel(t)['k'] == 'blob':
                    if an in ('playersData', 'playersStates') or (an is None and first_blob):
                        args[key] = blob(rows['player'])
                    elif an and 'bots' in an and rows.get('bot'):
                        args[key] = blob(rows['bot'])
                    elif an and 'observers' in an and rows.get('observer'):
                        args[key] = blob(rows['observer'])
                    else:
                        args[key] = blob([])
                    first_blob = False
            if b.call(AVATAR_ID, meth, args):
                sent_rosters.append((meth, dict(args), {k: [dict(r) for r in v] for k, v in kinds.items()}))
                for kind in ('player', 'bot', 'observer'):          # the order in which the controllers merge the three lists
                    for row in kinds.get(kind, []):
                        by_id.setdefault(row['id'], {}).update(row)
                        b.trace.append(['roster', row['id'], [[k, json.dumps(v, default=str)] for k, v in row.items()]])

    n = rng.randint(8, 25)
    # every kind of event at least three times (counts, sums and orders are only observable with repetition), then random ones
    forced = [0.1, 0.2, 0.4, 0.55, 0.65, 0.75, 0.85, 0.95] * 3
    rng.shuffle(forced)
    rs = forced + [rng.random() for _ in range(n)]
    stats_at = rng.randrange(len(rs) // 2) if ('stats' in b.tab and ver != (12, 7, 0)) else None
    for step, r in enumerate(rs):
        if step == stats_at:
            # post-battle statistics (12.6+ numbering) may arrive before the last events; only the 12.7.0 controller looks at them
            js = json.dumps({'note': 'post battle results', 'n': step}).encode()
            b.emit('stats', struct.pack('<i', len(js)) + js)
        if r < 0.15 and len(vehicles) >= 2:
            victim, killer = rng.sample(vehicles, 2)
            if rng.random() < 0.2:
                killer = victim                     # self-inflicted (ramming, own torpedoes, detonation)
            typ = rng.choice(list(getattr(consts, 'DEATH_TYPES', {1: 0}).keys()) or [1])
            if b.call(AVATAR_ID, 'receiveVehicleDeath', [victim, killer, typ]):
                deaths.append([victim, killer, typ])
                b.trace.append(['death', victim, killer, typ])
        elif r < 0.3:
            pl = rng.choice(players)
            aid = rng.choice([4277330864, 5, 77])
            key_arg = pl['id'] if ver >= (0, 11, 8) else pl['avatarId']
            if b.call(AVATAR_ID, 'onAchievementEarned', [key_arg, aid]):
                d = ach.setdefault(pl['avatarId'], {})
                d[aid] = d.get(aid, 0) + 1
                b.trace.append(['achievement', pl['avatarId'], aid])
        elif r < 0.45:
            m = b.method_def('Avatar', 'receiveDamageStat')
            if m is not None:
                stat = {}
                for _k in range(rng.randint(1, 3)):
                    stat[(rng.randint(1, 4), rng.choice([0, 0, 1, 2]))] = [rng.randint(1, 5), float(rng.randint(0, 5000))]
                b.call(AVATAR_ID, 'receiveDamageStat', [blob(stat)])
                for (t_, b_), val in stat.items():
                    if b_ == 0:
                        dmg[t_] = {0: val}
                b.trace.append(['damageStat', [[t_, b_, json.dumps(val)] for (t_, b_), val in stat.items()]])
        elif r < 0.6:
            vid = rng.choice(vehicles)
            m = b.method_def('Vehicle', 'receiveDamagesOnShip')
            if m is not None and m['args'] and history.peel(m['args'][0][1])['k'] == 'array':
                et = history.peel(history.peel(m['args'][0][1])['of'])
                items = []
                for _k in range(rng.randint(1, 3)):
                    it = benign(et, '')
                    attacker = rng.choice(vehicles)
                    total = 0
                    for entry in it['d']:
                        if entry[0] == 'vehicleID':
                            entry[1] = attacker
                        if entry[0] in ('damage', 'instantDamage', 'periodicDamage'):
                            bits = struct.unpack('<I', struct.pack('<f', float(rng.randint(1, 900))))[0]
                            if FLOAT_BITS and rng.random() < 0.5:
                                bits = FLOAT_BITS[0]            # non-finite amounts are legal FLOAT32 values
                            entry[1] = {'f32': bits} if not isinstance(entry[1], int) else rng.randint(1, 900)
                    items.append((attacker, it))
                if b.call(vid, 'receiveDamagesOnShip', [[it for _, it in items]]):
                    for attacker, it in items:
                        fields = dict((e[0], e[1]) for e in it['d'])

                        def num(x):
                            return struct.unpack('<f', struct.pack('<I', x['f32']))[0] if isinstance(x, dict) else x
                        if 'damage' in fields:
                            amount = num(fields['damage'])
                        else:
                            amount = num(fields.get('instantDamage', 0)) + num(fields.get('periodicDamage', 0))
                        d = shots.setdefault(vid, {})
                        d[attacker] = d.get(attacker, 0) + amount
                        b.trace.append(['shot', vid, attacker, int(amount) if amount == amount and abs(amount) != float('inf') else 0])
        elif r < 0.7:
            m = b.method_def('Avatar', 'receive_planeDeath')
            if m is not None:
                attacker = rng.choice(vehicles)
                names = [a for a, _ in m['args']]
                k = rng.randint(1, 3)
                args = []
                for an, t in m['args']:
                    pt = history.peel(t)
                    if pt['k'] == 'array':
                        args.append([benign(pt['of'], '') for _ in range(k)])
                    else:
                        args.append(None)
                # the attacker is the last int argument in every version
                idx_att = max(j for j, (an, t) in enumerate(m['args']) if history.peel(t)['k'] == 'int')
                args[idx_att] = attacker
                if b.call(AVATAR_ID, 'receive_planeDeath', args):
                    kk = (k if any(a is not None and isinstance(a, list) for a in args) else 1)
                    planes_count[attacker] = planes_count.get(attacker, 0) + kk
                    planes_list.append(args)
                    b.trace.append(['planeDeath', attacker, kk])
        elif r < 0.8:
            rid = rng.randint(1, 30)
            if ver <= (0, 11, 7):
                if b.call(AVATAR_ID, 'onRibbon', [rid]):
                    d = ribbons.setdefault(AVATAR_ID, {})
                    d[rid] = d.get(rid, 0) + 1
                    b.trace.append(['ribbon', AVATAR_ID, rid])
            elif ver <= (0, 11, 11):
                k = rng.randrange(len(vehicles))
                if b.call(vehicles[k], 'onRibbon', [rid]):
                    d = ribbons.setdefault(players[k]['avatarId'], {})     # keyed by the vehicle's owner
                    d[rid] = d.get(rid, 0) + 1
                    b.trace.append(['ribbon', players[k]['avatarId'], rid])
        elif r < 0.9:
            # roster update / mid-battle join: right-biased merge by id
            roster_message(rng.choice(['onGameRoomStateChanged', 'onNewPlayerSpawnedInBattle']))
    # at least two different deaths, so that their order is observable
    if len(vehicles) >= 2:
        for victim, killer in ((vehicles[0], vehicles[1]), (vehicles[1], vehicles[0])):
            if len({tuple(d) for d in deaths}) >= 2:
                break
            typ = sorted(getattr(consts, 'DEATH_TYPES', {1: 0}).keys() or [1])[0]
            if b.call(AVATAR_ID, 'receiveVehicleDeath', [victim, killer, typ]):
                deaths.append([victim, killer, typ])
                b.trace.append(['death', victim, killer, typ])
    # ... one self-inflicted death, and one kill credited to a ship that is already sunk
    if len(vehicles) >= 2:
        typ = sorted(getattr(consts, 'DEATH_TYPES', {1: 0}).keys() or [1])[-1]
        dead = [d[0] for d in deaths]
        for victim, killer in ((vehicles[-1], vehicles[-1]), (vehicles[-2], dead[0] if dead else vehicles[-1])):
            if b.call(AVATAR_ID, 'receiveVehicleDeath', [victim, killer, typ]):
                deaths.append([victim, killer, typ])
                b.trace.append(['death', victim, killer, typ])
    # every battle ends with one roster message of each kind carrying all three lists
    for meth in ('onGameRoomStateChanged', 'onNewPlayerSpawnedInBattle'):
        roster_message(meth, force_all=True)
    # ... and for each kind: a message about one player, a message of the *other* kind about the same player (other values), and the
    # first message again, byte for byte -- a repeated message is merged again like any other, it is not a no-op
    for meth, other in (('onGameRoomStateChanged', 'onNewPlayerSpawnedInBattle'), ('onNewPlayerSpawnedInBattle', 'onGameRoomStateChanged')):
        pl = rng.choice(players)
        n0 = len(sent_rosters)
        roster_message(meth, pl=pl)
        if len(sent_rosters) > n0:
            first = sent_rosters[-1]
            roster_message(other, pl=pl)
            resend_roster(first)
    exp.update({'death_map': deaths, 'achievements': ach, 'shots_damage_map': shots, 'damage_map': dmg})
    if ver <= (0, 11, 11):
        exp['ribbons'] = ribbons
    else:
        # from 12.0.0 on the ribbons are read from the avatar's privateVehicleState at the end
        for i, (name, size, t, flags) in enumerate(b.views[b.avatar_idx]['clientProps']):
            if name == 'privateVehicleState':
                v = benign(t, name)
                r = find_field(t, v, 'ribbons')
                if r and history.peel(r[0])['k'] == 'array':
                    et = history.peel(history.peel(r[0])['of'])
                    final = {}
                    items = []
                    for rid in rng.sample(range(1, 40), rng.randint(0, 4)):
                        it = benign(et, '')
                        cnt = rng.randint(1, 9)
                        for e in it['d']:
                            if e[0] == 'ribbonId':
                                e[1] = rid
                            if e[0] == 'count':
                                e[1] = cnt
                        items.append(it)
                        final[rid] = cnt
                    r[1][1] = items
                    if b.set_prop(AVATAR_ID, 'privateVehicleState', v):
                        exp['ribbons'] = {AVATAR_ID: final}
    if ver >= (0, 11, 5):
        for p in by_id.values():
            p['planesCount'] = planes_count.get(p.get('shipId', 0), 0)
    # battle end
    exp['battle_result'] = None
    if FORCE_END or rng.random() < 0.9:
        team, reason = rng.randint(0, 1), rng.randint(1, 20)
        m = b.method_def('Avatar', 'onBattleEnd')
        if m is not None:
            if m['args']:
                if b.call(AVATAR_ID, 'onBattleEnd', [team, reason]):
                    exp['battle_result'] = {'winner_team_id': team, 'victory_type': reason}
                    b.trace.append(['battleEnd', team, reason])
            else:
                for i, (name, size, t, flags) in enumerate(b.views[b.world[LOGIC_ID]['type']]['clientProps']):
                    if name == 'battleResult':
                        v = benign(t, name)
                        for e in v['d']:
                            if e[0] == 'winnerTeamId':
                                e[1] = team
                            if e[0] == 'finishReason':
                                e[1] = reason
                        b.set_prop(LOGIC_ID, 'battleResult', v)
                if b.call(AVATAR_ID, 'onBattleEnd', []):
                    exp['battle_result'] = {'winner_team_id': team, 'victory_type': reason}
                    b.trace.append(['battleEnd', team, reason])
                    if FORCE_END or rng.random() < 0.8:
                        # the property keeps changing after the battle has ended (a new round is prepared): the result reported is the
                        # one the battle ended with
                        for i, (name, size, t, flags) in enumerate(b.views[b.world[LOGIC_ID]['type']]['clientProps']):
                            if name == 'battleResult':
                                v = benign(t, name)
                                for e in v['d']:
                                    if e[0] == 'winnerTeamId':
                                        e[1] = 1 - team
                                    if e[0] == 'finishReason':
                                        e[1] = reason + 1
                                b.set_prop(LOGIC_ID, 'battleResult', v)


def compare_summary(hidden_json, exp):
    """first differences between a summary (as JSON through the shipped encoder) and the
    expectation from the generated events; only keys the version reports are compared"""
    def norm(x):
        return json.loads(json.dumps(x, default=str))
    bad = {}
    if not isinstance(hidden_json, dict):
        return {'hidden': (str(hidden_json)[:100], 'a summary')}
    for k in ('player_id', 'map', 'arena_id', 'death_map', 'achievements', 'shots_damage_map', 'damage_map', 'ribbons', 'battle_result',
              'control_points', 'tasks', 'crew', 'death_info'):
        if k in exp and k in hidden_json and hidden_json[k] != norm(exp[k]):
            bad[k] = (str(hidden_json[k])[:200], str(norm(exp[k]))[:200])
    if 'players' in exp and 'players' in hidden_json:
        for pid, p in exp['players'].items():
            got = hidden_json['players'].get(str(pid))
            if got is None or any(got.get(kk) != norm(vv) for kk, vv in p.items()):
                bad['players'] = (str(got)[:200], str(p)[:200])
                break
        if len(hidden_json['players']) != len(exp['players']):
            bad['players'] = ('%d players' % len(hidden_json['players']), '%d players' % len(exp['players']))
    return bad


def model_expectation(m, exp, version):
    """turn the controller model's summary into the same shape as the generator's expectation
    (fields the model does not produce are taken from `exp`)"""
    ver = tuple(int(x) for x in version.split('_')[:3])
    out = {'player_id': m['playerId'], 'map': bytes.fromhex(m['map']).decode('utf-8') if m['map'] is not None else None}
    if 'arena_id' in exp:
        out['arena_id'] = m['arenaId']
    if 'death_map' in exp:
        out['death_map'] = m['deaths']
        out['achievements'] = {a: {i: n for i, n in d} for a, d in m['achievements']}
        out['shots_damage_map'] = {a: {i: n for i, n in d} for a, d in m['shots']}
        out['damage_map'] = {t: {0: json.loads(v)} for t, v in m['damage']}
        out['battle_result'] = {'winner_team_id': m['battleResult'][0], 'victory_type': m['battleResult'][1]} if m['battleResult'] else None
        if ver <= (0, 11, 11):
            out['ribbons'] = {a: {i: n for i, n in d} for a, d in m['ribbons']}
    if 'players' in exp:
        planes = dict(m['planes'])
        out['players'] = {}
        for pid, row in m['players']:
            d = {k: json.loads(v) for k, v in row}
            if ver >= (0, 11, 5) and 'death_map' in exp:
                d['planesCount'] = planes.get(d.get('shipId', 0), 0)
            out['players'][pid] = d
    return out


def to_container(b):
    ext = {'wows': 'wowsreplay', 'wot': 'wotreplay', 'wowp': 'wowpreplay'}[b.game_name]
    engine = version_string(b.game_name, b.version)
    return ext, container.write_container(ext, json.dumps(engine, ensure_ascii=False).encode('utf-8'), [], history.stream_of(b.packets))
