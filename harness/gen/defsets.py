# coding=utf-8
"""
Seeded generator of whole definition sets from the .def grammar: alias chains and
alias_ext overrides, interface DAGs (with diamonds), name clashes between interfaces and
entities, size ties, every flag, <Arg>/<Args>, VariableLengthHeaderSize 1/2/absent/garbage,
old flat and new <ClientServerEntities> entities.xml, <Default> sections, volatiles —
plus an oracle that states the C04 rules naively over the abstract description.
"""
import os
import shutil

from . import types as gt

FLAGS = ['CELL_PRIVATE', 'CELL_PUBLIC', 'OTHER_CLIENTS', 'OWN_CLIENT', 'BASE', 'BASE_AND_CLIENT',
         'CELL_PUBLIC_AND_OWN', 'ALL_CLIENTS', 'EDITOR_ONLY']
FLAGV = dict(zip(FLAGS, [0, 1, 2, 4, 8, 16, 32, 64, 128]))
INF = 0xFFFF
SPEC_MASKS = {'client': 118, 'internal': 102, 'cell': 33, 'base': 16}


def small_type(rng, allow_user=True):
    r = rng.random()
    if r < 0.55:
        return gt.gen_type(rng, depth=0, allow_user=allow_user)
    if r < 0.85:
        return gt.gen_type(rng, depth=1, width=3, allow_user=allow_user)
    return gt.gen_type(rng, depth=2, width=3, allow_user=allow_user)


def container_type(rng, depth):
    """dict/list nesting for path-addressed updates (no zero-width element types)"""
    if depth <= 0 or rng.random() < 0.25:
        return gt.gen_type(rng, depth=0, allow_user=False)
    if rng.random() < 0.5:
        return {'k': 'array', 'of': container_type(rng, depth - 1), 'size': None}
    n = rng.randint(1, 5)
    return {'k': 'dict', 'fields': [['f%d' % i, container_type(rng, depth - 1)] for i in range(n)], 'allowNone': rng.random() < 0.2}


_LIB_IDS = None
_HOT_IDS = None


def library_identifiers():
    """parameter names of the functions on the library's own call path from a decoded method call to the subscribers (read from the
    current source with `ast`): legal argument names of a .def method that would collide with a careless `**kwargs` pass-through"""
    global _LIB_IDS, _HOT_IDS
    if _LIB_IDS is None:
        import ast
        from .. import common
        names = set()
        hot = set()
        for rel in ('core/entity.py', 'core/entity_def/entity_description.py', 'core/entity_def/base_definition.py',
                    'core/network/player.py'):
            try:
                tree = ast.parse(open(os.path.join(common.REPO, 'replay_unpack', rel), encoding='utf-8').read())
            except Exception:
                continue
            for node in ast.walk(tree):
                if isinstance(node, (ast.FunctionDef, ast.Lambda)):
                    a = node.args
                    for x in a.posonlyargs + a.args + a.kwonlyargs + [y for y in (a.vararg, a.kwarg) if y]:
                        names.add(x.arg)
                    if a.kwarg is not None:
                        # a function that takes **kwargs: its own named parameters are the names a keyword argument can collide with
                        hot.update(x.arg for x in a.args + a.kwonlyargs)
        _LIB_IDS = sorted(n for n in names if n.isidentifier() and not n.startswith('__'))
        _HOT_IDS = sorted(n for n in hot if n.isidentifier() and not n.startswith('__'))
    return _LIB_IDS


def hot_identifiers():
    library_identifiers()
    return _HOT_IDS or []


def gen_defset(rng, n_entities=None, fault=None, simple_types=False, want_nested=False, force=()):
    """`force`: rare features that must be present whatever the dice say ('shadow', 'order', 'wide', 'huge', 'libnames')"""
    def dice(name, prob):
        return name in force or rng.random() < prob
    ds = {'aliases': [], 'alias_ext': None, 'interfaces': [], 'entities': [], 'entities_form': rng.choice(['flat', 'cse']),
          'fault': fault}
    # aliases: name -> ('tree', t) | ('ref', other)
    n_alias = rng.randint(2, 8)
    for i in range(n_alias):
        if ds['aliases'] and rng.random() < 0.3:
            ds['aliases'].append(('AL%d' % i, ('ref', rng.choice(ds['aliases'])[0])))
        else:
            ds['aliases'].append(('AL%d' % i, ('tree', small_type(rng, allow_user=not simple_types))))
    if rng.random() < 0.3:
        # duplicate tag in alias.xml: the last wins (position of the first)
        nm = rng.choice(ds['aliases'])[0]
        ds['aliases'].append((nm, ('tree', small_type(rng, allow_user=not simple_types))))
    if dice('shadow', 0.3):
        # an alias that carries the name of a built-in type (legal: the alias table is consulted first). Only names the generator
        # never writes inside a type tree, so that every mention of them is a reference to the alias
        for nm in rng.sample(['FLOAT', 'UNICODE_STRING'], rng.randint(1, 2)):
            ds['aliases'].append((nm, ('tree', small_type(rng, allow_user=not simple_types))))
    if rng.random() < 0.4:
        ds['alias_ext'] = []
        for _ in range(rng.randint(1, 2)):
            if rng.random() < 0.6:
                ds['alias_ext'].append((rng.choice(ds['aliases'])[0], ('tree', small_type(rng, allow_user=not simple_types))))
            else:
                ds['alias_ext'].append(('EXT%d' % len(ds['alias_ext']), ('tree', small_type(rng, allow_user=not simple_types))))
    alias_names = sorted({a[0] for a in ds['aliases']} | {a[0] for a in (ds['alias_ext'] or [])})

    def type_ref():
        if rng.random() < 0.4:
            return ('ref', rng.choice(alias_names))
        return ('tree', small_type(rng, allow_user=not simple_types))

    prop_pool = ['p%d' % i for i in range(10)]
    meth_pool = ['m%d' % i for i in range(12)]

    def gen_prop():
        t = type_ref()
        default = None
        if rng.random() < 0.25:
            default = 'auto'
        return {'name': rng.choice(prop_pool), 'type': t, 'flags': rng.choice(FLAGS), 'default': default}

    def gen_method():
        k = rng.choice([0, 0, 1, 1, 2, 3])
        named = rng.random() < 0.4
        args = [(('arg%d' % j) if named else None, type_ref()) for j in range(k)]
        if named and k and dice('libnames', 0.3) and library_identifiers():
            # argument names that are also parameter names inside the library (self, entity, name, args, ...)
            hot_ = [h for h in hot_identifiers() if rng.random() < 0.7]
            rng.shuffle(hot_)
            rest = [x for x in library_identifiers() if x not in hot_]
            picked = (hot_ + rng.sample(rest, min(k, len(rest))))[:k]
            args = [(nm, t) for nm, (_, t) in zip(picked, args)]
        return {'name': rng.choice(meth_pool), 'args': args, 'named': named,
                'header': rng.choice([None, None, '1', '2', '2', 'garbage', 'nested', ' 2 ']),
                'exposed_tag': rng.random() < 0.5}

    def gen_section(name, lower):
        sec = {'name': name, 'implements': [], 'props': [], 'client': [], 'cell': [], 'base': [], 'volatile': None,
               'temp': rng.random() < 0.2}
        if lower and rng.random() < 0.7:
            for _ in range(rng.randint(1, 3)):
                sec['implements'].append(rng.choice(lower))
        for _ in range(rng.randint(0, 5)):
            sec['props'].append(gen_prop())
        for _ in range(rng.randint(0, 6)):
            sec['client'].append(gen_method())
        for _ in range(rng.randint(0, 2)):
            sec['cell'].append(gen_method())
        for _ in range(rng.randint(0, 2)):
            sec['base'].append(gen_method())
        if rng.random() < 0.5:
            sec['volatile'] = rng.sample(['position', 'yaw', 'pitch', 'roll', 'other'], rng.randint(0, 5))
        if dice('order', 0.5):
            # the order of the top-level sections of a .def file carries no meaning: write them in any order
            sec['order'] = rng.sample(range(7), 7)
        return sec

    n_if = rng.randint(0, 5)
    for i in range(n_if):
        nm = 'I%d' % i if rng.random() < 0.8 else 'sub/I%d' % i
        ds['interfaces'].append(gen_section(nm, [s['name'] for s in ds['interfaces']]))
    n_ent = n_entities or rng.randint(1, 4)
    names = ['Avatar'] + ['E%d' % i for i in range(1, n_ent)]
    rng.shuffle(names)
    for nm in names:
        ds['entities'].append(gen_section(nm, [s['name'] for s in ds['interfaces']]))
    if dice('wide', 0.12):
        # a wide entity: more than 128 client-visible properties (one-byte indexes of creation packets above 127, wide index fields)
        sec = rng.choice(ds['entities'])
        for j in range(rng.randint(130, 200)):
            sec['props'].append({'name': 'w%d' % j, 'type': ('tree', {'k': 'int', 'size': rng.choice([1, 1, 2]), 'signed': rng.random() < 0.3}),
                                 'flags': rng.choice(['ALL_CLIENTS', 'OWN_CLIENT', 'OTHER_CLIENTS']), 'default': None})
    if dice('huge', 0.03):
        # a wholly fixed-size property at or beyond the size the definitions treat as "infinite" (65535 bytes): it ties with the
        # variable-size ones in the stable size order
        sec = rng.choice(ds['entities'])
        big = rng.choice([{'k': 'array', 'of': {'k': 'int', 'size': 1, 'signed': False}, 'size': rng.choice([65534, 65535, 65536, 70000])},
                          {'k': 'array', 'of': {'k': 'vec', 'n': 3}, 'size': 5500},
                          {'k': 'array', 'of': {'k': 'f64'}, 'size': 8192}])
        sec['props'].insert(rng.randint(0, len(sec['props'])), {'name': 'huge', 'type': ('tree', big), 'flags': rng.choice(['ALL_CLIENTS', 'OWN_CLIENT']), 'default': None})
    if want_nested:
        for sec in ds['entities']:
            for j in range(rng.randint(1, 3)):
                sec['props'].append({'name': 'nest%d' % j, 'type': ('tree', container_type(rng, rng.randint(1, 5))),
                                     'flags': rng.choice(['ALL_CLIENTS', 'OWN_CLIENT', 'OTHER_CLIENTS', 'BASE_AND_CLIENT']), 'default': None})
            if rng.random() < 0.8:
                sec['volatile'] = ['position', 'yaw', 'pitch', 'roll']
    return ds


# ---- XML ---------------------------------------------------------------------------

def ref_xml(ref):
    kind, x = ref
    return x if kind in ('ref', 'raw') else gt.type_xml_body(x)


def default_xml(t_resolved, rng_token):
    """a <Default> the real loader accepts for this (resolved) type, or None"""
    k = t_resolved['k']
    if k == 'int':
        if t_resolved['size'] == 1 and not t_resolved['signed']:
            return ['true', '0', ' 7 ', 'False'][rng_token % 4]
        return ['0', '-1' if t_resolved['signed'] else '1', ' 12 ', '+3'][rng_token % 4]
    if k in ('f32', 'f64'):
        return ['0.5', '-2', '1e3', 'inf', '.5', '3.'][rng_token % 6]
    if k == 'vec' and t_resolved['n'] == 2:
        return '0.0 1.5'
    if k == 'string':
        return 'abc'
    if k == 'array':
        inner = default_xml(t_resolved['of'], rng_token)
        if inner is None:
            return ''          # no <item> children: always accepted
        return '<item>%s</item><item>%s</item>' % (inner, inner)
    return None


def section_xml(sec, resolve, root_tag):
    blocks = []
    L = []
    if sec['implements']:
        L.append('<Implements>')
        for n_i, i in enumerate(sec['implements']):
            # the tag of an entry carries no meaning (every child of <Implements> names an interface)
            tag = ('Interface', 'Interface', 'interface', 'Item')[(len(i) + n_i + len(sec['name'])) % 4] if sec.get('order') else 'Interface'
            L.append('  <%s>\t%s </%s>' % (tag, i, tag))
        L.append('</Implements>')
    blocks.append(L); L = []
    if sec.get('temp'):
        L.append('<TempProperties><_x/></TempProperties>')
    blocks.append(L); L = []
    if sec['props'] or sec.get('force_props'):
        L.append('<Properties>')
        for n, p in enumerate(sec['props']):
            L.append('  <%s><Type> %s </Type><Flags> %s </Flags>' % (p['name'], ref_xml(p['type']), p.get('flags_text', p['flags'])))
            if p['default'] is not None:
                d = p['default']
                if d == 'auto':
                    d = default_xml(resolve(p['type']), n)
                if d is not None:
                    L.append('    <Default>%s</Default>' % d)
            L.append('  </%s>' % p['name'])
        L.append('</Properties>')
    blocks.append(L); L = []
    if sec['volatile'] is not None:
        L.append('<Volatile>' + ''.join('<%s/>' % v for v in sec['volatile']) + '</Volatile>')
    blocks.append(L); L = []
    for key, tag in (('client', 'ClientMethods'), ('cell', 'CellMethods'), ('base', 'BaseMethods')):
        L = []
        blocks.append(L)
        if sec[key]:
            L.append('<%s>' % tag)
            for m in sec[key]:
                L.append('  <%s>' % m['name'])
                if m['named']:
                    L.append('    <Args>' + ''.join('<%s> %s </%s>' % (a, ref_xml(t), a) for a, t in m['args']) + '</Args>')
                else:
                    for a, t in m['args']:
                        L.append('    <Arg> %s </Arg>' % ref_xml(t))
                if m['exposed_tag']:
                    L.append('    <Exposed/>')
                h = m['header']
                if h is not None:
                    if h == 'garbage':
                        L.append('    <VariableLengthHeaderSize>two</VariableLengthHeaderSize>')
                    elif h == 'nested':
                        L.append('    <VariableLengthHeaderSize><WarnLevel>none</WarnLevel></VariableLengthHeaderSize>')
                    else:
                        L.append('    <VariableLengthHeaderSize>%s<WarnLevel>none</WarnLevel></VariableLengthHeaderSize>' % h)
                L.append('  </%s>' % m['name'])
            L.append('</%s>' % tag)
    order = sec.get('order') or range(len(blocks))
    out = ['<%s>' % root_tag]
    for i in order:
        out += blocks[i]
    out.append('</%s>' % root_tag)
    return '\n'.join(out)


def alias_table(ds):
    """name -> ref, dict semantics (alias.xml in order, alias_ext overriding)"""
    table = {}
    for nm, ref in ds['aliases']:
        table[nm] = ref
    for nm, ref in (ds['alias_ext'] or []):
        table[nm] = ref
    return table


def make_resolver(ds):
    table = alias_table(ds)

    def resolve(ref, depth=0):
        if depth > 50:
            raise RecursionError
        kind, x = ref
        if kind == 'ref':
            return resolve(table[x], depth + 1)
        return x
    return resolve


def write_defset(ds, base):
    shutil.rmtree(base, ignore_errors=True)
    ed = os.path.join(base, 'scripts', 'entity_defs')
    os.makedirs(os.path.join(ed, 'interfaces'))
    resolve = make_resolver(ds)
    with open(os.path.join(ed, 'alias.xml'), 'w') as f:
        f.write('<root>\n<!-- generated -->\n' + '\n'.join('<%s> %s </%s>' % (nm, ref_xml(ref), nm) for nm, ref in ds['aliases']) + '\n</root>')
    if ds['alias_ext'] is not None:
        with open(os.path.join(ed, 'alias_ext.xml'), 'w') as f:
            f.write('<root>\n' + '\n'.join('<%s> %s </%s>' % (nm, ref_xml(ref), nm) for nm, ref in ds['alias_ext']) + '\n</root>')
    ents = ''.join('<%s/>' % e['name'] for e in ds['entities'])
    with open(os.path.join(base, 'scripts', 'entities.xml'), 'w') as f:
        if ds['entities_form'] == 'cse':
            f.write('<root><ServerOnlyEntities><Zzz/></ServerOnlyEntities><ClientServerEntities>%s</ClientServerEntities></root>' % ents)
        else:
            f.write('<root>%s</root>' % ents)
    for sec in ds['interfaces']:
        p = os.path.join(ed, 'interfaces', sec['name'] + '.def')
        os.makedirs(os.path.dirname(p), exist_ok=True)
        with open(p, 'w') as f:
            f.write(section_xml(sec, resolve, 'root'))
    for sec in ds['entities']:
        with open(os.path.join(ed, sec['name'] + '.def'), 'w') as f:
            f.write(section_xml(sec, resolve, 'root'))


# ---- the oracle: the C04 rules stated naively ---------------------------------------

def size_of(t):
    k = t['k']
    if k == 'int':
        return t['size']
    if k == 'f32':
        return 4
    if k == 'f64':
        return 8
    if k == 'vec':
        return 4 * t['n']
    if k == 'array':
        return INF if t['size'] is None else size_of(t['of']) * t['size']
    if k == 'dict':
        return INF if t['allowNone'] else sum(size_of(f) for _, f in t['fields'])
    return INF


def strip(t):
    k = t['k']
    if k in ('array', 'user'):
        d = {'k': k, 'of': strip(t['of'])}
        if k == 'array':
            d['size'] = t['size']
        return d
    if k == 'dict':
        return {'k': 'dict', 'fields': [[n, strip(f)] for n, f in t['fields']], 'allowNone': t['allowNone']}
    return {kk: vv for kk, vv in t.items() if not kk.startswith('_')}


def header_of(h):
    if h is None:
        return 1
    try:
        return int(h.strip())
    except ValueError:
        return 1


def expected_views(ds, masks=SPEC_MASKS):
    """per entity (in entities.xml order): methods in exposed order, the four property
    lists, volatiles — computed from the stated rules only"""
    resolve = make_resolver(ds)
    by_name = {s['name']: s for s in ds['interfaces']}
    views = []
    for ent in ds['entities']:
        props = []      # list of dicts in internal order
        methods = []    # client methods, internal order
        vol = []

        def visit(sec):
            for i in sec['implements']:
                visit(by_name[i])
            for p in sec['props']:
                t = strip(resolve(p['type']))
                nonlocal_props = [q for q in props if q['name'] != p['name']]
                props[:] = nonlocal_props + [{'name': p['name'], 'ty': t, 'flags': FLAGV[p['flags']]}]
            if sec['volatile'] is not None:
                for v in sec['volatile']:
                    if v in ('position', 'yaw', 'pitch', 'roll') and v not in vol:
                        vol.append(v)
            for m in sec['client']:
                if any(q['name'] == m['name'] for q in methods):
                    continue
                args = [[a, strip(resolve(t))] for a, t in m['args']]
                s = sum(size_of(t) for _, t in args)
                hd = header_of(m['header'])
                methods.append({'name': m['name'], 'args': args, 'header': hd, 'exposed': True,
                                'size': (INF + hd) if s >= INF else s + hd})
        visit(ent)

        def pj(p):
            return [p['name'], min(size_of(p['ty']), INF), p['ty'], p['flags']]
        client = [p for p in props if p['flags'] & masks['client']]
        client = [p for _, _, p in sorted(((min(size_of(p['ty']), INF), i, p) for i, p in enumerate(client)), key=lambda x: (x[0], x[1]))]
        meths = [m for _, _, m in sorted(((m['size'], i, m) for i, m in enumerate(methods)), key=lambda x: (x[0], x[1]))]
        views.append({'name': ent['name'], 'methods': meths,
                      'clientProps': [pj(p) for p in client],
                      'internal': [pj(p) for p in props if p['flags'] & masks['internal']],
                      'cell': [pj(p) for p in props if p['flags'] & masks['cell']],
                      'base': [pj(p) for p in props if p['flags'] & masks['base']],
                      'volatile': vol})
    return views


def inject_fault(rng, ds):
    """one load-time fault; returns its label"""
    kind = rng.choice(['unknown-type', 'unknown-flag', 'alias-cycle', 'missing-interface', 'bad-default', 'bad-size'])
    secs = ds['interfaces'] + ds['entities']
    reach = [s for s in secs]
    if kind == 'unknown-type':
        ds['entities'][0]['props'].append({'name': 'zz', 'type': ('ref', 'NO_SUCH_TYPE'), 'flags': 'ALL_CLIENTS', 'default': None})
    elif kind == 'unknown-flag':
        ds['entities'][0]['props'].append({'name': 'zz', 'type': ('tree', {'k': 'int', 'size': 1, 'signed': False}), 'flags': 'ALL_CLIENTS', 'default': None})
        ds['entities'][0]['props'][-1]['flags_text'] = 'NOT_A_FLAG'
    elif kind == 'alias-cycle':
        ds['aliases'].append(('CYC_A', ('ref', 'CYC_B')))
        ds['aliases'].append(('CYC_B', ('ref', 'CYC_A')))
    elif kind == 'missing-interface':
        ds['entities'][-1]['implements'].append('NoSuchInterface')
    elif kind == 'bad-default':
        ds['entities'][0]['props'].append({'name': 'zz', 'type': ('tree', {'k': 'int', 'size': 4, 'signed': True}), 'flags': 'ALL_CLIENTS', 'default': 'not-a-number'})
    elif kind == 'bad-size':
        ds['aliases'].append(('BADSZ', ('raw', 'ARRAY <of> INT8 </of> <size> many </size>')))
    ds['fault'] = kind
    return kind
