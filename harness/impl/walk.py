# coding=utf-8
"""
Walks a real recording with the real player classes (through ReplayParser's own glue)
and reports every packet to observer callbacks before the player processes it.
"""
import glob
import io
import os

from .. import common

common.repo_on_path()

RECORDINGS_DIR = os.path.join(common.REPO, 'tests', 'data', 'random_replays')


def recordings():
    out = []
    for p in sorted(glob.glob(os.path.join(RECORDINGS_DIR, '**', '*'), recursive=True)):
        if os.path.isfile(p) and p.rsplit('.', 1)[-1] in ('wowsreplay', 'wotreplay', 'wowpreplay') and os.path.getsize(p) > 0:
            out.append(p)
    return out


def make_observed_player(base_cls, observer):
    class ObservedPlayer(base_cls):
        def _deserialize_packet(self, packet):
            observer.on_net_packet(self, packet)
            return super()._deserialize_packet(packet)

        def _process_packet(self, time, packet):
            observer.on_packet(self, time, packet)
            try:
                r = super()._process_packet(time, packet)
            except Exception as e:
                observer.on_error(self, time, packet, e)
                raise
            observer.after_packet(self, time, packet)
            return r
    ObservedPlayer.__name__ = 'ReplayPlayer'
    return ObservedPlayer


class Observer:
    def on_net_packet(self, player, packet):
        pass

    def on_packet(self, player, time, packet):
        pass

    def after_packet(self, player, time, packet):
        pass

    def on_error(self, player, time, packet, exc):
        pass


def parse_observed(path, observer, strict=False):
    """ReplayParser(path).get_info() with observed player classes; returns the info dict"""
    import replay_parser
    from replay_unpack.clients import wows, wot, wowp
    saved = (wows.ReplayPlayer, wot.ReplayPlayer, wowp.ReplayPlayer)
    try:
        wows.ReplayPlayer = make_observed_player(saved[0], observer)
        wot.ReplayPlayer = make_observed_player(saved[1], observer)
        wowp.ReplayPlayer = make_observed_player(saved[2], observer)
        import logging
        logging.disable(logging.CRITICAL)
        try:
            return replay_parser.ReplayParser(path, strict=strict).get_info()
        finally:
            logging.disable(logging.NOTSET)
    finally:
        wows.ReplayPlayer, wot.ReplayPlayer, wowp.ReplayPlayer = saved


def game_of(path):
    return {'wowsreplay': 'wows', 'wotreplay': 'wot', 'wowpreplay': 'wowp'}[path.rsplit('.', 1)[-1]]
