# coding=utf-8
"""
Adapters driving the real type codecs in-process (public API: Alias,
DataType.create_from_stream / write_to_stream) and the canonicaliser.
"""
import io
import os
import shutil
import socket
import struct

from .. import common
from ..gen import types as gt

common.repo_on_path()


def _classes():
    from replay_unpack.core.entity_def.data_types import numeric, math, other
    return numeric, math, other


_PROBED = {}


def _probe_numeric(obj):
    """what a numeric codec does, observed rather than read from its class attributes: bytes consumed, float or integer, signedness"""
    key = (type(obj).__name__, getattr(obj, 'STRUCT_TYPE', None))
    if key not in _PROBED:
        st = io.BytesIO(b'\xff' * 16)
        v = obj.create_from_stream(st, 1)
        n = st.tell()
        if isinstance(v, float):
            t = {'k': 'f32'} if n == 4 else {'k': 'f64'}
        else:
            t = {'k': 'int', 'size': n, 'signed': v < 0}
        _PROBED[key] = t
    return _PROBED[key]


def ty_of_obj(obj):
    """Reflective translation of a live DataType object into the model's Ty JSON."""
    numeric, math, other = _classes()
    if isinstance(obj, numeric._NumericType):
        return dict(_probe_numeric(obj))
    if isinstance(obj, math._MathType):
        return {'k': 'vec', 'n': len(obj.STRUCT_TYPE)}
    if isinstance(obj, other.FixedDict):
        return {'k': 'dict', 'fields': [[k, ty_of_obj(v)] for k, v in obj.attributes.items()],
                'allowNone': bool(obj.allow_none)}
    if isinstance(obj, other.Array):
        return {'k': 'array', 'of': ty_of_obj(obj.type), 'size': obj.array_size}
    if isinstance(obj, other.UserType):
        return {'k': 'user', 'of': ty_of_obj(obj.type)}
    # exact classes: Blob / String / Python / Mailbox are siblings
    name = type(obj).__name__
    m = {'Blob': 'blob', 'String': 'string', 'Python': 'python', 'Mailbox': 'mailbox'}
    if name in m:
        return {'k': m[name]}
    raise ValueError('unknown data type object %r' % (obj,))


def is_nan32(bits):
    return (bits & 0x7f800000) == 0x7f800000 and (bits & 0x007fffff) != 0


def is_nan64(bits):
    return (bits & 0x7ff0000000000000) == 0x7ff0000000000000 and (bits & 0x000fffffffffffff) != 0


def canon_model(t, v):
    """normalise a model-side canonical value (NaN payloads -> 'nan')"""
    k = t['k']
    if v is None:
        return None
    if k == 'f32':
        return {'f32': 'nan' if is_nan32(v['f32']) else v['f32']}
    if k == 'f64':
        return {'f64': 'nan' if is_nan64(v['f64']) else v['f64']}
    if k == 'vec':
        return {'vec': ['nan' if is_nan32(x) else x for x in v['vec']]}
    if k == 'array':
        return [canon_model(t['of'], x) for x in v]
    if k == 'dict':
        return {'d': [[x[0], canon_model(f, x[1])] for (nm, f), x in zip(t['fields'], v['d'])]}
    if k == 'user':
        return canon_model(t['of'], v)
    return v


def _f32(x):
    if x != x:
        return 'nan'
    return struct.unpack('<I', struct.pack('<f', x))[0]


def _f64(x):
    if x != x:
        return 'nan'
    return struct.unpack('<Q', struct.pack('<d', x))[0]


def canon_py(t, v):
    """canonical form of a value produced by the implementation (type directed)"""
    k = t['k']
    if v is None:
        return None          # AllowNone dicts, and the holes a value-less nested list set leaves
    if k == 'int':
        if type(v) is not int:
            raise TypeError('int expected, got %r' % (v,))
        return v
    if k == 'f32':
        return {'f32': _f32(v)}
    if k == 'f64':
        return {'f64': _f64(v)}
    if k == 'vec':
        if not isinstance(v, tuple):
            raise TypeError('tuple expected')
        return {'vec': [_f32(x) for x in v]}
    if k in ('blob', 'python'):
        if not isinstance(v, bytes):
            raise TypeError('bytes expected, got %r' % type(v))
        return {'b': v.hex()}
    if k == 'string':
        if isinstance(v, str):
            return {'s': v.encode('utf-8', 'surrogatepass').hex()}
        if isinstance(v, bytes):
            return {'b': v.hex()}
        raise TypeError('str/bytes expected')
    if k == 'mailbox':
        return {'mb': [socket.inet_aton(v[0]).hex(), v[1]]}
    if k == 'array':
        if not isinstance(v, list):
            raise TypeError('list expected')
        return [canon_py(t['of'], x) for x in v]
    if k == 'dict':
        if v is None:
            return None
        if not isinstance(v, dict):
            raise TypeError('dict expected')
        if list(v.keys()) != [nm for nm, _ in t['fields']]:
            raise TypeError('dict keys %r differ from declared %r' % (list(v.keys()), t['fields']))
        return {'d': [[nm, canon_py(f, v[nm])] for nm, f in t['fields']]}
    if k == 'user':
        return canon_py(t['of'], v)
    raise AssertionError(k)


def to_py(t, v):
    """a Python value the library's writer accepts, from canonical form"""
    k = t['k']
    if k == 'int':
        return v
    if k == 'f32':
        return struct.unpack('<f', struct.pack('<I', v['f32']))[0]
    if k == 'f64':
        return struct.unpack('<d', struct.pack('<Q', v['f64']))[0]
    if k == 'vec':
        return tuple(struct.unpack('<f', struct.pack('<I', x))[0] for x in v['vec'])
    if k in ('blob', 'python'):
        return bytes.fromhex(v['b'])
    if k == 'string':
        if 's' in v:
            return bytes.fromhex(v['s']).decode('utf-8')
        return bytes.fromhex(v['b'])
    if k == 'mailbox':
        return (socket.inet_ntoa(bytes.fromhex(v['mb'][0])), v['mb'][1])
    if k == 'array':
        return [to_py(t['of'], x) for x in v]
    if k == 'dict':
        if v is None:
            return None
        return {x[0]: to_py(f, x[1]) for (nm, f), x in zip(t['fields'], v['d'])}
    if k == 'user':
        return to_py(t['of'], v)
    raise AssertionError(k)


def err_class(e):
    if isinstance(e, struct.error):
        return 'short'
    if isinstance(e, AssertionError):
        return 'assertion'
    if isinstance(e, NotImplementedError):
        return 'notImplemented'
    if isinstance(e, (IndexError, KeyError)):
        return 'badIndex'
    if isinstance(e, TypeError):
        return 'type'
    if isinstance(e, UnicodeError):
        return 'unicode'
    if isinstance(e, ValueError):
        return 'value'
    return 'other'


def impl_decode(obj, t, data, h):
    """-> {'ok': canon, 'used': n} | {'err': cls}"""
    s = io.BytesIO(data)
    try:
        v = obj.create_from_stream(s, h)
    except RecursionError:
        raise
    except Exception as e:
        return {'err': err_class(e)}
    return {'ok': canon_py(t, v), 'used': s.tell()}


def impl_write(obj, t, pyval, h):
    s = io.BytesIO()
    try:
        obj.write_to_stream(s, pyval, h)
    except Exception as e:
        return {'err': err_class(e)}
    return {'ok': s.getvalue().hex()}


class AliasDir:
    """A scratch definitions directory holding generated types as aliases, loaded through
    the real `Alias`."""

    def __init__(self, tag):
        self.dir = os.path.join(common.WORK, 'defs', '%s-%d' % (tag, os.getpid()))
        shutil.rmtree(self.dir, ignore_errors=True)
        os.makedirs(os.path.join(self.dir, 'scripts', 'entity_defs'))

    def load(self, trees, rng=None):
        """writes alias.xml with T<i> per tree (sub-trees may be referenced through alias
        chains) and returns the live type objects"""
        from lxml import etree
        from replay_unpack.core.entity_def.data_types import Alias
        lines = ['<root>']
        ext_lines = []
        n_alias = 0
        names = {}
        # alias names may coincide with built-in type names (the alias table is consulted first); only names the generator never
        # writes inside a tree are used, so that every mention is a reference to the alias
        shadow = ['FLOAT', 'UNICODE_STRING']
        for i, t in enumerate(trees):
            # optionally factor direct children out into their own aliases (alias chains)
            if rng is not None and rng.random() < 0.5:
                for child in _children(t):
                    if rng.random() < 0.5 and id(child) not in names:
                        nm = 'SUB_%d' % n_alias
                        if shadow and rng.random() < 0.1:
                            nm = shadow.pop()
                        n_alias += 1
                        lines.append('<%s> %s </%s>' % (nm, gt.type_xml_body(child, names), nm))
                        if rng.random() < 0.3:
                            nm2 = 'CHAIN_%d' % n_alias
                            n_alias += 1
                            lines.append('<%s> %s </%s>' % (nm2, nm, nm2))
                            nm = nm2
                        names[id(child)] = nm
            if rng is not None and i % 5 == 3:
                # declared in alias.xml as something else and re-declared in alias_ext.xml: the extension file overrides
                lines.append('<T%d> %s </T%d>' % (i, 'UINT16' if t.get('k') != 'int' else 'STRING', i))
                ext_lines.append('<T%d> %s </T%d>' % (i, gt.type_xml_body(t, names), i))
            else:
                lines.append('<T%d> %s </T%d>' % (i, gt.type_xml_body(t, names), i))
        lines.append('</root>')
        with open(os.path.join(self.dir, 'scripts', 'entity_defs', 'alias.xml'), 'w') as f:
            f.write('\n'.join(lines))
        if ext_lines:
            with open(os.path.join(self.dir, 'scripts', 'entity_defs', 'alias_ext.xml'), 'w') as f:
                f.write('<root>\n' + '\n'.join(ext_lines) + '\n</root>')
        alias = Alias(self.dir)
        objs = []
        for i in range(len(trees)):
            sec = etree.fromstring('<Type> T%d </Type>' % i)
            objs.append(alias.get_data_type_from_section(sec))
        return objs

    def cleanup(self):
        shutil.rmtree(self.dir, ignore_errors=True)


def _children(t):
    k = t['k']
    if k in ('array', 'user'):
        return [t['of']]
    if k == 'dict':
        return [f for _, f in t['fields']]
    return []
