# coding=utf-8
"""Adapter: real Definitions(dir) -> the same view JSON the model prints."""
from .. import common
from . import codec

common.repo_on_path()


class RecordingProps:
    """stands in for spec.properties() to observe the masks Entity.__init__ passes"""

    def __init__(self):
        self.calls = []

    def get_properties_by_flags(self, flags, exposed_index=False):
        self.calls.append((flags, bool(exposed_index)))
        return []


class RecordingSpec:
    def __init__(self):
        self.p = RecordingProps()

    def client(self):
        class M:
            def get_exposed_index_map(self_inner):
                return []
        return M()

    def properties(self):
        return self.p

    def volatiles(self):
        return {}

    def get_name(self):
        return 'X'


def observed_masks():
    """the four masks, observed by constructing Entity with a recording spec"""
    from replay_unpack.core.entity import Entity
    spec = RecordingSpec()
    e = Entity(0, spec)
    calls = spec.p.calls
    if len(calls) != 4:
        raise RuntimeError('Entity.__init__ made %d get_properties_by_flags calls' % len(calls))
    return {'client': calls[0][0], 'internal': calls[1][0], 'cell': calls[2][0], 'base': calls[3][0],
            'exposed_flags': [c[1] for c in calls]}


def prop_json(p):
    return [p.get_name(), p.get_size_in_bytes(), codec.ty_of_obj(p._type), p._flags]


def method_json(m):
    return {'name': m.get_name(), 'size': m.get_size_in_bytes(), 'header': m._variable_header_size, 'exposed': bool(m.is_exposed()),
            'args': [[a.name, codec.ty_of_obj(a.type)] for a in m._arguments]}


def view_of(spec):
    from replay_unpack.core.entity import Entity
    e = Entity(0, spec)
    return {'name': spec.get_name(),
            'methods': [method_json(m) for m in e._methods],
            'clientProps': [prop_json(p) for p in e.client_properties],
            'internal': [prop_json(p) for p in e.client_properties_internal],
            'cell': [prop_json(p) for p in e.cell_properties],
            'base': [prop_json(p) for p in e.base_properties],
            'volatile': list(e.volatiles.keys())}


def load_views(base_dir):
    """-> {'ok': [views by 1-based index]} | {'err': cls}"""
    from replay_unpack.core.entity_def.definitions import Definitions
    try:
        d = Definitions(base_dir)
    except RecursionError:
        return {'err': 'other'}
    except Exception as e:
        return {'err': codec.err_class(e), 'exc': repr(e)[:200]}
    views = []
    i = 1
    while True:
        try:
            spec = d.get_entity_def_by_index(i)
        except KeyError:
            break
        views.append(view_of(spec))
        i += 1
    return {'ok': views, 'defs': d}
