# coding=utf-8
"""
Drives the real ReplayPlayer classes in-process through their documented extension
points (_get_definitions / _get_controller overridden in a subclass, Entity.subscribe_*)
and dumps the world / invocation log in the canonical form the model prints.
"""
import io
import logging
import struct

from .. import common
from . import codec

common.repo_on_path()

VERSIONS = {'wowsOld': ('wows', ['0', '10', '0']), 'wowsNew': ('wows', ['12', '6', '0']),
            'wot': ('wot', '1.8.0'), 'wowp': ('wowp', ['2', '1', '17'])}


def controller_class():
    from replay_unpack.core import IBattleController

    class RecordingController(IBattleController):
        def __init__(self):
            self._entities = {}
            self.player_id = None
            self._map = None

        @property
        def entities(self):
            return self._entities

        def create_entity(self, entity):
            self._entities[entity.id] = entity

        def destroy_entity(self, entity):
            self._entities.pop(entity.id)

        def on_player_enter_world(self, entity_id):
            self.player_id = entity_id

        @property
        def map(self):
            return self._map

        @map.setter
        def map(self, value):
            self._map = value

        def get_info(self):
            return {'player_id': self.player_id, 'map': self._map}
    return RecordingController


def make_player(dialect, definitions, controller=None):
    from replay_unpack.clients import wows, wot, wowp
    game, version = VERSIONS[dialect]
    base = {'wows': wows, 'wot': wot, 'wowp': wowp}[game].ReplayPlayer
    ctrl = controller if controller is not None else controller_class()()

    class Player(base):
        def _get_definitions(self, version):
            return definitions

        def _get_controller(self, version):
            return ctrl
    return Player(version), ctrl


def _pose_val(k, v):
    if k == 'position':
        if isinstance(v, tuple):
            return {'vec': [codec._f32(float(x)) for x in v]}
        return {'vec': [codec._f32(v.x), codec._f32(v.y), codec._f32(v.z)]}
    return {'f32': codec._f32(v)}


def dump_entity(e):
    types = {}
    for lst in (e.client_properties, e.client_properties_internal, e.cell_properties, e.base_properties):
        for p in lst:
            types[p.get_name()] = p
    out = {'id': e.id, 'type': e.get_name()}
    for bucket in ('client', 'cell', 'base'):
        items = []
        for k, v in e.properties[bucket].items():
            try:
                items.append([k, codec.canon_py(codec.ty_of_obj(types[k]._type), v)])
            except Exception as exc:
                # a stored value that does not even have the shape of its declared type is a finding, not a harness problem
                items.append([k, {'not-of-declared-type': '%s: %r' % (type(exc).__name__, v)[:200]}])
        out[bucket] = sorted(items)
    out['volatile'] = sorted([[k, _pose_val(k, v)] for k, v in e.volatiles.items()])
    return out


def dump_world_entities(entities):
    return [dump_entity(e) for e in entities.values()]


def dump_world(ctrl):
    m = ctrl.map
    return {'entities': [dump_entity(e) for e in ctrl.entities.values()],
            'playerId': ctrl.player_id,
            'map': m.encode('utf-8').hex() if isinstance(m, str) else None}


def canon_generic(j):
    """normalise NaN payloads in any model-side value JSON"""
    if isinstance(j, list):
        return [canon_generic(x) for x in j]
    if isinstance(j, dict):
        if 'f32' in j:
            return {'f32': 'nan' if isinstance(j['f32'], int) and codec.is_nan32(j['f32']) else j['f32']}
        if 'f64' in j:
            return {'f64': 'nan' if isinstance(j['f64'], int) and codec.is_nan64(j['f64']) else j['f64']}
        if 'vec' in j:
            return {'vec': ['nan' if isinstance(x, int) and codec.is_nan32(x) else x for x in j['vec']]}
        return {k: canon_generic(v) for k, v in j.items()}
    return j


def canon_container(obj):
    """canonical form of the container a nested subscriber receives"""
    from replay_unpack.core.entity_def.data_types.nested_types import PyFixedDict, PyFixedList
    if isinstance(obj, PyFixedList):
        t = codec.ty_of_obj(obj.get_element_type())
        return [codec.canon_py(t, x) for x in obj]
    if isinstance(obj, PyFixedDict):
        return {'d': [[k, codec.canon_py(codec.ty_of_obj(obj._attributes[k]), obj[k])] for k in obj._attributes if k in obj]}
    return repr(obj)


class Subscriptions:
    """registers recording callbacks through the public Entity.subscribe_* API.
    spec: {'methods': [[key, tag, raises]...], 'props': [...], 'nested': [...]} where key is
    'Entity_member' (nested: 'Entity_path')."""

    def __init__(self, spec, views):
        self.spec = spec
        self.log = []
        self.early = []
        self.mtypes = {}
        self.ptypes = {}
        for v in views:
            for m in v['methods']:
                self.mtypes.setdefault(v['name'] + '_' + m['name'], m)
            for p in v['clientProps']:
                self.ptypes.setdefault(v['name'] + '_' + p[0], p[2])

    def register(self):
        from replay_unpack.core.entity import Entity
        for key, tag, raises in self.spec.get('methods', []):
            ent, name = key.split('_', 1)
            Entity.subscribe_method_call(ent, name, self._method_cb(key, tag, raises))
        for key, tag, raises in self.spec.get('props', []):
            ent, name = key.split('_', 1)
            Entity.subscribe_property_change(ent, name, self._prop_cb(key, tag, raises))
        for key, tag, raises in self.spec.get('nested', []):
            ent, name = key.split('_', 1)
            Entity.subscribe_nested_property_change(ent, name, self._nested_cb(key, tag, raises))

    def _method_cb(self, key, tag, raises):
        def cb(entity, /, *args, **kwargs):
            m = self.mtypes.get(key)
            pos_t = [t for n, t in m['args'] if n is None] if m else []
            kw_t = {n: t for n, t in m['args'] if n is not None} if m else {}
            self.log.append(['M', key, tag, entity.id,
                             [codec.canon_py(t, a) for t, a in zip(pos_t, args)] if len(pos_t) == len(args) else repr(args),
                             sorted([[k, codec.canon_py(kw_t[k], v)] for k, v in kwargs.items()]) if set(kwargs) <= set(kw_t) else repr(kwargs)])
            if raises:
                raise TypeError('recording callback asked to raise')
            return RETURNS[tag % len(RETURNS)]          # what a subscriber returns is its own business
        return cb

    def _prop_cb(self, key, tag, raises):
        def cb(entity, value):
            t = self.ptypes.get(key)
            self.log.append(['P', key, tag, entity.id, codec.canon_py(t, value) if t else repr(value)])
            # what the subscriber can see: the entity it is handed already holds the value it is told about
            try:
                held = entity.properties['client'].get(key.split('_', 1)[1], self)
                if held is not value and held != value:
                    self.early.append([key, tag, entity.id])
            except Exception:
                pass
            if raises:
                raise TypeError('recording callback asked to raise')
            return RETURNS[(tag + 1) % len(RETURNS)]
        return cb

    def _nested_cb(self, key, tag, raises):
        def cb(entity, obj):
            self.log.append(['N', key, tag, entity.id, canon_container(obj)])
            if raises:
                raise TypeError('recording callback asked to raise')
            return RETURNS[(tag + 2) % len(RETURNS)]
        return cb


RETURNS = (None, True, False, 0, 1, 'handled', StopIteration, NotImplemented)


class ImplHang(BaseException):
    """the implementation exceeded the CPU-time limit on a generated stream"""


class _Discard(logging.Handler):
    """formats every record (so that lazily formatted arguments are evaluated, as a real handler would) and throws it away"""

    def emit(self, record):
        try:
            record.getMessage()
        except Exception:
            pass


def play_stream(dialect, definitions, views, stream, strict, subs_spec=None, every=False):
    """-> dict in the shape of the model's `play` reply"""
    from replay_unpack.core.entity import Entity
    import zlib
    # the logging configuration is part of the environment of a parse (the CLI offers --log_level DEBUG): one stream in three is
    # played with the root logger at DEBUG and a handler that formats and discards, the others with logging disabled
    root = logging.getLogger()
    saved = (root.level, root.handlers[:])
    if zlib.crc32(stream) % 3 == 0:
        logging.disable(logging.NOTSET)
        root.setLevel(logging.DEBUG)
        root.handlers = [_Discard()]
    else:
        logging.disable(logging.CRITICAL)
    try:
        player, ctrl = make_player(dialect, definitions)
        subs = Subscriptions(subs_spec or {}, views)
        subs.register()
        steps = []
        failed = []
        state = {'i': -1, 'log_pos': 0}
        if every:
            orig = player._process_packet
            orig_deser = player._deserialize_packet

            def deser(packet):
                state['i'] += 1
                state['pending'] = True
                return orig_deser(packet)
            player._deserialize_packet = deser
        out = {}
        # CPU-time limit around the implementation: a generated stream of a few KB that keeps the player busy for 30 s of CPU time is a
        # hang (reported with the stream as replay), not something to wait for
        import signal

        def on_prof(signum, frame):
            raise ImplHang()
        use_timer = hasattr(signal, 'setitimer') and __import__('threading').current_thread() is __import__('threading').main_thread()
        if use_timer:
            old_prof = signal.signal(signal.SIGPROF, on_prof)
            signal.setitimer(signal.ITIMER_PROF, 30 + len(stream) / 20000.0)
        try:
            if every:
                # re-implement the loop boundaries only to take dumps: play() is called per packet
                pos = 0
                n = len(stream)
                idx = 0
                while pos != n:
                    if n - pos < 12:
                        raise struct.error('header')
                    size, = struct.unpack('<I', stream[pos:pos + 4])
                    chunk = stream[pos:pos + 12 + size]
                    pos += len(chunk)
                    err = None
                    try:
                        player.play(chunk, True)
                    except Exception as e:
                        err = codec.err_class(e)
                    steps.append({'world': dump_world(ctrl), 'err': err, 'log': subs.log[state['log_pos']:]})
                    state['log_pos'] = len(subs.log)
                    if err is not None:
                        failed.append([idx, err])
                        if strict:
                            out = {'end': 'raised', 'index': idx, 'err': err}
                            break
                    idx += 1
                else:
                    out = {'end': 'finished'}
            else:
                player.play(stream, strict)
                out = {'end': 'finished'}
        except struct.error:
            # either a short header (both modes) or a strict-mode packet failure of that class
            out = {'end': 'struct.error'}
        except ImplHang:
            out = {'end': 'hang', 'hang': True}
        except Exception as e:
            out = {'end': 'raised', 'err': codec.err_class(e)}
        finally:
            if use_timer:
                signal.setitimer(signal.ITIMER_PROF, 0)
                signal.signal(signal.SIGPROF, old_prof)
        out['world'] = dump_world(ctrl)
        out['log'] = subs.log
        if subs.early:
            out['early'] = subs.early
        if every:
            out['steps'] = steps
        return out
    finally:
        logging.disable(logging.NOTSET)
        root.setLevel(saved[0])
        root.handlers = saved[1]
        Entity.clear_subscriptions() if hasattr(Entity, 'clear_subscriptions') else None
