# coding=utf-8
"""
Stand-alone worker with an audit hook installed before anything of the package is imported.
  parse <mode> <file>...     -> one JSON line per file with the audit events seen while parsing it
  loads                      -> reads hex payloads from stdin (one per line), prints the find_class events of pickle.loads
"""
import json
import sys

EVENTS = []
INTEREST = ('pickle.find_class', 'import', 'open', 'subprocess.Popen', 'os.system', 'os.exec', 'os.spawn', 'os.posix_spawn', 'exec', 'compile',
            'socket.connect', 'ctypes.dlopen', 'os.remove', 'os.rename', 'shutil.rmtree', 'urllib.Request')


def hook(event, args):
    if event in INTEREST:
        try:
            if event == 'pickle.find_class':
                EVENTS.append([event, str(args[0]), str(args[1])])
            elif event == 'import':
                EVENTS.append([event, str(args[0])])
            elif event == 'open':
                EVENTS.append([event, str(args[0]), str(args[1])])
            elif event in ('exec', 'compile'):
                EVENTS.append([event, ''])
            else:
                EVENTS.append([event, str(args[0])[:200]])
        except Exception:
            EVENTS.append([event, '?'])


def main():
    sys.addaudithook(hook)
    what = sys.argv[1]
    if what == 'allowed':
        from replay_unpack.core import safe_pickle
        sys.stdout.write(json.dumps(sorted(safe_pickle.ALLOWED_GLOBALS)) + '\n')
        return
    if what == 'loads':
        import pickle
        for line in sys.stdin:
            line = line.strip()
            if not line:
                continue
            enc, _, hx = line.partition(' ')
            del EVENTS[:]
            out = {}
            try:
                if enc.startswith('safe:'):
                    from replay_unpack.core import safe_pickle
                    res = safe_pickle.loads(bytes.fromhex(hx), encoding=enc[5:])
                elif enc == 'default':
                    res = pickle.loads(bytes.fromhex(hx))
                else:
                    res = pickle.loads(bytes.fromhex(hx), encoding=enc)
                out['end'] = 'stop'
                # a payload that ends right after naming a global returns the object it located (audit events can be bypassed, the result cannot)
                if callable(res) or isinstance(res, type) or type(res).__name__ == 'module':
                    out['result'] = [str(getattr(res, '__module__', None)), str(getattr(res, '__qualname__', None) or getattr(res, '__name__', None))]
            except Exception as e:
                out['end'] = 'error'
                out['exc'] = type(e).__name__
            out['events'] = [[e[1], e[2]] for e in EVENTS if e[0] == 'pickle.find_class']
            sys.stdout.write(json.dumps(out) + '\n')
        return
    mode = sys.argv[2]
    files = sys.argv[3:]
    import logging
    logging.disable(logging.CRITICAL)
    import replay_parser
    # warm-up imports are not attributed to a file
    for path in files:
        del EVENTS[:]
        rec = {'file': path}
        try:
            info = replay_parser.ReplayParser(path, strict=(mode == 'strict')).get_info()
            rec['hidden'] = info.get('hidden') is not None
        except Exception as e:
            rec['exception'] = type(e).__name__
        rec['events'] = list(EVENTS)
        sys.stdout.write(json.dumps(rec) + '\n')


if __name__ == '__main__':
    main()
