# coding=utf-8
"""Writes MANIFEST.json from the table below (kept in one place so it stays valid)."""
import json
import os

VERIF = os.path.dirname(os.path.dirname(os.path.abspath(__file__)))

CHECKS = {
    'C17': dict(
        technique='Lean 4 theorems (bitsRequired = ceil-log2 for all n; BitReader single-step/field-sequence/remainder laws) + exhaustive enumeration of bits_required over the stated range + differential correspondence of the reader',
        text='Lean theorems prove the integer specification of bits_required for every n and the MSB-first field/remainder laws of the reader model for every byte string and width sequence; the Python implementation is tied to the model by exhaustive enumeration of bits_required over [0,2^22] (thorough 2^26) and by differential runs of BitReader.get/get_rest against the compiled model.',
        note='float log/ceil cannot be reduced by the Lean kernel: the implementation side of bits_required is linked by enumeration over the stated range, not by a theorem about floats; the reader correspondence is sampled (random byte strings/width sequences).',
        design='§5 C17'),
}

CHECKS['C03'] = dict(
    technique='Lean 4 theorem decode(encodeWire v ++ rest) = (v, rest) by induction over all type trees + differential correspondence (generated types via the real Alias, bundled types, every payload of real recordings with the model as independent decoder)',
    text='C03.decode_encode proves, for every type tree of the alias/.def language, every well-typed value and every continuation, that the model reader returns exactly the value and leaves exactly the continuation (lengths < 2^24, any nesting depth, any header size); the model reader is tied to the real codecs by decoding the same wire bytes, truncated and corrupted bytes with both, over generated type trees loaded through the real Alias, every distinct type of the 82 bundled sets, and every method/property payload of the recordings (exact consumption asserted on the implementation).',
    note='USER_TYPE with a non-blob inner type is outside the proved domain (predicate userOK; counterexample theorem; known finding), wowp 32-bit array counts are a known finding; correspondence is sampled; lxml/struct/socket are external.',
    design='§5 C03')
CHECKS['C16'] = dict(
    technique='Lean 4 theorems write_total / write_sound / read_write / method_write_read about the writer model + differential correspondence of write_to_stream/create_from_stream',
    text='C16.read_write: every well-typed value of every writable type is written as exactly its wire encoding and reads back to itself consuming exactly what was written; C16.write_sound: whenever the writer succeeds the bytes are the encoding of a well-typed value (unrepresentable values are refused); method argument lists incl. arity check. The writer model is tied to the real writers by running both on generated representable and deliberately unrepresentable values and comparing bytes / refusal.',
    note='value domain = the Python types the readers produce; float32 NaN payload quieting by the CPU is excluded; bytes payloads of STRING that are valid UTF-8 read back as str (known finding, counterexample theorem); correspondence is sampled.',
    design='§5 C16')

PENDING_REASON = 'check not built yet in this revision (planned: see DESIGN.md §5); not claimed until its theorem + correspondence run on the unchanged tree'


def main():
    props = [json.loads(l) for l in open(os.path.join(VERIF, 'properties.jsonl'))]
    checks = []
    na = []
    for p in props:
        pid = p['id']
        if pid in CHECKS:
            c = CHECKS[pid]
            checks.append({
                'property_id': pid,
                'quick_cmd': './check %s --tier quick' % pid,
                'thorough_cmd': './check %s --tier thorough' % pid,
                'evidence_file': 'evidence/%s.json' % pid,
                'replay_cmd_template': './check %s --replay {path}' % pid,
                'engine': 'lean4-model+correspondence',
                'level_claimed': {'category': 'proof', 'text': c['text'], 'design_ref': c['design']},
                'level_note': c['note'],
                'technique': c['technique'],
            })
        else:
            na.append({'property_id': pid, 'reason': NA.get(pid, PENDING_REASON)})
    m = {
        'version': 1,
        'setup_cmd': 'cd lean && lake build ReplayModel ReplayProofs rmdriver',
        'hooks': {
            'guard': 'REPLAYS_UNPACK_VERIF',
            'enable': 'no hooks are needed: every observation point is public API or a documented extension point (guard name reserved, unused)',
            'baseline_off_cmd': 'cd /repo && /venv/bin/python -m pytest -ra -q -p no:cacheprovider --timeout=900 --continue-on-collection-errors',
            'source_commits': [],
            'add_only': True,
        },
        'engines': [{
            'name': 'lean4-model+correspondence',
            'path': 'lean/ (model, proofs, rmdriver) + harness/ (translator, correspondence, oracles) + check',
            'serves_properties': sorted(CHECKS),
            'kind_free_text': 'Lean 4 theorems about a hand-written executable model; model tied to /repo on every run by regenerated facts and a differential correspondence against the compiled model; failing-input search on the implementation when either breaks',
        }],
        'checks': checks,
        'not_applicable': na,
        'notes': 'See DESIGN.md. known_findings.json lists genuine defects recorded rather than repaired.',
    }
    with open(os.path.join(VERIF, 'MANIFEST.json'), 'w') as f:
        json.dump(m, f, indent=1)


NA = {}

if __name__ == '__main__':
    main()
