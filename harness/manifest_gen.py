# coding=utf-8
"""Writes MANIFEST.json from the table below (kept in one place so it stays valid)."""
import json
import os

VERIF = os.path.dirname(os.path.dirname(os.path.abspath(__file__)))

CHECKS = {
    'C17': dict(
        technique='Lean 4 theorems (bitsRequired = ceil-log2 for all n; BitReader single-step/field-sequence/remainder laws) + exhaustive enumeration of bits_required over the stated range + differential correspondence of the reader',
        text='Lean theorems prove the integer specification of bits_required for every n and the MSB-first field/remainder laws of the reader model for every byte string and width sequence; the Python implementation is tied to the model by exhaustive enumeration of bits_required over [0,2^22] (thorough 2^26) and by differential runs of BitReader.get/get_rest against the compiled model.',
        note='float log/ceil cannot be reduced by the Lean kernel: the implementation side of bits_required is linked by enumeration over the stated range, not by a theorem about floats; the reader correspondence is sampled (random byte strings/width sequences).',
        design='§5 C17'),
}

CHECKS['C03'] = dict(
    technique='Lean 4 theorem decode(encodeWire v ++ rest) = (v, rest) by induction over all type trees + differential correspondence (generated types via the real Alias, bundled types, every payload of real recordings with the model as independent decoder)',
    text='C03.decode_encode proves, for every type tree of the alias/.def language, every well-typed value and every continuation, that the model reader returns exactly the value and leaves exactly the continuation (lengths < 2^24, any nesting depth, any header size); the model reader is tied to the real codecs by decoding the same wire bytes, truncated and corrupted bytes with both, over generated type trees loaded through the real Alias, every distinct type of the 82 bundled sets, and every method/property payload of the recordings (exact consumption asserted on the implementation).',
    note='USER_TYPE with a non-blob inner type is outside the proved domain (predicate userOK; counterexample theorem; known finding), wowp 32-bit array counts are a known finding; correspondence is sampled; lxml/struct/socket are external.',
    design='§5 C03')
CHECKS['C16'] = dict(
    technique='Lean 4 theorems write_total / write_sound / read_write / method_write_read / writeDict_order_irrelevant about the writer model + differential correspondence of write_to_stream/create_from_stream',
    text='C16.read_write: every well-typed value of every writable type is written as exactly its wire encoding and reads back to itself consuming exactly what was written; C16.write_sound: whenever the writer succeeds the bytes are the encoding of a well-typed value (unrepresentable values are refused); method argument lists incl. arity check. The writer model is tied to the real writers by running both on generated representable and deliberately unrepresentable values and comparing bytes / refusal.',
    note='value domain = the Python types the readers produce; float32 NaN payload quieting by the CPU is excluded; bytes payloads of STRING that are valid UTF-8 read back as str (known finding, counterexample theorem); correspondence is sampled.',
    design='§5 C16')

CHECKS['C04'] = dict(
    technique='Lean 4 theorems about the definition-loader model (first-wins / last-wins merges, stable size order, fixed-before-variable, masks, parseSection_flat / parseSection_order_irrelevant: interface recursion = left fold over the depth-first visiting order) + kernel-checked facts regenerated from /repo + exhaustive differential load of all bundled definition sets + generated sets against a naive oracle',
    text='C04 theorems prove for every method/property list: the merge of sections is keepFirst / keepLast of the concatenation, the exposed list is a size-sorted stable permutation of the filtered list, every variable-size method follows every fixed-size one, internal lists are mask-selected sublists, entity ids are 1-based positions; Generated facts (masks, flag values, INFINITY, default header, SIMPLE_TYPES) are re-extracted from the live code and re-checked by `decide`. The loader model is tied to the real Definitions() exhaustively on all bundled sets (XML trees in, full views compared) and on generated sets, where a third naive implementation of the stated rules is the oracle.',
    note='lxml parsing is external (the harness parses with its own options); parseSection_flat is stated for parses that succeed (error precedence between a missing interface file and a bad type is not characterised); <Default> values are modelled only as accepted/refused.',
    design='§5 C04')
CHECKS['C05'] = dict(
    technique='Lean 4 invariant/frame theorems over the world model (step_frame, step_wf, play_wf, entityProperty_lww, property_history_lww and the general entity_fold over whole histories: the state of an entity is the fold of its own packets - updates, nested updates, positions, calls - among arbitrary packets for others; player_id_base) + differential play of generated histories in 4 dialects (world compared after every packet) + recordings through the model as independent decoder',
    text='C05 theorems: every packet changes at most the entity it addresses (all dialects, all packets, failing or not); the id-table invariant holds in every reachable world; a property update stores exactly the decoded value under that name (dict laws give last-writer-wins per property); the base-player id is reported. The world model is tied to the real players by generated histories (model vs implementation after each packet, and against a plain dict LWW interpreter) and by the final worlds of real recordings.',
    note='entity_fold starts from any world in which the entity exists: a (re-)creation packet for the same id splits a history into segments joined by the per-step creation theorems; the own-player position packet (two entities) is covered per step in C08; correspondence is sampled; recording controller via the documented _get_controller/_get_definitions extension points.',
    design='§5 C05')
CHECKS['C06'] = dict(
    technique='Lean 4 theorems: Python slice-assignment semantics, leaf operations and descent steps as List.set / dict assignment, frame lemmas, and the closed form of the bit-level layout (walk_reach: a written index path of any depth decodes to that path; leaf_encoded; nested_update_decodes; the encoder in the model: bitsOf_packBits, nested_encode_apply: read_and_apply (encodeNested ...) = the list/dict operation at the end of the path, nested_packet_step through the packet layout and stepNet) + the harness encoder compared byte for byte with the model encoder + differential play of generated nested-operation sequences against plain list/dict operations',
    text='C06 theorems give the semantics of every step of a nested update in the model as ordinary list/dict operations (slice with all clamping cases, element set, value-less set, dict field set, descent = List.set/dictSet of the updated child, stop conditions) and that nothing else changes. The model is tied to NestedProperty.read_and_apply by generated op sequences (depth 1..5, all slice pairs) compared after every packet, with the generator applying the same operations to plain Python lists/dicts as oracle.',
    note='the encoder (packBits / encodeNested) is part of the model and its bytes are compared with the encoder of the harness on every generated operation inside its domain; a stop bit of 1 on an empty container is outside the encoder (covered by walk_reach and the tie); subscriber notification is proved in C07.dispatch_nested; the payload-length fix (32-bit) is part of the modelled code.',
    design='§5 C06')
CHECKS['C08'] = dict(
    technique='Lean 4 theorems position_spec / player_position_{set,copy,unknown_ignored,zero} / pose_frame / position_vehicle_irrelevant / entity_history (updates and positions over whole histories) + differential play of generated position histories + recordings',
    text='C08 theorems state outright what Position and the three PlayerPosition cases do to the addressed entity and that no other entity changes; defaults before the first packet. Tied to the real players by generated interleavings (ids equal/unequal/zero/unknown, arbitrary float bit patterns) compared after each packet and against a dict id -> last pose.',
    note='floats are bit patterns (NaNs compared as a class); aliasing of Vector3 objects between entities cannot exist in the model and would surface as a disagreement.',
    design='§5 C08')

CHECKS['C02'] = dict(
    technique='Lean 4 theorems frames_encode / frames_truncated_{header,payload} / parse_bound / unmapped_noop / play_filter / ignored_noop / stepNet_time_irrelevant / getInfo_written (file -> container -> frames -> play, end to end) + differential framing of generated streams + insertion of unmapped packets into generated histories and recordings',
    text='C02 theorems: parsing a concatenation of encoded packets returns exactly those packets in order (any count, sizes < 2^32), a cut inside the last header ends with the short-header error after the complete packets, a cut inside the payload still delivers that packet; the loop consumes >= 12 bytes per packet; an unmapped type is a no-op for every table, payload and world, and play(ps) = play(ps without unmapped) for both modes. Tied to PlayerBase.play by generated streams played through greedy decoders (isolation), and by inserting unmapped packets at random and at every position of generated histories (4 dialects) and into real recordings.',
    note='payload isolation is structural in the model (handlers receive the payload only) and behavioural in the tie (decoders that read everything they can); correspondence is sampled.',
    design='§5 C02')
CHECKS['C07'] = dict(
    technique='Lean 4 theorems subscribe_appends/other/many, runSubs_all, unsubscribed_noop, dispatch_method, dispatch_property, undecodable_call_clean, step_log_append / dispatch_nested + differential invocation logs on generated histories with random subscription sets + recordings with every method subscribed',
    text='C07 theorems: registration appends (all callbacks of a key are kept, other keys untouched); a matching event invokes every non-raising subscriber once, in registration order, with the entity, positional and keyword arguments split by name; with no subscriber a call is a no-op for every payload (never decoded); property subscribers get (entity, new value) after the value is stored; the log only grows (stream order). Tied to Entity.subscribe_*/call_client_method by recording callbacks on generated histories (log compared with the model and with the expectation derived from the generated events) and by the full method-call trace of real recordings against the model as independent decoder.',
    note='nested-change delivery (substring key match) is model code exercised by the correspondence; callbacks are opaque (recorded, optionally raising).',
    design='§5 C07')
CHECKS['C12'] = dict(
    technique='Lean 4 theorems modes_agree, lenient_no_raise/lenient_total, strict_prefix, lenient_eq_filtered / getInfo_lenient_returns / getInfo_strict_returns_lenient / lenient_run_of_failures, put_stored, unknown_entity_clean, method_index_clean, method_undecodable_clean, property_failure_clean + fault injection into generated histories in both modes',
    text='C12 theorems over the play loop: strict stops at the first failing packet with exactly the state reached before it (plus that packet\'s partial effect) and its exception; lenient never raises out of the loop; when failing packets are clean the lenient world equals playing the stream without them, failure-free; fault-free streams give identical results; the named failure classes (unknown entity, index out of range, undecodable value of update/call) leave the world exactly as it was (real equality, using the table invariant). Tied to PlayerBase.play by injecting 0..5 faults into generated histories and checking the same three statements on the implementation alone, plus model/implementation agreement in both modes.',
    note='the top-level get_info catch-all is covered with the container (C01/C15); correspondence is sampled.',
    design='§5 C12')

CHECKS['C01'] = dict(
    technique='Lean 4 theorems chain_inverse / decrypt_inverse / blocks_roundtrip / read_write / bad_magic_rejected / bad_extension_rejected / rawDump_written + kernel-checked facts (magic, keys, extensions) + independent container writer vs the real reader and the model',
    text='C01.read_write: for every block permutation (E,D) with D(E b)=b, every inflate inverting the compressor, every block list (empty blocks as None), prefix and plaintext block list, reading the written file returns exactly game, first block, further blocks in order and the stream; the XOR chain is inverted for any number of blocks incl. all-zero ones; wrong magic / unknown extension give ValueError. Tied to ReplayReader by an independent writer (own keys, Blowfish encrypt, zlib levels/strategies, non-ASCII JSON, empty blocks), all stream lengths mod 8 per key, malformed files, raw dump, re-wrapped recordings; the model reads the same files with the ECB layer supplied per block.',
    note='Blowfish (Cryptodome), zlib and json are external parameters of the theorem (assumed inverse pairs); correspondence is sampled except for the length-mod-8 enumeration.',
    design='§5 C01')
CHECKS['C11'] = dict(
    technique='Lean 4 theorems resolve_spec / resolve_mem / defs_ctrl_same / unsupported_refused / missing_defs_refused / table_switch / getInfo_refused / getInfo_uses_selection (top of the pipeline) + version strings wrapped into containers and parsed in both modes, observed player compared with the model and the directory-listing rule',
    text='C11 theorems: resolution picks the 4-component version if bundled, else the 3-component one, else refuses, and only ever a bundled name; definitions and controller coincide whenever the bundled sets agree on the two candidates (evaluated on the tree each run); the 12.6.0 table switch for every build number. Tied to ReplayParser/ReplayPlayer by generated version strings in the three formats wrapped into real containers; the constructed player (controller module, definitions directory, packet table) and the strict/lenient refusal are observed.',
    note='importlib and packaging.version are external; the bundled sets are read from the tree by the harness (directory listing + import attempts).',
    design='§5 C11')

CHECKS['C09'] = dict(
    technique='Lean 4 theorems about the controller fold (deaths_ordered, achievements_count, shots_damage_sum, planes_count, roster_merge/roster_frame, field_frame_*, map_prefix/map_no_prefix, battle_result_last) and from the bytes of the stream (Extract model: deaths_of_stream, player_of_stream, eventOfCall_isCall) + the model decoding each wows battle with the definition files of that version and extracting the same events + synthetic battles for every bundled version compared with the model and with a naive fold',
    text='C09 theorems prove, for every event trace: the death list is the ordered sub-sequence of death events, achievement / plane / damage counters equal counts and sums over all matching events (counted each time), roster messages merge right-biased by id without touching other players, an event of one kind changes only its own fields, the map is the arena name minus the literal prefix. Tied to every bundled controller (76 wows, 2 wot, 3 wowp) by synthetic random battles encoded against that version\'s own definitions and packet numbering and parsed by ReplayParser(strict=True): summary through the shipped encoder vs the model\'s fold of the same events vs the generator\'s naive fold.',
    note='partial: pickle and json are external; per-version argument shapes and key mappings are resolved by the generator (appendix C), the model is the fold all variants share; events inside pickled arguments (rosters, damage statistics) are outside the model; crew / task / control-point / death-info fields are generated non-trivially and compared with the final world of the tracker through the tables of that version (oracle), not modelled in Lean.',
    design='§5 C09')
CHECKS['C10'] = dict(
    technique='Lean 4 theorems about Python call binding (too_many_positional, unknown_keyword, missing_required, exact_arguments_bind) + exhaustive enumeration of every bundled version x every registered subscription (model bind vs inspect.Signature.bind) + one complete battle per version in strict mode',
    text='The binding rule for func(entity, *args, **kwargs) is a model function with theorems stating exactly when plain signatures accept a call; the instance over all bundled versions is enumerated exhaustively on every run: definitions load, controller constructible, every subscribed key exists in that version\'s definitions, the callback binds the declared positional count and keyword names (model and inspect agree), and a complete random battle parses in strict mode.',
    note='exhaustive over the 82 bundled directories; signatures come from inspect, argument lists from the real Definitions; wowp 0_3_3 (no controller) is a known finding.',
    design='§5 C10')

CHECKS['C19'] = dict(
    technique='Lean 4 theorems about the packaging rule (segMatch_star_suffix, shipped_complete_iff, package_has_init, module_of_package_shipped) + the model evaluated on the file listing of the working tree vs a real offline wheel build and sdist + replays parsed from the unpacked wheel',
    text='The packaging model (find_packages over __init__.py chains, package_data glob semantics, scripts) decides which files a build ships and which needed files (Python modules, definition files, CLI script) are missing; theorems give the glob/package rules and completeness as a decision. On every run the model is evaluated by the compiled driver on the listing of the working tree (about 6,600 files), a real wheel is built offline in a scratch copy and must ship exactly the model\'s set, and recordings plus one synthetic battle per bundled version are parsed from the unpacked wheel with the checkout off the path, digests compared with the checkout\'s.',
    note='partial: setuptools / pip are external (model compared with a real build each run); the sdist file list is checked in both tiers, a wheel built from the sdist is compared with the wheel built from the tree in the thorough tier; the hypotheses are evaluated on the extracted listing by compiled code, not by the kernel.',
    design='§5 C19')

CHECKS['C13'] = dict(
    technique='Lean 4 theorems parse_result_local / parse_eq_fresh / parse_sequence / registry_after_parse / parse_deterministic about the parse function of the model (registry cleared, world fresh per parse) + sequences of parses in one process vs fresh processes with different hash seeds (digests through the shipped encoder, subscription registry compared)',
    text='C13 theorems: the result of a parse in the model is a function of (definitions, dialect, controller, mode, stream) alone, equal to the result in a fresh state for every previous registry/world, for every sequence of jobs; the registry after a parse is exactly the controller\'s registrations. Tied to the code by running permutations, repetitions and mixes of games/versions/modes (with failing parses in between) in one process and comparing every digest and the registry with fresh processes started under different PYTHONHASHSEED values.',
    note='the process-wide registry is the only shared state modelled; module-level caches of third-party libraries are outside the model; after a container-level failure no summary exists and the registry is not compared; sequences are sampled.',
    design='§5 C13')
CHECKS['C14'] = dict(
    technique='Lean 4 theorems encodable_of_keysOK / summary_encodable (every summary of the controller fold is serialisable) / dumps_is_one_document (the output is exactly one value of the JSON grammar) (+ tuple-key counterexample), step_stdout / playPackets_stdout / play_stdout_empty (no packet writes to standard output in the model), kernel-checked facts printSites_fact / onSetConsumable_unsubscribed_fact / parser_no_dump_fact regenerated from /repo + the CLI run as a subprocess on synthetic battles of every bundled version and recordings (stdout must be exactly one JSON document)',
    text='C14 theorems: every summary term whose dict keys are str/int/float/bool/None is encodable for every nesting; the model world\'s stdout is unchanged by every packet, hence empty after every stream in both modes; the regenerated list of print call sites contains only the CLI\'s final print and callbacks no controller subscribes. Tied to the code by running replay_parser.py on battles whose entity ids include every integer literal of the source and on recordings, and by passing every summary through the shipped encoder and the model\'s encodable.',
    note='partial: the encoder itself (json + DefaultEncoder) is external; what the summary contains per version is observed, not proved; print-site list is an ast scan (dynamic writes via sys.stdout would be seen only by the subprocess runs).',
    design='§5 C14')
CHECKS['C15'] = dict(
    technique='Lean 4 theorems decode_consumes (every successful read leaves a suffix), nested_loop_terminates / decodeAll_bound (element loop ends within the remaining length when no element type is zero-width), framing_linear, lenient_total + NoZeroWidth evaluated on every bundled definition set + corruption campaign on recordings and synthetic battles under RLIMIT_AS and a wall-clock limit + corrupted generated streams through model and implementation',
    text='C15 theorems: every decoder consumes a prefix; the read-until-exhausted loop of nested updates terminates within len(payload) iterations for every element type that cannot decode from zero bytes (hang detection in the model proves the only non-terminating case is the zero-width one: counterexample theorem); the number of frames is at most len/12; the lenient play loop is total. Tied to the code by NoZeroWidth on all bundled sets, by thousands of corrupted containers/streams parsed in subprocesses (bounded memory and time, lenient + intact container must return a result object), and by model/implementation agreement on corrupted streams.',
    note='partial: time and memory of CPython / zlib / Cryptodome are runtime behaviour the model cannot exhibit (bounded empirically by rlimits); corruption campaign is sampled.',
    design='§5 C15')
CHECKS['C18'] = dict(
    technique='Lean 4 theorems about a pickle virtual-machine model (restricted_unpickle_safe for every byte string and allow-list, package_unpickle_safe for the shipped allow-list, unrestricted counterexample), import_name_confined, kernel-checked facts allowed_globals_fact / primitive_sites_fact regenerated from /repo + parses under sys.addaudithook (recordings, synthetic battles, crafted pickles in every unpickled argument, hostile version strings) + model VM vs real unpickler on real and crafted payloads',
    text='C18 theorems: for every byte string, an unpickler with an allow-list only ever locates allow-listed globals, and with the allow-list regenerated from replay_unpack/core/safe_pickle.py only members of the fixed data-class set; the module name handed to import_module always starts with .versions.; the regenerated list of code-executing / file / process call sites equals the reviewed list (no unrestricted pickle.loads, eval, exec, subprocess...). Tied to the code by audit-hook runs: find_class events must be in the data-class set, opens inside the replay/package/interpreter directories, no process events; crafted payloads with a harmless marker callable in each of the 4 unpickled arguments and hostile version strings with an escape target placed outside the package.',
    note='partial: what a located callable does when called is outside the model (data classes are trusted to be plain); the call-site list is an ast scan, sound only for direct calls; audit events of C extensions doing their own I/O (lxml) are not visible.',
    design='§5 C18')

PENDING_REASON = 'check not built yet in this revision (planned: see DESIGN.md §5); not claimed until its theorem + correspondence run on the unchanged tree'


def main():
    props = [json.loads(l) for l in open(os.path.join(VERIF, 'properties.jsonl'))]
    checks = []
    na = []
    for p in props:
        pid = p['id']
        if pid in CHECKS:
            c = CHECKS[pid]
            checks.append({
                'property_id': pid,
                'quick_cmd': './check %s --tier quick' % pid,
                'thorough_cmd': './check %s --tier thorough' % pid,
                'evidence_file': 'evidence/%s.json' % pid,
                'replay_cmd_template': './check %s --replay {path}' % pid,
                'engine': 'lean4-model+correspondence',
                'level_claimed': {'category': 'proof', 'text': c['text'], 'design_ref': c['design']},
                'level_note': c['note'],
                'technique': c['technique'],
            })
        else:
            na.append({'property_id': pid, 'reason': NA.get(pid, PENDING_REASON)})
    m = {
        'version': 1,
        'setup_cmd': 'cd lean && lake build ReplayModel ReplayProofs rmdriver',
        'hooks': {
            'guard': 'REPLAYS_UNPACK_VERIF',
            'enable': 'no hooks are needed: every observation point is public API or a documented extension point (guard name reserved, unused)',
            'baseline_off_cmd': 'cd /repo && /venv/bin/python -m pytest -ra -q -p no:cacheprovider --timeout=900 --continue-on-collection-errors',
            'source_commits': [],
            'add_only': True,
        },
        'engines': [{
            'name': 'lean4-model+correspondence',
            'path': 'lean/ (model, proofs, rmdriver) + harness/ (translator, correspondence, oracles) + check',
            'serves_properties': sorted(CHECKS),
            'kind_free_text': 'Lean 4 theorems about a hand-written executable model; model tied to /repo on every run by regenerated facts and a differential correspondence against the compiled model; failing-input search on the implementation when either breaks',
        }],
        'checks': checks,
        'not_applicable': na,
        'notes': 'See DESIGN.md. known_findings.json lists genuine defects recorded rather than repaired.',
    }
    with open(os.path.join(VERIF, 'MANIFEST.json'), 'w') as f:
        json.dump(m, f, indent=1)


NA = {}

if __name__ == '__main__':
    main()
