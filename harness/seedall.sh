#!/bin/bash
# Development aid (not a registered check): run every seeded change against its property's quick
# check, in isolation from /repo: a scratch worktree of /repo under /tmp is patched and the checks
# are pointed at it with VERIF_REPO. Meant for `vp run -- harness/seedall.sh` (a snapshot of /verif
# with its own lean build), so that nothing here disturbs /repo or the working copy of /verif.
#   harness/seedall.sh [name-glob]      -> one line per seeded change: name, exit code, concrete?
set -u
here="$(cd "$(dirname "$0")/.." && pwd)"
glob="${1:-*}"
wt="/tmp/wt_seedall_$$"
git -C /repo worktree add --detach "$wt" HEAD >/dev/null 2>&1 || { echo "worktree failed"; exit 3; }
trap 'git -C /repo worktree remove --force "$wt" >/dev/null 2>&1; rm -rf "$wt"' EXIT
( cd "$here/lean" && lake build ReplayModel ReplayProofs rmdriver >/dev/null 2>&1 ) || { echo "lean build failed"; exit 3; }
mkdir -p "$here/work/seedall"
# the unchanged tree first: every check must pass there
for d in "$here"/seeded/$glob/; do
  name="$(basename "$d")"; pid="${name:0:3}"
  [ -f "$d/patch.diff" ] || continue
  git -C "$wt" apply "$d/patch.diff" 2>/dev/null || { echo "$name patch-does-not-apply"; continue; }
  ( cd "$here" && VERIF_REPO="$wt" ./check "$pid" --tier quick ) > "$here/work/seedall/$name.log" 2>&1
  rc=$?
  git -C "$wt" checkout -- . ; git -C "$wt" clean -fdq
  nf=$(grep -c "no-failing-input-found" "$here/work/seedall/$name.log")
  conc=$(grep "^VIOLATION" "$here/work/seedall/$name.log" | grep -vc "no-failing-input-found")
  echo "$name exit=$rc concrete=$conc no-input=$nf"
done
