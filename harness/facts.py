# coding=utf-8
"""
Translator: /repo -> lean/ReplayModel/Generated/Facts.lean (facts, data only).
Facts are read reflectively from the live objects or probed behaviourally, never by
pattern-matching source text, so a refactor that keeps behaviour keeps the facts.
The file is rewritten only when its content changes (keeps `lake build` a no-op).
The proof files state `Generated.x = <spec>` by `decide`, so the kernel re-checks the
facts against what the code says now.
"""
import io
import json
import os
import struct
import subprocess
import sys

from . import common

GEN = os.path.join(common.LEAN, 'ReplayModel', 'Generated', 'Facts.lean')


def _write_if_changed(path, content):
    os.makedirs(os.path.dirname(path), exist_ok=True)
    if os.path.exists(path) and open(path, encoding='utf-8').read() == content:
        return False
    with open(path, 'w', encoding='utf-8') as f:
        f.write(content)
    return True


def lean_str(s):
    return '"' + s.replace('\\', '\\\\').replace('"', '\\"') + '"'


def lean_list(items):
    return '[' + ', '.join(items) + ']'


def lean_bool(b):
    return 'true' if b else 'false'


# ------------------------------------------------------------------------------------
# extraction (runs in a fresh interpreter so that module-level state of /repo is clean)
# ------------------------------------------------------------------------------------

def extract():
    """returns (facts dict, list of extraction failures)"""
    common.repo_on_path()
    facts, broken = {}, []

    def attempt(name, fn):
        try:
            facts[name] = fn()
        except Exception as e:  # noqa
            broken.append('fact %s could not be extracted: %r' % (name, e))
            facts[name] = None

    def masks():
        from .impl import defs as idefs
        m = idefs.observed_masks()
        return [m['client'], m['internal'], m['cell'], m['base']] + [1 if x else 0 for x in m['exposed_flags']]
    attempt('masks', masks)

    def flags():
        from replay_unpack.core.entity_def.constants import EntityFlags
        return sorted([(k, v) for k, v in vars(EntityFlags).items() if not k.startswith('_') and isinstance(v, int)], key=lambda kv: (kv[1], kv[0]))
    attempt('flagValues', flags)

    def infinity():
        from replay_unpack.core.entity_def.data_types import INFINITY
        return INFINITY
    attempt('infinity', infinity)

    def default_header():
        from replay_unpack.core.entity_def.entity_description import EntityMethod
        m = EntityMethod('m', True, [])
        return m._variable_header_size if hasattr(m, '_variable_header_size') else m.get_size_in_bytes()
    attempt('defaultHeaderSize', default_header)

    def simple_types():
        from replay_unpack.core.entity_def.data_types import Alias
        return sorted((k, v.__name__) for k, v in Alias.SIMPLE_TYPES.items())
    attempt('simpleTypes', simple_types)

    def numeric_table():
        """behavioural probe of every fixed-size leaf type: bytes consumed, signedness,
        float-ness, byte order"""
        from replay_unpack.core.entity_def.data_types import Alias
        out = []
        for name, cls in sorted(Alias.SIMPLE_TYPES.items()):
            try:
                obj = cls()
            except TypeError:
                continue
            size = obj.get_size_in_bytes()
            if not isinstance(size, int) or size >= 0xFFFF:
                continue
            # consumed bytes
            s = io.BytesIO(bytes(range(1, 65)))
            v = obj.create_from_stream(s)
            used = s.tell()
            if isinstance(v, tuple):
                # vector of float32: component i must be the float of bytes 4i..4i+3 little endian
                comps = len(v)
                ok_le = all(struct.pack('<f', x) == bytes(range(1 + 4 * i, 5 + 4 * i)) for i, x in enumerate(v))
                out.append((name, used, 'vec%d' % comps, ok_le))
                continue
            allff = obj.create_from_stream(io.BytesIO(b'\xff' * used))
            one = obj.create_from_stream(io.BytesIO(b'\x01' + b'\x00' * (used - 1)))
            if isinstance(allff, float):
                le = struct.pack('<f' if used == 4 else '<d', v) == bytes(range(1, 1 + used))
                out.append((name, used, 'float', le))
            else:
                out.append((name, used, 'signed' if allff == -1 else 'unsigned', one == 1))
        return out
    attempt('numericTable', numeric_table)

    def packet_tables():
        from replay_unpack.clients import wows, wot, wowp
        out = {}
        for label, cls, version in (('wowsOld', wows.ReplayPlayer, ['0', '10', '0']), ('wowsNew', wows.ReplayPlayer, ['12', '6', '0']),
                                    ('wot', wot.ReplayPlayer, '1.8.0'), ('wowp', wowp.ReplayPlayer, ['2', '1', '17'])):
            mapping = cls._get_packets_mapping(cls.__new__(cls), version)
            out[label] = sorted((k, v.__module__.split('.')[2 if 'clients' in v.__module__ else 1] + ':' + v.__name__) for k, v in mapping.items())
        return out
    attempt('packetTables', packet_tables)

    def container():
        from replay_unpack import replay_reader as rr
        return {'magic': list(rr.REPLAY_SIGNATURE),
                'keys': sorted((ext, list(key)) for ext, key in rr.TYPE_TO_KEY.items()),
                'extensions': sorted(rr.ALLOWED_TYPES)}
    attempt('container', container)

    def print_sites():
        """every call that writes to standard output, by (file, enclosing function) — Python ast"""
        import ast
        sites = set()
        roots = [os.path.join(common.REPO, 'replay_parser.py')]
        for root, dirs, files in os.walk(os.path.join(common.REPO, 'replay_unpack')):
            dirs[:] = [d for d in dirs if d != '__pycache__']
            roots += [os.path.join(root, f) for f in files if f.endswith('.py')]
        for path in sorted(roots):
            tree = ast.parse(open(path, encoding='utf-8').read())
            rel = os.path.relpath(path, common.REPO)

            def visit(node, fn):
                for child in ast.iter_child_nodes(node):
                    name = fn
                    if isinstance(child, (ast.FunctionDef, ast.AsyncFunctionDef)):
                        name = child.name
                    if isinstance(child, ast.Call):
                        f = child.func
                        is_print = isinstance(f, ast.Name) and f.id in ('print', 'pprint')
                        is_write = isinstance(f, ast.Attribute) and f.attr in ('write', 'writelines') and \
                            ((isinstance(f.value, ast.Attribute) and f.value.attr in ('stdout', '__stdout__')) or
                             (isinstance(f.value, ast.Name) and f.value.id in ('stdout',)))
                        if is_print or is_write:
                            sites.add((rel, fn))
                    visit(child, name)
            visit(tree, '<module>')
        return sorted(sites)
    attempt('printSites', print_sites)

    def primitive_sites():
        """call sites of code-executing / file / process primitives: distinct (primitive, enclosing function, module kind)"""
        import ast
        out = {}
        roots = [os.path.join(common.REPO, 'replay_parser.py')]
        for root, dirs, files in os.walk(os.path.join(common.REPO, 'replay_unpack')):
            dirs[:] = [d for d in dirs if d != '__pycache__']
            roots += [os.path.join(root, f) for f in files if f.endswith('.py')]
        names = {'eval', 'exec', 'compile', '__import__', 'open', 'execfile', 'input'}
        attrs = {('pickle', 'loads'), ('pickle', 'load'), ('cPickle', 'loads'), ('importlib', 'import_module'), ('os', 'system'), ('os', 'popen'),
                 ('subprocess', 'Popen'), ('subprocess', 'run'), ('subprocess', 'call'), ('subprocess', 'check_output'), ('os', 'remove'),
                 ('os', 'unlink'), ('shutil', 'rmtree'), ('marshal', 'loads'), ('etree', 'parse'), ('os', 'execv'), ('ctypes', 'CDLL'),
                 ('yaml', 'load'), ('socket', 'socket'), ('builtins', 'eval'), ('runpy', 'run_path')}
        for path in sorted(roots):
            tree = ast.parse(open(path, encoding='utf-8').read())
            rel = os.path.relpath(path, common.REPO)
            kind = 'version' if '/versions/' in rel else rel
            # local names bound to the package's restricted unpickler module
            safe = set()
            for node in ast.walk(tree):
                if isinstance(node, ast.ImportFrom) and node.module == 'replay_unpack.core' and node.level == 0:
                    safe |= {a.asname or a.name for a in node.names if a.name == 'safe_pickle'}
                if isinstance(node, ast.Import):
                    safe |= {a.asname for a in node.names if a.name == 'replay_unpack.core.safe_pickle' and a.asname}

            def visit(node, fn):
                for child in ast.iter_child_nodes(node):
                    name = fn
                    if isinstance(child, (ast.FunctionDef, ast.AsyncFunctionDef)):
                        name = child.name
                    if isinstance(child, ast.Call):
                        f = child.func
                        prim = None
                        if isinstance(f, ast.Name) and f.id in names:
                            prim = f.id
                        elif isinstance(f, ast.Attribute) and isinstance(f.value, ast.Name) and f.value.id in safe:
                            prim = 'safe_pickle.%s' % f.attr
                        elif isinstance(f, ast.Attribute) and f.attr in ('load', 'loads') and not isinstance(f.value, ast.Name) and rel.endswith('safe_pickle.py'):
                            prim = 'Unpickler.%s' % f.attr
                        elif isinstance(f, ast.Attribute) and isinstance(f.value, ast.Name) and (f.value.id, f.attr) in attrs:
                            prim = '%s.%s' % (f.value.id, f.attr)
                        elif isinstance(f, ast.Attribute) and f.attr in ('loads', 'load') and isinstance(f.value, ast.Name) and 'pickle' in f.value.id.lower():
                            prim = 'pickle.%s' % f.attr
                        elif isinstance(f, ast.Name) and f.id == 'getattr' and len(child.args) >= 2 and not isinstance(child.args[1], ast.Constant):
                            prim = 'getattr-dynamic'
                        if prim:
                            key = (prim, fn, kind)
                            out[key] = out.get(key, 0) + 1
                    visit(child, name)
            visit(tree, '<module>')
        return sorted((k[0], k[1], k[2], v) for k, v in out.items())
    attempt('primitiveSites', primitive_sites)

    def allowed_globals():
        """the literal allow-list of replay_unpack/core/safe_pickle.py and the shape of its find_class guard"""
        import ast
        path = os.path.join(common.REPO, 'replay_unpack', 'core', 'safe_pickle.py')
        if not os.path.exists(path):
            return None
        tree = ast.parse(open(path, encoding='utf-8').read())
        out = None
        for node in tree.body:
            if isinstance(node, ast.Assign) and any(isinstance(t, ast.Name) and t.id == 'ALLOWED_GLOBALS' for t in node.targets):
                v = node.value
                if isinstance(v, ast.Call) and v.args:
                    v = v.args[0]
                out = sorted(tuple(x) for x in ast.literal_eval(v))
        if out is None:
            raise ValueError('ALLOWED_GLOBALS is not a literal')
        import replay_unpack.core.safe_pickle as sp
        if sorted(sp.ALLOWED_GLOBALS) != out:
            raise ValueError('ALLOWED_GLOBALS at run time differs from its literal')
        return out
    attempt('allowedGlobals', allowed_globals)

    def subscribed_callbacks():
        """names of all functions any bundled controller registers as a callback"""
        import importlib
        from replay_unpack.core.entity import Entity
        names = set()
        for game in ('wows', 'wot', 'wowp'):
            base = os.path.join(common.REPO, 'replay_unpack', 'clients', game, 'versions')
            for v in sorted(os.listdir(base)):
                if not os.path.isdir(os.path.join(base, v)):
                    continue
                try:
                    m = importlib.import_module('replay_unpack.clients.%s.versions.%s' % (game, v))
                    Entity.clear_subscriptions()
                    m.BattleController()
                except Exception:
                    continue
                for table in (Entity._methods_subscriptions, Entity._properties_subscriptions, Entity._nested_properties_subscription):
                    for funcs in table.values():
                        for f in funcs:
                            names.add(getattr(f, '__name__', repr(f)))
                Entity.clear_subscriptions()
        return sorted(names)
    attempt('subscribedCallbacks', subscribed_callbacks)

    def parser_dump_binary():
        import tempfile
        import replay_parser
        with tempfile.NamedTemporaryFile(suffix='.wowsreplay') as f:
            # the reader's own dump (which reports failures with print) must stay off whatever options the parser is given
            return any(bool(replay_parser.ReplayParser(f.name, **kw)._reader._dump_binary_data)
                       for kw in ({}, {'strict': True}, {'raw_data_output': os.path.join(tempfile.gettempdir(), 'no-such-dir', 'x.bin')}))
    attempt('parserDumpBinary', parser_dump_binary)

    return facts, broken


def render(facts):
    L = []
    L.append('/-')
    L.append('GENERATED by harness/facts.py from /repo — do not edit. Data only.')
    L.append('-/')
    L.append('namespace ReplayModel.Generated')
    L.append('')
    m = facts.get('masks')
    if m is not None:
        L.append('/-- masks passed by `Entity.__init__` (client, internal, cell, base) and which call asks for the exposed (sorted) index -/')
        L.append('def masks : List Nat := %s' % lean_list(str(x) for x in m))
    f = facts.get('flagValues')
    if f is not None:
        L.append('def flagValues : List (String × Nat) := %s' % lean_list('(%s, %d)' % (lean_str(k), v) for k, v in f))
    if facts.get('infinity') is not None:
        L.append('def infinity : Nat := %d' % facts['infinity'])
    if facts.get('defaultHeaderSize') is not None:
        L.append('def defaultHeaderSize : Nat := %d' % facts['defaultHeaderSize'])
    st = facts.get('simpleTypes')
    if st is not None:
        L.append('def simpleTypes : List (String × String) := %s' % lean_list('(%s, %s)' % (lean_str(k), lean_str(v)) for k, v in st))
    nt = facts.get('numericTable')
    if nt is not None:
        L.append('/-- probed: (type name, bytes consumed, kind, little-endian) -/')
        L.append('def numericTable : List (String × Nat × String × Bool) := %s' % lean_list(
            '(%s, %d, %s, %s)' % (lean_str(n), u, lean_str(k), lean_bool(le)) for n, u, k, le in nt))
    pt = facts.get('packetTables')
    if pt is not None:
        for label, rows in sorted(pt.items()):
            L.append('def packetTable_%s : List (Nat × String) := %s' % (label, lean_list('(%d, %s)' % (k, lean_str(v)) for k, v in rows)))
    c = facts.get('container')
    if c is not None:
        L.append('def magic : List Nat := %s' % lean_list(str(x) for x in c['magic']))
        L.append('def keys : List (String × List Nat) := %s' % lean_list('(%s, %s)' % (lean_str(e), lean_list(str(x) for x in k)) for e, k in c['keys']))
        L.append('def extensions : List String := %s' % lean_list(lean_str(e) for e in c['extensions']))
    ps = facts.get('printSites')
    if ps is not None:
        L.append('/-- calls writing to standard output: (file, enclosing function) -/')
        L.append('def printSites : List (String × String) := %s' % lean_list('(%s, %s)' % (lean_str(a), lean_str(b)) for a, b in ps))
    pr = facts.get('primitiveSites')
    if pr is not None:
        L.append('/-- call sites of code-executing / file / process primitives: (primitive, enclosing function, module) -/')
        L.append('def primitiveSites : List (String × String × String) := %s' % lean_list(
            '(%s, %s, %s)' % (lean_str(a), lean_str(b), lean_str(c)) for a, b, c, n in pr))
    ag = facts.get('allowedGlobals')
    if ag is not None:
        L.append('/-- `ALLOWED_GLOBALS` of replay_unpack/core/safe_pickle.py: (module, name) -/')
        L.append('def allowedGlobals : List (String × String) := %s' % lean_list('(%s, %s)' % (lean_str(a), lean_str(b)) for a, b in ag))
    sc = facts.get('subscribedCallbacks')
    if sc is not None:
        L.append('def subscribedCallbacks : List String := %s' % lean_list(lean_str(x) for x in sc))
    if facts.get('parserDumpBinary') is not None:
        L.append('def parserDumpBinary : Bool := %s' % lean_bool(facts['parserDumpBinary']))
    L.append('')
    L.append('end ReplayModel.Generated')
    return '\n'.join(L) + '\n'


def regenerate():
    """Runs the extraction in a fresh interpreter; returns the list of broken fact
    obligations (extraction failures)."""
    p = subprocess.run([common.PY, '-m', 'harness.facts'], cwd=common.VERIF, stdout=subprocess.PIPE, stderr=subprocess.PIPE, text=True)
    if p.returncode != 0:
        return ['facts translator failed: %s' % p.stderr[-500:]]
    out = json.loads(p.stdout.strip().split('\n')[-1])
    _write_if_changed(GEN, out['lean'])
    return out['broken']


if __name__ == '__main__':
    import logging
    logging.disable(logging.CRITICAL)
    facts, broken = extract()
    sys.stdout.write(json.dumps({'lean': render(facts), 'broken': broken}) + '\n')
