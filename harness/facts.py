# coding=utf-8
"""
Translator: /repo -> lean/ReplayModel/Generated/*.lean (facts, data only).
Facts are read reflectively from the live objects (or probed behaviourally), never by
pattern-matching source text. Files are rewritten only when their content changes, so a
no-op run keeps `lake build` a no-op.
"""
import os

from . import common


def _write_if_changed(path, content):
    os.makedirs(os.path.dirname(path), exist_ok=True)
    if os.path.exists(path) and open(path, encoding='utf-8').read() == content:
        return False
    with open(path, 'w', encoding='utf-8') as f:
        f.write(content)
    return True


def regenerate():
    """Returns a list of broken fact obligations (extraction failures)."""
    broken = []
    return broken
