# coding=utf-8
"""
Translator: /repo -> lean/ReplayModel/Generated/Facts.lean (facts, data only).
Facts are read reflectively from the live objects or probed behaviourally, never by
pattern-matching source text, so a refactor that keeps behaviour keeps the facts.
The file is rewritten only when its content changes (keeps `lake build` a no-op).
The proof files state `Generated.x = <spec>` by `decide`, so the kernel re-checks the
facts against what the code says now.
"""
import io
import json
import os
import struct
import subprocess
import sys

from . import common

GEN = os.path.join(common.LEAN, 'ReplayModel', 'Generated', 'Facts.lean')


def _write_if_changed(path, content):
    os.makedirs(os.path.dirname(path), exist_ok=True)
    if os.path.exists(path) and open(path, encoding='utf-8').read() == content:
        return False
    with open(path, 'w', encoding='utf-8') as f:
        f.write(content)
    return True


def lean_str(s):
    return '"' + s.replace('\\', '\\\\').replace('"', '\\"') + '"'


def lean_list(items):
    return '[' + ', '.join(items) + ']'


def lean_bool(b):
    return 'true' if b else 'false'


# ------------------------------------------------------------------------------------
# extraction (runs in a fresh interpreter so that module-level state of /repo is clean)
# ------------------------------------------------------------------------------------

def extract():
    """returns (facts dict, list of extraction failures)"""
    common.repo_on_path()
    facts, broken = {}, []

    def attempt(name, fn):
        try:
            facts[name] = fn()
        except Exception as e:  # noqa
            broken.append('fact %s could not be extracted: %r' % (name, e))
            facts[name] = None

    def masks():
        from .impl import defs as idefs
        m = idefs.observed_masks()
        return [m['client'], m['internal'], m['cell'], m['base']] + [1 if x else 0 for x in m['exposed_flags']]
    attempt('masks', masks)

    def flags():
        from replay_unpack.core.entity_def.constants import EntityFlags
        return sorted([(k, v) for k, v in vars(EntityFlags).items() if not k.startswith('_') and isinstance(v, int)], key=lambda kv: (kv[1], kv[0]))
    attempt('flagValues', flags)

    def infinity():
        from replay_unpack.core.entity_def.data_types import INFINITY
        return INFINITY
    attempt('infinity', infinity)

    def default_header():
        from replay_unpack.core.entity_def.entity_description import EntityMethod
        m = EntityMethod('m', True, [])
        return m._variable_header_size if hasattr(m, '_variable_header_size') else m.get_size_in_bytes()
    attempt('defaultHeaderSize', default_header)

    def simple_types():
        from replay_unpack.core.entity_def.data_types import Alias
        return sorted((k, v.__name__) for k, v in Alias.SIMPLE_TYPES.items())
    attempt('simpleTypes', simple_types)

    def numeric_table():
        """behavioural probe of every fixed-size leaf type: bytes consumed, signedness,
        float-ness, byte order"""
        from replay_unpack.core.entity_def.data_types import Alias
        out = []
        for name, cls in sorted(Alias.SIMPLE_TYPES.items()):
            try:
                obj = cls()
            except TypeError:
                continue
            size = obj.get_size_in_bytes()
            if not isinstance(size, int) or size >= 0xFFFF:
                continue
            # consumed bytes
            s = io.BytesIO(bytes(range(1, 65)))
            v = obj.create_from_stream(s)
            used = s.tell()
            if isinstance(v, tuple):
                # vector of float32: component i must be the float of bytes 4i..4i+3 little endian
                comps = len(v)
                ok_le = all(struct.pack('<f', x) == bytes(range(1 + 4 * i, 5 + 4 * i)) for i, x in enumerate(v))
                out.append((name, used, 'vec%d' % comps, ok_le))
                continue
            allff = obj.create_from_stream(io.BytesIO(b'\xff' * used))
            one = obj.create_from_stream(io.BytesIO(b'\x01' + b'\x00' * (used - 1)))
            if isinstance(allff, float):
                le = struct.pack('<f' if used == 4 else '<d', v) == bytes(range(1, 1 + used))
                out.append((name, used, 'float', le))
            else:
                out.append((name, used, 'signed' if allff == -1 else 'unsigned', one == 1))
        return out
    attempt('numericTable', numeric_table)

    def packet_tables():
        from replay_unpack.clients import wows, wot, wowp
        out = {}
        for label, cls, version in (('wowsOld', wows.ReplayPlayer, ['0', '10', '0']), ('wowsNew', wows.ReplayPlayer, ['12', '6', '0']),
                                    ('wot', wot.ReplayPlayer, '1.8.0'), ('wowp', wowp.ReplayPlayer, ['2', '1', '17'])):
            mapping = cls._get_packets_mapping(cls.__new__(cls), version)
            out[label] = sorted((k, v.__module__.split('.')[2 if 'clients' in v.__module__ else 1] + ':' + v.__name__) for k, v in mapping.items())
        return out
    attempt('packetTables', packet_tables)

    def container():
        from replay_unpack import replay_reader as rr
        return {'magic': list(rr.REPLAY_SIGNATURE),
                'keys': sorted((ext, list(key)) for ext, key in rr.TYPE_TO_KEY.items()),
                'extensions': sorted(rr.ALLOWED_TYPES)}
    attempt('container', container)

    return facts, broken


def render(facts):
    L = []
    L.append('/-')
    L.append('GENERATED by harness/facts.py from /repo — do not edit. Data only.')
    L.append('-/')
    L.append('namespace ReplayModel.Generated')
    L.append('')
    m = facts.get('masks')
    if m is not None:
        L.append('/-- masks passed by `Entity.__init__` (client, internal, cell, base) and which call asks for the exposed (sorted) index -/')
        L.append('def masks : List Nat := %s' % lean_list(str(x) for x in m))
    f = facts.get('flagValues')
    if f is not None:
        L.append('def flagValues : List (String × Nat) := %s' % lean_list('(%s, %d)' % (lean_str(k), v) for k, v in f))
    if facts.get('infinity') is not None:
        L.append('def infinity : Nat := %d' % facts['infinity'])
    if facts.get('defaultHeaderSize') is not None:
        L.append('def defaultHeaderSize : Nat := %d' % facts['defaultHeaderSize'])
    st = facts.get('simpleTypes')
    if st is not None:
        L.append('def simpleTypes : List (String × String) := %s' % lean_list('(%s, %s)' % (lean_str(k), lean_str(v)) for k, v in st))
    nt = facts.get('numericTable')
    if nt is not None:
        L.append('/-- probed: (type name, bytes consumed, kind, little-endian) -/')
        L.append('def numericTable : List (String × Nat × String × Bool) := %s' % lean_list(
            '(%s, %d, %s, %s)' % (lean_str(n), u, lean_str(k), lean_bool(le)) for n, u, k, le in nt))
    pt = facts.get('packetTables')
    if pt is not None:
        for label, rows in sorted(pt.items()):
            L.append('def packetTable_%s : List (Nat × String) := %s' % (label, lean_list('(%d, %s)' % (k, lean_str(v)) for k, v in rows)))
    c = facts.get('container')
    if c is not None:
        L.append('def magic : List Nat := %s' % lean_list(str(x) for x in c['magic']))
        L.append('def keys : List (String × List Nat) := %s' % lean_list('(%s, %s)' % (lean_str(e), lean_list(str(x) for x in k)) for e, k in c['keys']))
        L.append('def extensions : List String := %s' % lean_list(lean_str(e) for e in c['extensions']))
    L.append('')
    L.append('end ReplayModel.Generated')
    return '\n'.join(L) + '\n'


def regenerate():
    """Runs the extraction in a fresh interpreter; returns the list of broken fact
    obligations (extraction failures)."""
    p = subprocess.run([common.PY, '-m', 'harness.facts'], cwd=common.VERIF, stdout=subprocess.PIPE, stderr=subprocess.PIPE, text=True)
    if p.returncode != 0:
        return ['facts translator failed: %s' % p.stderr[-500:]]
    out = json.loads(p.stdout.strip().split('\n')[-1])
    _write_if_changed(GEN, out['lean'])
    return out['broken']


if __name__ == '__main__':
    import logging
    logging.disable(logging.CRITICAL)
    facts, broken = extract()
    sys.stdout.write(json.dumps({'lean': render(facts), 'broken': broken}) + '\n')
