# coding=utf-8
"""
C12 — strict mode fails fast, lenient mode skips exactly the failing packets.
Fault injection into generated histories (0..k faults: unknown entity id, method/property
index out of range, truncated value of an update or call, plus non-clean faults such as a
truncated creation packet); both modes on the real players and on the model.
Oracle on the implementation alone: lenient(S) == lenient(S minus the packets that failed);
strict(S) raises at the first failing packet with the state of lenient(prefix); a fault-free
stream gives identical results in both modes.
"""
import json
import random
import struct

from .. import common, histcheck
from ..gen import history
from ..impl import play as iplay

WEIGHTS = dict(base=1, cell=1, create=5, prop=8, method=8, garbage=0, position=3, ppos=2, map=1, noise=2, nested=5)

CLEAN = ('unknown-prop', 'unknown-method', 'unknown-nested', 'unknown-position', 'prop-index', 'method-index', 'prop-truncated',
         'method-truncated', 'unknown-retarget')
DIRTY = ('create-bad-type', 'create-truncated', 'create-trailing', 'nested-garbage', 'short-packet')
# failing packets that cannot legitimately have invoked a subscriber before they failed (creation packets that fail late may have
# delivered some property values first): for these the invocation log must equal that of the stream without them, too
LOG_CLEAN = CLEAN + ('short-packet', 'create-bad-type', 'nested-garbage')


def make_fault(rng, h, kind, subscribed):
    """a faulty packet for the current tracker state `h` (History), or None"""
    tab = h.tab
    # unknown ids come from a small pool per history, so that the same absent entity is addressed repeatedly (also back to back)
    if not hasattr(h, 'unknown_pool'):
        h.unknown_pool = [3000000 + rng.randint(0, 1000) for _ in range(2)]
    unknown = rng.choice(h.unknown_pool)
    if kind == 'unknown-retarget':
        # a well-formed recent packet for a live entity, re-addressed to an absent one (what a stream looks like when a creation
        # packet was lost): valid index and payload for the entity addressed just before it
        cands = [(t, p) for t, p, m in h.packets[-6:] if m.get('kind') in ('prop', 'method', 'nested', 'position') and len(p) >= 4
                 and not m.get('garbage') and not m.get('expect_error')]
        if not cands:
            return None
        t, p = cands[-1] if rng.random() < 0.7 else rng.choice(cands)
        return t, struct.pack('<I', unknown) + p[4:]
    ids = [eid for eid in h.world if 0 <= eid < 2 ** 31]
    if kind == 'unknown-prop':
        return tab['prop'], struct.pack('<II', unknown, 0) + history.bstream(b'\x00' * 4)
    if kind == 'unknown-method':
        return tab['method'], struct.pack('<II', unknown, 0) + history.bstream(b'')
    if kind == 'unknown-nested' and 'nested' in tab:
        body = b'\x80\x00'
        return tab['nested'], struct.pack('<IbI', unknown, 0, len(body)) + body
    if kind == 'unknown-position' and h.game != 'wowp':
        return tab['position'], struct.pack('<ii', unknown, 0) + b'\x00' * 36 + b'\x00'
    if not ids:
        return None
    eid = rng.choice(ids)
    view = h.views[h.world[eid]['type']]
    if kind == 'prop-index':
        return tab['prop'], struct.pack('<II', eid, len(view['clientProps']) + rng.randint(0, 3)) + history.bstream(b'\x01\x02\x03\x04')
    if kind == 'method-index':
        return tab['method'], struct.pack('<II', eid, len(view['methods']) + rng.randint(0, 3)) + history.bstream(b'\x01')
    if kind == 'prop-truncated':
        cands = [(i, p) for i, p in enumerate(view['clientProps']) if 0 < p[1] < 0xFFFF]
        if not cands:
            return None
        i, p = rng.choice(cands)
        return tab['prop'], struct.pack('<II', eid, i) + history.bstream(b'\x01' * (p[1] - 1))
    if kind == 'method-truncated':
        cands = [(i, m) for i, m in enumerate(view['methods'])
                 if (view['name'] + '_' + m['name']) in subscribed and m['args'] and 0 < m['size'] - m['header'] < 0xFFFF]
        if not cands:
            return None
        i, m = rng.choice(cands)
        return tab['method'], struct.pack('<II', eid, i) + history.bstream(b'\x01' * (m['size'] - m['header'] - 1))
    if kind == 'create-bad-type' and 'create' in tab:
        head = struct.pack('<ihii', unknown, len(h.views) + 3, 0, 5) + b'\x00' * 24 + (b'\x00' * 4 if h.game == 'wot' else b'')
        return tab['create'], head + history.bstream(b'\x00')
    if kind == 'create-truncated' and 'create' in tab:
        cands = [(ti, v) for ti, v in enumerate(h.views) if any(0 < p[1] < 0xFFFF for p in v['clientProps'][:256])]
        if not cands:
            return None
        ti, v = rng.choice(cands)
        pi = [i for i, p in enumerate(v['clientProps'][:256]) if 0 < p[1] < 0xFFFF][0]
        head = struct.pack('<ihii', unknown, ti + 1, 0, 5) + b'\x00' * 24 + (b'\x00' * 4 if h.game == 'wot' else b'')
        return tab['create'], head + history.bstream(bytes([1, pi]) + b'\x01' * (v['clientProps'][pi][1] - 1))
    if kind == 'create-trailing' and 'create' in tab:
        head = struct.pack('<ihii', unknown, 1, 0, 5) + b'\x00' * 24 + (b'\x00' * 4 if h.game == 'wot' else b'')
        return tab['create'], head + history.bstream(b'\x00\xAA')
    if kind == 'nested-garbage' and 'nested' in tab and h.game != 'wowp':
        body = bytes(rng.getrandbits(8) for _ in range(rng.randint(1, 6)))
        return tab['nested'], struct.pack('<IbI', eid, rng.choice([0, 1]), len(body)) + body
    if kind == 'short-packet':
        return tab['prop'], b'\x01\x02'
    return None


def build_case(rng, views, dialect, n_events, n_faults, dirty):
    subs = histcheck.gen_subs(rng, views, 'all')
    subscribed = set(s[0] for s in subs['methods'])
    h = history.History(rng, views, dialect, subscribed=subscribed)
    w = dict(WEIGHTS)
    kinds = list(w)
    h.base_player()
    for _ in range(rng.randint(1, 3)):
        h.entity_create()
    fault_at = sorted(rng.sample(range(3, n_events + 3), min(n_faults, n_events)))
    faults = []
    guard = 0
    while len(h.packets) < n_events + len(faults) and guard < n_events * 30:
        guard += 1
        if fault_at and len(h.packets) >= fault_at[0]:
            fault_at.pop(0)
            kind = rng.choice(CLEAN + (DIRTY if dirty else ()))
            f = make_fault(rng, h, kind, subscribed)
            if f is not None:
                # the same faulty packet 1..3 times in a row (a repeated fault must fail each time, with no carry-over)
                reps = rng.choice([1, 1, 2, 3]) if kind.startswith('unknown') else 1
                if kind.startswith('unknown') and rng.random() < 0.08:
                    reps = rng.choice([100, 130, 1100])          # a long uninterrupted run of failures: every one of them is skipped
                for _ in range(reps):
                    h.packets.append((f[0], f[1], {'kind': 'fault', 'fault': kind, 'time': h.clock()}))
                    faults.append(len(h.packets) - 1)
            continue
        k = rng.choices(kinds, [w[x] for x in kinds])[0]
        {'base': lambda: h.base_player(h.player_id if rng.random() < 0.5 else None), 'cell': h.cell_player, 'create': h.entity_create,
         'prop': h.entity_property, 'method': h.entity_method, 'garbage': lambda: None, 'position': h.position, 'ppos': h.player_position,
         'map': h.map_packet, 'noise': h.noise, 'nested': h.nested}[k]()
    return h, subs, faults


def _worker(cfg):
    drv = common.Driver() if not cfg.get('no_model') else None
    st = histcheck.Setup(cfg['seed_key'])
    out = {'cases': [], 'problems': []}
    try:
        for hi in range(cfg['n_hist']):
            dialect = cfg['dialects'][hi % len(cfg['dialects'])]
            rng = random.Random('%s-%d-%s' % (cfg['seed_key'], hi, dialect))
            n_faults = rng.choice([0, 1, 1, 2, 3, 5])
            dirty = rng.random() < 0.4
            h, subs, faults = build_case(rng, st.views, dialect, cfg['n_events'], n_faults, dirty)
            packets = h.packets
            key = '%s-%d' % (cfg['seed_key'], hi)
            # ---- implementation runs
            _, len_every, _ = histcheck.run_history(None, st, dialect, packets, strict=False, subs=subs, every=True)
            failed = [i for i, s in enumerate(len_every['steps']) if s['err'] is not None]
            _, lenient, _ = histcheck.run_history(None, st, dialect, packets, strict=False, subs=subs)
            _, strict, _ = histcheck.run_history(None, st, dialect, packets, strict=True, subs=subs)
            fault_kinds = [packets[i][2].get('fault', packets[i][2]['kind']) for i in failed]
            clean_only = all(k in CLEAN for k in fault_kinds)
            log_clean = all(k in LOG_CLEAN for k in fault_kinds)
            # failing packets that are allowed to leave a partial effect in the unchanged design:
            # a player-creation packet on an already known entity, a pose copy from an entity
            # whose type lacks a volatile; everything else must leave the world as it was
            world_clean = all(k in CLEAN or k in DIRTY for k in fault_kinds)
            case = {'key': key, 'dialect': dialect, 'packets': len(packets), 'faults': len(faults), 'failed': len(failed),
                    'fault_kinds': fault_kinds, 'entities': len(h.world)}
            out['cases'].append(case)
            problem = None
            # (a) lenient continues and matches the run of the stream without the failing packets
            if world_clean:
                filtered = [p for i, p in enumerate(packets) if i not in failed]
                _, lf, _ = histcheck.run_history(None, st, dialect, filtered, strict=False, subs=subs)
                if lf['world'] != lenient['world'] or (log_clean and lf['log'] != lenient['log']):
                    problem = 'lenient result differs from playing the stream without the %d failing packets: %s' % (
                        len(failed), histcheck.compare_worlds(lenient['world'], lf['world']) or histcheck.first_log_diff(lenient['log'], lf['log']))
                if lf.get('end') != 'finished':
                    problem = problem or 'the stream without the failing packets still fails'
            if lenient.get('end') != 'finished':
                problem = problem or 'lenient play raised: %s' % json.dumps({k: lenient.get(k) for k in ('end', 'err')})
            # (b) strict: aborts at the first failing packet with the state before it
            if failed and problem is None:
                f0 = failed[0]
                if strict.get('end') == 'finished':
                    problem = 'strict mode did not raise although packet %d (%s) fails' % (f0, fault_kinds[0])
                else:
                    _, lp, _ = histcheck.run_history(None, st, dialect, packets[:f0], strict=False, subs=subs)
                    ok_world = strict['world'] == lp['world'] and strict['log'] == lp['log']
                    if not ok_world and fault_kinds[0] in CLEAN:
                        problem = 'strict mode applied something beyond the first failing packet %d: %s' % (
                            f0, histcheck.compare_worlds(strict['world'], lp['world']) or histcheck.first_log_diff(strict['log'], lp['log']))
            # (c) no failure: both modes agree
            if not failed and problem is None:
                if strict.get('end') != 'finished' or strict['world'] != lenient['world'] or strict['log'] != lenient['log']:
                    problem = 'fault-free stream: strict and lenient results differ'
            # (d) every injected clean fault must actually fail (and leave no trace: covered by (a))
            if problem is None and h.game != 'wowp':     # the wowp player acts on BasePlayerCreate only
                missing = [i for i in faults if i not in failed and packets[i][2]['fault'] in CLEAN]
                if missing:
                    problem = 'faulty packet %d (%s) did not fail' % (missing[0], packets[missing[0]][2]['fault'])
            # ---- correspondence with the model
            corr = None
            if drv is not None:
                for mode, impl in ((False, lenient), (True, strict)):
                    model, _, _ = histcheck.run_history(drv, st, dialect, packets, strict=mode, subs=subs)[0], None, None
                    d = histcheck.compare_worlds(model['world'], impl['world'])
                    if d is None and histcheck.norm_end(model) != histcheck.norm_end(impl):
                        d = 'ending %s vs %s' % (histcheck.norm_end(model), histcheck.norm_end(impl))
                    if d is None and model['log'] != impl['log']:
                        d = 'log: ' + histcheck.first_log_diff(model['log'], impl['log'])
                    if d is None and not mode and [x[0] for x in model.get('failed', [])] != failed:
                        d = 'failing packets %s vs %s' % ([x[0] for x in model.get('failed', [])], failed)
                    if d:
                        corr = '%s mode: %s' % ('strict' if mode else 'lenient', d)
                        break
            if problem or corr:
                out['problems'].append({'oracle': problem, 'corr': corr, 'dialect': dialect, 'defset': st.ds, 'subs': subs,
                                        'packets': histcheck.packets_json(packets), 'strict': False, 'key': key})
            if hi == 0 and cfg.get('want_sample'):
                out['sample'] = {'dialect': dialect, 'packets': len(packets), 'failing_packets': failed, 'fault_kinds': fault_kinds,
                                 'strict_end': {k: strict.get(k) for k in ('end', 'err')}}
    finally:
        st.cleanup()
    return out


def process(chk, results, label):
    for r in results:
        bad = set()
        for p in r['problems']:
            bad.add(p['key'])
            rep = {'kind': 'history', 'dialect': p['dialect'], 'strict': False, 'subs': p['subs'], 'defset': p['defset'],
                   'packets': p['packets'], 'oracle': p['oracle'], 'correspondence': p['corr']}
            if p['oracle']:
                chk.report('strict/lenient contract broken: %s' % p['oracle'], rep)
            else:
                chk.broken.append('correspondence play with faults (%s, %s): %s' % (p['dialect'], p['key'], p['corr']))
                histcheck.save_corpus_candidate(chk, rep)
        for c in r['cases']:
            chk.count((label, c['key']), c['entities'] >= 2 and c['failed'] >= 1)
            chk.dist('%s:histories' % label)
            chk.dist('%s:failing_packets' % label, c['failed'])
            chk.dist('%s:faults_%d' % (label, min(c['faults'], 5)))
            for k in c['fault_kinds']:
                chk.dist('%s:fault:%s' % (label, k))
            if c['key'] not in bad:
                chk.cov['traces_validated_against_impl'] += 1
        if r.get('sample') and len(chk.cov['samples']) < 3:
            chk.cov['samples'].append(r['sample'])


def run(chk, drv):
    quick = chk.tier == 'quick'
    chk.cov['rule'] = ('histories with 0..5 injected faulty packets (clean classes: unknown entity, index out of range, truncated value of an '
                       'update/call; non-clean: broken creation packets, garbage nested payloads), both modes; non-trivial: >= 2 entities and '
                       '>= 1 failing packet; distinct by (definition set, history)')
    n_sets = 40 if quick else 700
    cfgs = [dict(seed_key='C12-%s-%d' % (chk.seed, i), dialects=['wowsOld', 'wowsNew', 'wot', 'wowp'], n_hist=4, n_events=50,
                 want_sample=(i == 0), no_model=(drv is None)) for i in range(n_sets)]
    process(chk, common.pmap(_worker, cfgs), 'gen')


def search(chk, drv):
    cfgs = [dict(seed_key='C12s-%s-%d' % (chk.seed, i), dialects=['wowsOld', 'wowsNew', 'wot', 'wowp'], n_hist=4, n_events=60,
                 no_model=True) for i in range(60)]
    process(chk, common.pmap(_worker, cfgs), 'search')


def replay(chk, drv, rep):
    return histcheck.replay_history(chk, drv, rep)
