# coding=utf-8
"""
C10 — every bundled version is internally consistent. Exhaustive over the bundled version
directories x every subscription their controllers register x the declared signature of the
target in that version; plus one complete battle per version parsed in strict mode.
Signature binding is decided by the model's `bind` (Python's rules for
func(entity, *args, **kwargs)) and cross-checked with inspect.Signature.bind; a mismatch is
exhibited as the TypeError of the real call.
"""
import importlib
import inspect
import json
import logging
import os

from .. import battlecheck, common
from ..gen import battle
from ..impl import defs as idefs


def sig_json(func):
    """parameters after the bound instance: [name, kind, has_default]"""
    out = []
    for p in inspect.signature(func).parameters.values():
        kind = {p.POSITIONAL_ONLY: 'pos', p.POSITIONAL_OR_KEYWORD: 'pk', p.VAR_POSITIONAL: 'var', p.KEYWORD_ONLY: 'kw', p.VAR_KEYWORD: 'varkw'}[p.kind]
        out.append([p.name, kind, p.default is not p.empty])
    return out


def _one(args):
    game, version = args
    from replay_unpack.core.entity import Entity
    res = {'game': game, 'version': version, 'problems': [], 'subs': [], 'battle': None}
    vdir = os.path.join(common.REPO, 'replay_unpack', 'clients', game, 'versions', version)
    loaded = idefs.load_views(vdir)
    if 'ok' not in loaded:
        res['problems'].append(('defs', 'definitions do not load: %s' % loaded.get('exc', loaded.get('err'))))
        return res
    views = {}
    for v in loaded['ok']:
        views[v['name']] = v
    logging.disable(logging.CRITICAL)
    try:
        Entity.clear_subscriptions()
        try:
            helper = importlib.import_module('replay_unpack.clients.%s.helper' % game)
            ctrl = helper.get_controller(version if game != 'wot' else version.replace('_', '.'))
        except Exception as e:
            res['problems'].append(('controller', 'no constructible controller: %s: %s' % (type(e).__name__, str(e)[:120])))
            return res
        for key, funcs in list(Entity._methods_subscriptions.items()):
            ent, meth = key.split('_', 1)
            m = next((mm for mm in views.get(ent, {'methods': []})['methods'] if mm['name'] == meth), None)
            for f in funcs:
                entry = {'key': key, 'kind': 'method', 'sig': sig_json(f), 'exists': m is not None,
                         'npos': len([1 for n, t in m['args'] if n is None]) if m else 0,
                         'named': [n for n, t in m['args'] if n is not None] if m else []}
                if m is not None:
                    try:
                        inspect.signature(f).bind(object(), *([object()] * entry['npos']), **{n: object() for n in entry['named']})
                        entry['binds'] = True
                    except TypeError as e:
                        entry['binds'] = False
                        entry['type_error'] = str(e)
                res['subs'].append(entry)
        for key in list(Entity._properties_subscriptions):
            ent, p = key.split('_', 1)
            res['subs'].append({'key': key, 'kind': 'property', 'exists': p in [x[0] for x in views.get(ent, {'clientProps': []})['clientProps']],
                                'binds': True, 'sig': [], 'npos': 0, 'named': []})
        for key in list(Entity._nested_properties_subscription):
            ent, path = key.split('_', 1)
            first = path.split('.')[0]
            res['subs'].append({'key': key, 'kind': 'nested', 'exists': first in [x[0] for x in views.get(ent, {'clientProps': []})['clientProps']],
                                'binds': True, 'sig': [], 'npos': 0, 'named': []})
    finally:
        Entity.clear_subscriptions()
        logging.disable(logging.NOTSET)
    # a complete battle in strict mode
    b, exp, err = battlecheck.make_battle(game, version, 0, rich=True)
    if b is None:
        res['problems'].append(('battle', err))
        return res
    path = battlecheck.write_battle(b, 'c10')
    try:
        hidden, err = battlecheck.parse_strict(path)
    finally:
        os.unlink(path)
    if err or hidden is None:
        res['problems'].append(('battle', 'a complete battle does not parse in strict mode: %s' % err))
    else:
        bad = battle.compare_summary(hidden, exp)
        res['battle'] = {'packets': len(b.packets), 'summary_keys': sorted(hidden.keys()) if isinstance(hidden, dict) else None, 'differences': bad}
    return res


def _chain(chunk):
    """the battles of neighbouring versions parsed one after the other in one process (a version must stay consistent whatever was loaded before it)"""
    out = []
    prev = None
    for game, version in chunk:
        tag = '%s/%s' % (game, version)
        b, exp, err = battlecheck.make_battle(game, version, 0, rich=True)
        if b is None:
            continue
        path = battlecheck.write_battle(b, 'c10chain')
        try:
            hidden, err = battlecheck.parse_strict(path)
        finally:
            os.unlink(path)
        out.append((tag, prev, err if (err or hidden is None) else None, hidden is None))
        prev = tag
    return out


def part_chains(chk, versions, alone_bad):
    chunks = []
    for g in battlecheck.GAMES:
        vs = [x for x in versions if x[0] == g]
        step = 6
        for i in range(0, len(vs), step - 1):
            c = vs[i:i + step]
            if len(c) >= 2:
                chunks += [c, list(reversed(c))]
    for res in common.pmap(_chain, chunks):
        for tag, prev, err, nohidden in res:
            chk.dist('battles:chained')
            if (err or nohidden) and prev is not None and tag not in alone_bad:
                chk.report('%s: a complete battle does not parse in strict mode after %s was parsed in the same process: %s' % (tag, prev, err),
                           {'kind': 'battle-after', 'version': tag, 'after': prev, 'error': err}, key='%s:battle-after:%s' % (tag, prev))


def run(chk, drv):
    versions = battlecheck.version_dirs()
    chk.cov['rule'] = ('exhaustive: every bundled version directory x every subscription its controller registers; one complete random battle per '
                       'version in strict mode. A case = (version, subscription key); non-trivial: the target has >= 1 argument; distinct by (version, key).')
    results = common.pmap(_one, versions)
    reqs, index = [], []
    for r in results:
        for s in r['subs']:
            if s['kind'] == 'method' and s['exists']:
                reqs.append({'op': 'sig.bind', 'sig': s['sig'], 'npos': s['npos'], 'named': s['named']})
                index.append((r, s))
    replies = drv.run(reqs) if drv is not None and reqs else []
    for (r, s), m in zip(index, replies):
        s['model_binds'] = m['ok']
    n_versions = 0
    for r in results:
        n_versions += 1
        tag = '%s/%s' % (r['game'], r['version'])
        chk.dist('versions')
        for kind, what in r['problems']:
            chk.report('%s: %s' % (tag, what), {'kind': 'version', 'version': tag, 'problem': what}, key='%s:%s' % (tag, kind))
        for s in r['subs']:
            chk.count((tag, s['key']), nontrivial=(s['npos'] + len(s['named'])) >= 1,
                      sample={'version': tag, 'key': s['key'], 'signature': s['sig'], 'positional': s['npos'], 'named': s['named']} if len(chk.cov['samples']) < 3 else None)
            chk.dist('subscriptions:%s' % s['kind'])
            if not s['exists']:
                chk.report('%s subscribes to %s which does not exist in its own definitions' % (tag, s['key']),
                           {'kind': 'subscription', 'version': tag, 'key': s['key']}, key='%s:%s:missing' % (tag, s['key']))
            elif not s['binds']:
                chk.report('%s: callback for %s does not accept the declared arguments: %s' % (tag, s['key'], s.get('type_error')),
                           {'kind': 'signature', 'version': tag, 'key': s['key'], 'signature': s['sig'], 'positional': s['npos'], 'named': s['named'],
                            'type_error': s.get('type_error')}, key='%s:%s:signature' % (tag, s['key']))
            if 'model_binds' in s:
                if s['model_binds'] != s['binds']:
                    chk.broken.append('correspondence sig.bind: model %s vs inspect %s for %s %s' % (s['model_binds'], s['binds'], tag, s['key']))
                else:
                    chk.cov['traces_validated_against_impl'] += 1
        if r['battle'] is not None:
            chk.dist('battles')
            if r['battle']['differences']:
                chk.notes.append('%s: summary differs from the generated events (decided by C09): %s' % (tag, json.dumps(r['battle']['differences'])[:300]))
    part_chains(chk, versions, {'%s/%s' % (r['game'], r['version']) for r in results if r['problems']})
    chk.cov['exhaustive'] = True
    chk.cov['versions'] = n_versions


def search(chk, drv):
    pass


def replay(chk, drv, rep):
    print(json.dumps(rep['replay'], indent=1)[:2000])
    r = rep['replay']
    if 'version' in r:
        g, v = r['version'].split('/')
        print(json.dumps(_one((g, v)), indent=1, default=str)[:3000])
    return 0
