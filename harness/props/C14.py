# coding=utf-8
"""
C14 — results serialise to JSON and the CLI prints exactly one JSON document.
The command-line tool is run as a subprocess on synthetic battles for every bundled version
whose entity ids are drawn from a dictionary that includes every integer literal occurring
in the source (re-extracted with `ast` on every run) and on recordings; standard output
must be exactly one JSON document (raw_decode + only whitespace after), whatever goes to
stderr. In-process, every summary must pass the shipped encoder, and the model's
`encodable` is evaluated on the same structure.
"""
import ast
import json
import os
import subprocess

from .. import battlecheck, common
from ..impl import walk


def int_literals():
    """every integer literal in the package source, the player / core modules first"""
    first, rest = set(), set()
    roots = [os.path.join(common.REPO, 'replay_parser.py')]
    for root, dirs, files in os.walk(os.path.join(common.REPO, 'replay_unpack')):
        dirs[:] = [d for d in dirs if d != '__pycache__']
        roots += [os.path.join(root, f) for f in files if f.endswith('.py')]
    for path in roots:
        try:
            tree = ast.parse(open(path, encoding='utf-8').read())
        except SyntaxError:
            continue
        core = '/versions/' not in path
        for node in ast.walk(tree):
            if isinstance(node, ast.Constant) and type(node.value) is int:
                (first if core else rest).add(node.value)
    return sorted(first), sorted(rest - first)


def to_pyterm(o, depth=0):
    if o is None or isinstance(o, (bool, str)):
        return o
    if isinstance(o, int):
        return o
    if isinstance(o, float):
        return {'t': 'float', 'v': repr(o)}
    if isinstance(o, bytes):
        return {'t': 'bytes', 'v': o.hex()}
    if isinstance(o, list):
        return [to_pyterm(x, depth + 1) for x in o]
    if isinstance(o, tuple):
        return {'t': 'tuple', 'v': [to_pyterm(x, depth + 1) for x in o]}
    if isinstance(o, dict):
        return {'t': 'dict', 'v': [[to_pyterm(k, depth + 1), to_pyterm(v, depth + 1)] for k, v in o.items()]}
    if hasattr(o, '__dict__'):
        return {'t': 'obj', 'cls': type(o).__name__, 'v': [[str(k), to_pyterm(v, depth + 1)] for k, v in o.__dict__.items()]}
    return {'t': 'other', 'v': repr(o)[:80]}


def one_document(text):
    """is `text` exactly one JSON document (plus whitespace)?"""
    try:
        obj, end = json.JSONDecoder().raw_decode(text.lstrip())
    except ValueError as e:
        return False, 'stdout is not JSON: %s; starts with %r' % (e, text[:80])
    rest = text.lstrip()[end:]
    if rest.strip():
        return False, 'extra output after the JSON document: %r' % rest[:80]
    if not isinstance(obj, dict) or 'hidden' not in obj:
        return False, 'the document is not the result structure'
    return True, obj


def _one(args):
    game, version, seed, ids, extra_args = args[:5]
    floats = args[5] if len(args) > 5 else None
    out = {'version': '%s/%s' % (game, version), 'ids': ids, 'problems': [], 'corr': [], 'floats': floats, 'seed': seed, 'extra_args': list(extra_args)}
    from ..gen import battle as gbattle
    # non-finite floats are legal FLOAT32/FLOAT64/VECTOR values: fields the battle does not set itself carry them in some runs
    gbattle.FLOAT_BITS = {'inf': (0x7f800000, 0x7ff0000000000000), '-inf': (0xff800000, 0xfff0000000000000), 'nan': (0x7fc00000, 0x7ff8000000000000)}.get(floats)
    badmap = (floats == '-inf')        # these runs also carry an arena name that is not valid UTF-8
    if badmap:
        gbattle.ARENA_BYTES = b'spaces/08_NE_passag\xff'
    try:
        b, exp, err = battlecheck.make_battle(game, version, seed, rich=True, ids=ids)
    finally:
        gbattle.FLOAT_BITS = None
        gbattle.ARENA_BYTES = None
    if b is None:
        out['problems'].append(('setup', err))
        return out
    path = battlecheck.write_battle(b, 'c14-%s-%s' % (game, version))
    # replays are user files: their names carry clan tags in brackets, blanks, parentheses, non-ASCII letters, glob characters
    import zlib
    special = ['[KOTS] final (1)', 'sieg über*alles?', "it's {mine} & yours", '#1 100% ~x$HOME', 'бой 戦闘']
    if zlib.crc32(('%s-%s' % (game, version)).encode()) % 3 == 0:
        d0, f0 = os.path.split(path)
        named = os.path.join(d0, '%s %d.%s' % (special[zlib.crc32(version.encode()) % len(special)], os.getpid(), f0.rsplit('.', 1)[-1]))
        os.replace(path, named)
        path = named
    # '@RAW-OK' / '@RAW-BAD' stand for a writable / an unwritable target of --raw_data_output
    raw_ok = path + '.raw'
    raw_bad = os.path.join(path + '.no-such-dir', 'raw.bin')
    unwritable = '@RAW-BAD' in extra_args
    extra_args = [raw_ok if a == '@RAW-OK' else raw_bad if a == '@RAW-BAD' else a for a in extra_args]
    try:
        # standard output is captured as bytes; the document has to be UTF-8 text (the stream's encoding is pinned, not inherited)
        p = subprocess.run([common.PY, os.path.join(common.REPO, 'replay_parser.py'), '--replay', path] + extra_args,
                           cwd=common.REPO, stdout=subprocess.PIPE, stderr=subprocess.PIPE, timeout=300, env=dict(os.environ, PYTHONIOENCODING='utf-8'))
        p.stderr = p.stderr.decode('utf-8', 'replace')
        try:
            p.stdout = p.stdout.decode('utf-8')
            ok, doc = one_document(p.stdout)
        except UnicodeDecodeError as e:
            p.stdout = p.stdout.decode('utf-8', 'replace')
            ok, doc = False, 'standard output is not UTF-8 text: %s' % e
        out['stderr_bytes'] = len(p.stderr)
        if badmap and '--strict_mode' in extra_args and p.returncode != 0 and game != 'wowp':
            # strict mode is asked to fail on the undecodable map packet: nothing at all may have reached standard output
            if p.stdout.strip():
                out['problems'].append(('cli', 'strict run failing on the map packet still wrote to standard output: %r' % p.stdout[:80]))
        elif unwritable and '--strict_mode' in extra_args and p.returncode != 0:
            # strict mode is asked to fail on the unwritable dump: nothing at all may have reached standard output
            if p.stdout.strip():
                out['problems'].append(('cli', 'strict run failing on the dump still wrote to standard output: %r' % p.stdout[:80]))
        elif p.returncode != 0:
            out['problems'].append(('cli', 'the command-line tool exits with %d: %s' % (p.returncode, p.stderr.strip().split('\n')[-1][:200])))
        elif not ok:
            out['problems'].append(('cli', doc))
        elif doc.get('hidden') is None and not unwritable:
            out['problems'].append(('cli', 'the battle yields no summary (error: %r)' % doc.get('error')))
        if '--raw_data_output' in extra_args and not unwritable and not (os.path.exists(raw_ok) and os.path.getsize(raw_ok) > 0):
            out['problems'].append(('cli', 'the requested raw dump was not written'))
        # in-process: the structure itself through the encoder, and the model's verdict
        import logging
        import replay_parser
        logging.disable(logging.CRITICAL)
        try:
            info = replay_parser.ReplayParser(path, strict=False).get_info()
        finally:
            logging.disable(logging.NOTSET)
        try:
            json.dumps(info, cls=replay_parser.DefaultEncoder, ensure_ascii=False)
            dumps_ok = True
        except Exception as e:
            dumps_ok = False
            out['problems'].append(('json', 'json.dumps with the shipped encoder raises %s: %s' % (type(e).__name__, str(e)[:120])))
        try:
            m = common.Driver().run([{'op': 'json.encodable', 'term': to_pyterm(info)}])[0]
            if m['encodable'] != dumps_ok:
                out['corr'].append('model encodable=%s but json.dumps %s' % (m['encodable'], 'succeeds' if dumps_ok else 'raises'))
            out['model'] = True
        except Exception as e:
            out['corr'].append('driver: %r' % (e,))
    finally:
        os.unlink(path)
        if os.path.exists(raw_ok):
            os.unlink(raw_ok)
    return out


def _cli_recording(path):
    p = subprocess.run([common.PY, os.path.join(common.REPO, 'replay_parser.py'), '--replay', path], cwd=common.REPO,
                       stdout=subprocess.PIPE, stderr=subprocess.PIPE, text=True, timeout=600)
    ok, doc = one_document(p.stdout)
    return {'path': path, 'ok': ok and p.returncode == 0, 'what': None if ok else doc, 'rc': p.returncode}


def run(chk, drv):
    quick = chk.tier == 'quick'
    core, rest = int_literals()
    usable = [x for x in core if 0 < x < 2 ** 31] + [x for x in rest if 0 < x < 2 ** 31]
    chk.cov['int_literals'] = {'core': len(core), 'version_modules': len(rest), 'usable_as_ids': len(usable)}
    chk.cov['rule'] = ('the CLI as a subprocess on one synthetic battle per bundled version (thorough: enough battles to use every integer literal of the '
                       'source as an entity id) and on recordings; a case = one CLI run; non-trivial: the run yields a summary; distinct by (version, ids).')
    versions = [v for v in battlecheck.version_dirs() if v != ('wowp', '0_3_3')]
    jobs = []
    per = 5
    rounds = 1 if quick else max(1, (len(usable) + per * len(versions) - 1) // (per * len(versions)))
    k = 0
    for r in range(rounds):
        for i, (g, v) in enumerate(versions):
            # core literals (player.py, packets, ...) are cycled through first: every run uses some
            ids = []
            for _ in range(per):
                ids.append(usable[k % len(usable)] if usable else 1000 + k)
                k += 1
            ids = list(dict.fromkeys(ids))
            while len(ids) < per:
                ids.append(900000 + len(ids) + k)
            extra = ['--strict_mode'] if i % 3 == 1 else (['--log_level', 'DEBUG'] if i % 3 == 2 and i % 9 == 2 else [])
            if i % 7 == 3:
                extra = extra + ['--raw_data_output', '@RAW-OK']
            elif i % 7 == 5:
                extra = extra + ['--raw_data_output', '@RAW-BAD']
            jobs.append((g, v, '%s-%d' % (chk.seed, r), ids, extra, [None, 'nan', 'inf', None, '-inf'][(i + r) % 5]))
    # the literals of the non-version modules are few: make sure each is used at least once even in the quick tier
    core_ids = [x for x in core if 0 < x < 2 ** 31]
    for j in range(0, len(core_ids), per):
        g, v = versions[(j // per) % len(versions)]
        ids = list(dict.fromkeys(core_ids[j:j + per]))
        while len(ids) < per:
            ids.append(910000 + len(ids) + j)
        jobs.append((g, v, 'core-%d' % j, ids, []))
    results = common.pmap(_one, jobs)
    for r in results:
        chk.count((r['version'], tuple(r['ids'])), nontrivial=not r['problems'], sample={'version': r['version'], 'ids': r['ids'], 'stderr_bytes': r.get('stderr_bytes')} if len(chk.cov['samples']) < 3 else None)
        chk.dist('cli_runs')
        for kind, what in r['problems']:
            if kind == 'setup':
                chk.notes.append('%s: %s' % (r['version'], what))
            else:
                chk.report('%s with entity ids %s%s: %s' % (r['version'], r['ids'], (' and %s in unused float fields' % r['floats']) if r.get('floats') else '', what),
                           {'kind': 'cli', 'version': r['version'], 'ids': r['ids'], 'floats': r.get('floats'), 'seed': r.get('seed'), 'extra_args': r.get('extra_args'), 'what': what})
        for c in r['corr']:
            chk.broken.append('correspondence json.encodable (%s): %s' % (r['version'], c))
        if r.get('model') and not r['corr']:
            chk.cov['traces_validated_against_impl'] += 1
    from .C03 import pick_recordings
    for r in common.pmap(_cli_recording, pick_recordings(chk, 3 if quick else 1000, small=quick)):
        name = os.path.basename(r['path'])
        chk.count(('rec', name), True)
        chk.dist('cli_recordings')
        if not r['ok']:
            chk.report('recording %s: CLI output is not exactly one JSON document: %s (exit %s)' % (name, r['what'], r['rc']),
                       {'kind': 'cli-recording', 'file': os.path.relpath(r['path'], common.REPO)})
    chk.assumptions.append('the json module and process I/O are outside the model; roster values are ints/strings/bools (dict keys inside unpickled data are not generated)')


def search(chk, drv):
    pass


def replay(chk, drv, rep):
    r = rep['replay']
    print(json.dumps(r)[:1500])
    if r.get('kind') == 'cli':
        g, v = r['version'].split('/')
        print(_one((g, v, r.get('seed', 'replay'), r['ids'], r.get('extra_args', []), r.get('floats'))))
    return 0
