# coding=utf-8
"""
C16 — the library's own writers and readers are mutual inverses.

Writable type trees x values (representable and deliberately unrepresentable) go through
the real write_to_stream then create_from_stream on the same BytesIO; bytes and outcome
are compared with the model's writer, and the property itself (write/read-back/refusal)
is evaluated on the implementation alone.
"""
import copy
import io
import json
import os

from .. import common
from ..gen import types as gt
from ..impl import codec
from .C03 import strip


def make_unrepresentable(rng, t, v):
    """returns (value, why) with the same shape as a value of t but not representable, or None"""
    k = t['k']
    if k == 'int':
        bits = 8 * t['size']
        lo, hi = (-(1 << (bits - 1)), (1 << (bits - 1)) - 1) if t['signed'] else (0, (1 << bits) - 1)
        return rng.choice([lo - 1, hi + 1, hi + 1000, lo - (1 << 70)]), 'int out of range'
    if k == 'vec':
        return {'vec': v['vec'] + [0]}, 'vector with an extra component'
    if k == 'mailbox':
        return {'mb': [v['mb'][0], rng.choice([65536, 70000])]}, 'port out of range'
    if k == 'array':
        if t['size'] is not None:
            if rng.random() < 0.5 or not v:
                return v + [quiet(t['of'], gt.gen_value(rng, t['of'], big_ok=False))], 'fixed-size array with an extra element'
            return v[:-1], 'fixed-size array with a missing element'
        if not gt.is_nested(t['of']) or rng.random() < 0.3:
            if rng.random() < 0.5:
                return [quiet(t['of'], gt.gen_value(rng, t['of'], big_ok=False)) for _ in range(256)], 'counted array of 256 elements'
        if v:
            r = make_unrepresentable(rng, t['of'], v[0])
            if r:
                return [r[0]] + v[1:], 'array element: ' + r[1]
        return None
    if k == 'dict':
        if v is None:
            return None
        r = rng.random()
        if r < 0.25 and not t['allowNone']:
            return None, 'None for a dict without AllowNone'
        if r < 0.5:
            return {'d': v['d'] + [['extra_key', 0]]}, 'dict with an extra field'
        if r < 0.75 and len(v['d']) >= 1:
            return {'d': v['d'][:-1]}, 'dict with a missing field'
        for i, ((nm, f), x) in enumerate(zip(t['fields'], v['d'])):
            rr = make_unrepresentable(rng, f, x[1])
            if rr:
                d = copy.deepcopy(v['d'])
                d[i][1] = rr[0]
                return {'d': d}, 'dict field: ' + rr[1]
        return None
    return None


def quiet(t, v):
    """float32 signalling NaNs become quiet when they pass through a Python float (IEEE /
    CPU behaviour, not the library's): keep generated values inside the float32-representable
    doubles"""
    k = t['k']
    if v is None:
        return v
    if k == 'f32':
        b = v['f32']
        return {'f32': b | 0x00400000 if codec.is_nan32(b) else b}
    if k == 'vec':
        return {'vec': [b | 0x00400000 if codec.is_nan32(b) else b for b in v['vec']]}
    if k == 'array':
        return [quiet(t['of'], x) for x in v]
    if k == 'dict':
        return {'d': [[x[0], quiet(f, x[1])] for (nm, f), x in zip(t['fields'], v['d'])]}
    return v


def py_of(t, v):
    """like codec.to_py but tolerant of deliberately ill-shaped values"""
    k = t['k']
    try:
        if k == 'array' and isinstance(v, list):
            return [py_of(t['of'], x) for x in v]
        if k == 'dict' and isinstance(v, dict) and 'd' in v:
            fields = dict((nm, f) for nm, f in t['fields'])
            items = [(x[0], (py_of(fields[x[0]], x[1]) if x[0] in fields else x[1])) for x in v['d']]
            # a dict is the same value whatever order its keys were inserted in: half of the dict payloads are handed over with the keys
            # in another order than the definition lists them (by content, so that a replay rebuilds the same object)
            if len(items) > 1 and sum(len(nm) for nm, _ in items) % 2 == 0:
                items = items[1:] + items[:1] if len(items) % 2 else items[::-1]
            return dict(items)
        if k == 'vec':
            import struct
            return tuple(struct.unpack('<f', struct.pack('<I', x))[0] for x in v['vec'])
        return codec.to_py(t, v)
    except Exception:
        return codec.to_py(t, v)


def as_property(obj, t):
    """the public wrapper of a type inside a definition: a property, with the default value a definition may declare"""
    from lxml import etree
    from replay_unpack.core.entity_def.base_definition import Property
    default = None
    if t['k'] == 'int':
        default = etree.fromstring('<Default> 7 </Default>')
    elif t['k'] == 'string':
        default = etree.fromstring('<Default>dflt</Default>')
    try:
        return Property('p', obj, 'ALL_CLIENTS', default)
    except Exception:
        return Property('p', obj, 'ALL_CLIENTS')


def impl_write_read(obj, t, pv, h):
    s = io.BytesIO()
    # with the default header size, every other case goes through the Property wrapper (the public API the property names)
    via_prop = h == 1 and (len(json.dumps(t)) % 2 == 0)
    if via_prop:
        try:
            obj = as_property(obj, t)
        except Exception:
            via_prop = False
    try:
        if via_prop:
            obj.write_to_stream(s, pv)
        else:
            obj.write_to_stream(s, pv, h)
    except Exception as e:
        return {'err': codec.err_class(e)}
    data = s.getvalue()
    s.seek(0)
    try:
        back = obj.create_from_stream(s) if via_prop else obj.create_from_stream(s, h)
        return {'ok': data.hex(), 'back': codec.canon_py(t, back), 'left': len(data) - s.tell()}
    except Exception as e:
        return {'ok': data.hex(), 'backErr': codec.err_class(e)}


def run_cases(chk, drv, cases, label):
    """cases: (t, obj, value, h, representable, why)"""
    reqs = [{'op': 'codec.write', 'ty': t, 'h': h, 'val': v} for (t, obj, v, h, rep, why) in cases]
    replies = drv.run(reqs) if drv is not None else [None] * len(cases)
    for i, ((t, obj, v, h, rep, why), m) in enumerate(zip(cases, replies)):
        pv = py_of(t, v)
        got = impl_write_read(obj, t, pv, h)
        kinds = gt.type_kinds(t)
        for k in kinds:
            chk.dist('%s:kind:%s' % (label, k), kinds[k])
        chk.dist('%s:%s' % (label, 'representable' if rep else 'unrepresentable'))
        chk.dist('%s:impl:%s' % (label, 'ok' if 'ok' in got else 'refused-' + got['err']))
        chk.count((json.dumps(t, sort_keys=True), json.dumps(v, sort_keys=True), h), gt.is_nested(t) or not rep,
                  sample={'ty': t, 'val': v, 'h': h, 'representable': rep, 'impl': got} if i < 2 and len(json.dumps(v)) < 300 else None)
        # ---- property on the implementation alone
        if rep:
            want = codec.canon_model(t, v)
            if 'err' in got:
                chk.report('a representable value is refused by the writer', {'kind': 'write', 'ty': t, 'val': v, 'h': h, 'impl': got})
            elif got.get('back') != want or got.get('left') != 0:
                key = None
                if why == 'string-bytes-valid-utf8':
                    key = 'string-bytes-valid-utf8'
                chk.report('write then read does not give the value back / does not consume exactly what was written',
                           {'kind': 'write', 'ty': t, 'val': v, 'h': h, 'impl': got, 'expected_back': want}, key=key)
        else:
            if 'ok' in got:
                chk.report('an unrepresentable value (%s) is written instead of refused' % why,
                           {'kind': 'write', 'ty': t, 'val': v, 'h': h, 'impl': got, 'why': why})
        # ---- None is a value like any other: only an AllowNone dict can hold it (probed through both the type and the property wrapper)
        if i % 4 == 0 and not (t['k'] == 'dict' and t.get('allowNone')):
            for wrapper in (obj, None):
                try:
                    w = wrapper if wrapper is not None else as_property(obj, t)
                    s0 = io.BytesIO()
                    if wrapper is not None:
                        w.write_to_stream(s0, None, h)
                    else:
                        w.write_to_stream(s0, None)
                    chk.report('None is written as %s by a %s that cannot hold it' % (s0.getvalue().hex()[:40], 'type' if wrapper is not None else 'property of that type'),
                               {'kind': 'write-none', 'ty': t, 'h': h, 'via': 'type' if wrapper is not None else 'property', 'bytes': s0.getvalue().hex()[:200]})
                except Exception:
                    chk.dist('%s:none-refused' % label)
        # ---- correspondence
        if m is not None:
            if ('ok' in m) != ('ok' in got) or ('ok' in m and m['ok'] != got['ok']):
                chk.broken.append('correspondence codec.write: model %s vs implementation %s on %s' % (
                    json.dumps(m)[:200], json.dumps(got)[:200], json.dumps({'ty': t, 'val': v, 'h': h})[:400]))
            else:
                chk.cov['traces_validated_against_impl'] += 1


def gen_cases(chk, n_types, vals):
    rng = chk.rng
    done = 0
    out = []
    while done < n_types:
        trees = [gt.gen_type(rng, depth=rng.choice([0, 1, 2, 3, 5]), writable=True, width=rng.choice([2, 4, 6])) for _ in range(40)]
        ad = codec.AliasDir('c16')
        try:
            objs = ad.load(trees, rng)
        finally:
            ad.cleanup()
        for t, obj in zip(trees, objs):
            st = strip(t)
            for _ in range(vals):
                v = quiet(st, gt.gen_value(rng, st))
                h = rng.choice([1, 2])
                out.append((st, obj, v, h, True, ''))
                if rng.random() < 0.5:
                    r = make_unrepresentable(rng, st, v)
                    if r is not None:
                        out.append((st, obj, r[0], h, False, r[1]))
        done += len(trees)
    return out


def method_cases(chk, drv, n):
    from replay_unpack.core.entity_def.entity_description import EntityMethod, MethodArgument
    rng = chk.rng
    for _ in range(n // 20):
        trees = [gt.gen_type(rng, depth=2, writable=True, width=3) for _ in range(20)]
        ad = codec.AliasDir('c16m')
        try:
            objs = ad.load(trees, rng)
        finally:
            ad.cleanup()
        reqs, metas = [], []
        for _ in range(20):
            k = rng.randint(0, 4)
            idx = [rng.randrange(len(trees)) for _ in range(k)]
            named = rng.random() < 0.5
            h = rng.choice([1, 2])
            m = EntityMethod('m', True, [MethodArgument(objs[i], name=('a%d' % j if named else None)) for j, i in enumerate(idx)], h)
            tys = [strip(trees[i]) for i in idx]
            vals = [quiet(t, gt.gen_value(rng, t, big_ok=False)) for t in tys]
            arity_bad = rng.random() < 0.2
            if arity_bad:
                if vals and rng.random() < 0.5:
                    vals = vals[:-1]
                else:
                    vals = vals + [0]
            metas.append((m, tys, vals, h, named, arity_bad))
            reqs.append({'op': 'codec.writeArgs', 'tys': tys, 'h': h, 'vals': vals})
        replies = drv.run(reqs) if drv is not None else [None] * len(reqs)
        for (m, tys, vals, h, named, arity_bad), mr in zip(metas, replies):
            s = io.BytesIO()
            pv = [py_of(t, v) if i < len(tys) else v for i, (t, v) in enumerate(zip(tys + [None] * len(vals), vals))]
            try:
                m.write_to_stream(s, *pv)
                data = s.getvalue()
                s.seek(0)
                args, kwargs = m.create_from_stream(s)
                back = list(kwargs.values()) if named else args
                if named and list(kwargs.keys()) != ['a%d' % j for j in range(len(tys))]:
                    raise AssertionError('keyword names')
                if (not named and kwargs) or (named and args):
                    raise AssertionError('positional/keyword split')
                got = {'ok': data.hex(), 'back': [codec.canon_py(t, b) for t, b in zip(tys, back)], 'left': len(data) - s.tell()}
            except Exception as e:
                got = {'err': codec.err_class(e)}
            chk.count(('method', json.dumps(tys), json.dumps(vals), h), len(tys) >= 2)
            chk.dist('method:%s' % ('arity-mismatch' if arity_bad else 'ok'))
            if arity_bad:
                if 'ok' in got:
                    chk.report('EntityMethod.write_to_stream accepts a wrong number of arguments', {'kind': 'method', 'tys': tys, 'vals': vals})
            else:
                want = [codec.canon_model(t, v) for t, v in zip(tys, vals)]
                if got.get('back') != want or got.get('left') != 0:
                    chk.report('method arguments written and read back differ', {'kind': 'method', 'tys': tys, 'vals': vals, 'h': h, 'impl': got})
            if mr is not None:
                mm = dict(mr)
                if 'back' in mm:
                    mm['back'] = [codec.canon_model(t, v) for t, v in zip(tys, mm['back'])]
                if ('ok' in mm) != ('ok' in got) or ('ok' in mm and mm != got):
                    chk.broken.append('correspondence codec.writeArgs: model %s vs implementation %s' % (json.dumps(mm)[:300], json.dumps(got)[:300]))
                else:
                    chk.cov['traces_validated_against_impl'] += 1


def method_sequences(chk, drv, n):
    """several calls written through ONE EntityMethod object into one stream (longer argument lists first, then shorter ones, with a refused
    call in between), then read back in order: each call must come back as written and the bytes must be the concatenation of the single
    encodings -- writers may not carry anything over from one call to the next"""
    from replay_unpack.core.entity_def.entity_description import EntityMethod, MethodArgument
    rng = chk.rng
    for _ in range(max(1, n // 10)):
        trees = [gt.gen_type(rng, depth=2, writable=True, width=3) for _ in range(10)]
        ad = codec.AliasDir('c16s')
        try:
            objs = ad.load(trees, rng)
        finally:
            ad.cleanup()
        for _ in range(10):
            k = rng.randint(1, 3)
            idx = [rng.randrange(len(trees)) for _ in range(k)]
            h = rng.choice([1, 2])
            named = rng.random() < 0.5
            m = EntityMethod('m', True, [MethodArgument(objs[i], name=('a%d' % j if named else None)) for j, i in enumerate(idx)], h)
            tys = [strip(trees[i]) for i in idx]
            calls = [[quiet(t, gt.gen_value(rng, t, big_ok=False)) for t in tys] for _ in range(rng.randint(2, 4))]
            singles = []
            for vals in calls:
                one = io.BytesIO()
                EntityMethod('m', True, [MethodArgument(objs[i], name=None) for i in idx], h).write_to_stream(one, *[py_of(t, v) for t, v in zip(tys, vals)])
                singles.append(one.getvalue())
            order = sorted(range(len(calls)), key=lambda i: -len(singles[i]))       # longest first
            s = io.BytesIO()
            problem = None
            try:
                for pos, ci in enumerate(order):
                    m.write_to_stream(s, *[py_of(t, v) for t, v in zip(tys, calls[ci])])
                    if pos == 0:
                        try:
                            m.write_to_stream(s, *([py_of(t, v) for t, v in zip(tys, calls[ci])] + [0]))      # refused: wrong arity
                            problem = 'a call with one argument too many was accepted'
                        except Exception:
                            pass
                    # a call refused *late* (an unrepresentable value in a later argument or deep inside one), written through the same
                    # method object into a scratch stream: whatever the writer had prepared for it must not reach the next call
                    if rng.random() < 0.7:
                        js = list(range(len(tys)))
                        rng.shuffle(js)
                        js.sort(key=lambda j: j == 0)                      # later arguments first
                        for j in js:
                            bad = make_unrepresentable(rng, tys[j], calls[ci][j])
                            if bad:
                                vals = list(calls[ci])
                                vals[j] = bad[0]
                                try:
                                    m.write_to_stream(io.BytesIO(), *[py_of(t, v) for t, v in zip(tys, vals)])
                                except Exception:
                                    chk.dist('method-sequences:late-refusal')
                                break
                data = s.getvalue()
                if data != b''.join(singles[i] for i in order):
                    problem = problem or 'the bytes of %d calls through one method object are not the concatenation of the single encodings (%d vs %d bytes)' % (
                        len(order), len(data), sum(len(singles[i]) for i in order))
                s.seek(0)
                for ci in order:
                    args, kwargs = m.create_from_stream(s)
                    back = list(kwargs.values()) if named else args
                    if [codec.canon_py(t, b) for t, b in zip(tys, back)] != [codec.canon_model(t, v) for t, v in zip(tys, calls[ci])]:
                        problem = problem or 'call %d of the sequence reads back differently' % ci
                if s.read() != b'':
                    problem = problem or 'bytes are left after reading all calls back'
            except Exception as e:
                problem = problem or 'writing / reading a sequence of representable calls raised %s' % codec.err_class(e)
            chk.count(('method-seq', json.dumps(tys), json.dumps(calls), h), len(calls) >= 2)
            chk.dist('method-sequences')
            if problem:
                chk.report('method calls written one after the other: %s' % problem, {'kind': 'method-seq', 'tys': tys, 'calls': calls, 'h': h, 'order': order})


def probes(chk, drv):
    """fixed probes incl. the recorded known finding and the 2^24 boundary"""
    from replay_unpack.core.entity_def.data_types import String, Blob
    t = {'k': 'string'}
    run_cases(chk, drv, [(t, String(), {'b': b'abc'.hex()}, 1, True, 'string-bytes-valid-utf8')], 'probe')
    for cls, t in ((Blob, {'k': 'blob'}), (String, {'k': 'string'})):
        big = b'\xff' * (1 << 24)
        s = io.BytesIO()
        try:
            cls().write_to_stream(s, big)
            chk.report('a %s of 2^24 bytes is written although its length does not fit the packed length' % t['k'], {'kind': 'write-big', 'ty': t, 'len': 1 << 24})
        except Exception:
            pass
        ok = bytes(b'\xfe' * ((1 << 24) - 1))
        s = io.BytesIO()
        cls().write_to_stream(s, ok)
        s.seek(0)
        back = cls().create_from_stream(s)
        if back != ok or s.read() != b'':
            chk.report('%s of 2^24-1 bytes does not survive write/read' % t['k'], {'kind': 'write-big', 'ty': t, 'len': (1 << 24) - 1})
        chk.count(('big', t['k']), True)


def run(chk, drv):
    quick = chk.tier == 'quick'
    chk.cov['rule'] = ('(writable type tree, value, header size): values are representable (generated from the type, incl. non-ASCII text, lengths '
                       'across 255/65535, None, empty/maximal arrays, extreme numbers) or deliberately unrepresentable (out-of-range numbers, wrong '
                       'lengths, missing/extra fields); method argument lists with right and wrong arity. Non-trivial: nested/variable-length type or '
                       'an unrepresentable value. Distinct by (type, value, h).')
    cdir = os.path.join(common.VERIF, 'corpus', 'C16')
    if os.path.isdir(cdir):
        for fn in sorted(os.listdir(cdir)):
            for line in open(os.path.join(cdir, fn)):
                if line.strip():
                    c = json.loads(line)
                    ad = codec.AliasDir('c16c')
                    try:
                        obj = ad.load([c['ty']])[0]
                    finally:
                        ad.cleanup()
                    run_cases(chk, drv, [(c['ty'], obj, c['val'], c['h'], c['representable'], c.get('why', ''))], 'corpus')
    probes(chk, drv)
    run_cases(chk, drv, gen_cases(chk, 400 if quick else 6000, 4 if quick else 8), 'gen')
    method_cases(chk, drv, 200 if quick else 4000)
    method_sequences(chk, drv, 100 if quick else 2000)
    chk.assumptions.append('value domain = the Python types the readers produce (int, float, tuple, bytes, str, list, dict, None, (ip, port)); Float32 values are float32-representable; mailbox addresses are canonical dotted quads')


def search(chk, drv):
    run_cases(chk, None, gen_cases(chk, 200, 4), 'search')


def replay(chk, drv, rep):
    r = rep['replay']
    print(json.dumps(r, indent=1)[:3000])
    if r.get('kind') == 'write':
        ad = codec.AliasDir('c16r')
        try:
            obj = ad.load([r['ty']])[0]
        finally:
            ad.cleanup()
        print('impl now :', impl_write_read(obj, r['ty'], py_of(r['ty'], r['val']), r['h']))
        if drv:
            print('model    :', drv.run([{'op': 'codec.write', 'ty': r['ty'], 'h': r['h'], 'val': r['val']}])[0])
    return 0
