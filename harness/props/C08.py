# coding=utf-8
"""
C08 — entity pose follows the position packets addressed to it.
Interleavings of creation / Position / PlayerPosition over several entities of equal and
different types, ids equal / unequal / zero / unknown, arbitrary float bit patterns; poses
compared after each packet (model vs implementation) and against a dict id -> last pose
kept by the generator. All position packets of the chosen recordings (final poses).
"""
from .. import common, histcheck
from . import recworld

WEIGHTS = dict(base=1, cell=1, create=5, prop=1, method=0, garbage=0, position=10, ppos=10, map=0, noise=2, nested=0)


def run(chk, drv):
    quick = chk.tier == 'quick'
    chk.cov['rule'] = ('interleavings of creation, position and own-player-position packets; non-trivial: >= 2 entities and >= 1 pose-writing '
                       'packet; distinct by (definition set, history)')
    n_sets = 50 if quick else 800
    cfgs = [dict(seed_key='C08-%s-%d' % (chk.seed, i), dialects=['wowsOld', 'wowsNew', 'wot'], n_hist=3,
                 n_events=50 if i % 2 == 0 else 200, every=(i % 2 == 0), weights=WEIGHTS, strict=False, want_sample=(i == 0),
                 fields=['entities'], entity_fields=['volatile']) for i in range(n_sets)]
    histcheck.run_batches(chk, cfgs, 'gen', 'entity pose differs from the last pose-writing packet addressed to it',
                          nontrivial=lambda c: c['entities'] >= 2 and (c['kinds'].get('position', 0) + c['kinds'].get('ppos', 0)) >= 1)
    recworld.run(chk, drv, 3 if quick else 1000, compare=('volatile',))


def search(chk, drv):
    cfgs = [dict(seed_key='C08s-%s-%d' % (chk.seed, i), dialects=['wowsOld', 'wowsNew', 'wot'], n_hist=3, n_events=80,
                 every=False, weights=WEIGHTS, strict=False, fields=['entities'], entity_fields=['volatile']) for i in range(80)]
    histcheck.run_batches(chk, cfgs, 'search', 'entity pose differs from the last pose-writing packet addressed to it')


def replay(chk, drv, rep):
    return histcheck.replay_history(chk, drv, rep)
