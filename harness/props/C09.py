# coding=utf-8
"""
C09 — the battle summary is a faithful function of the recorded events.
For every bundled version: synthetic battles (random rosters, deaths, damage batches,
achievements, ribbons, plane kills, roster updates / mid-battle joins, with and without a
battle end) encoded against that version's own definitions and packet numbering, parsed by
ReplayParser(strict=True); the summary (through the shipped encoder) is compared with the
controller model's fold of the same events and with the generator's own naive fold.
"""
import json
import os

from .. import battlecheck, common, xmltree
from ..gen import battle, history


def _one(args):
    game, version, seed, n = args
    out = {'game': game, 'version': version, 'cases': [], 'problems': []}
    drv = None
    try:
        drv = common.Driver()
    except Exception:
        pass
    # the version's own definitions loaded into the model: it decodes the battle's bytes itself
    defs_loaded = False
    if drv is not None:
        try:
            vdir = os.path.join(common.REPO, 'replay_unpack', 'clients', game, 'versions', version)
            rep = drv.run([xmltree.load_request('V', xmltree.load_dir(vdir), brief=True)])[0]
            defs_loaded = 'ok' in rep
            load_req = xmltree.load_request('V', xmltree.load_dir(vdir), brief=True)
        except Exception:
            defs_loaded = False
    for k in range(n):
        b, exp, err = battlecheck.make_battle(game, version, '%s-%d' % (seed, k), rich=True)
        if b is None:
            out['problems'].append(('setup', err, None))
            break
        path = battlecheck.write_battle(b, 'c09')
        try:
            hidden, perr = battlecheck.parse_strict(path)
        finally:
            os.unlink(path)
        kinds = {}
        for e in b.trace:
            kinds[e[0]] = kinds.get(e[0], 0) + 1
        case = {'version': '%s/%s' % (game, version), 'packets': len(b.packets), 'events': kinds, 'seed': '%s-%d' % (seed, k)}
        out['cases'].append(case)
        rep = {'kind': 'battle', 'game': game, 'version': version, 'seed': '%s-%d' % (seed, k), 'trace': b.trace}
        if perr:
            out['problems'].append(('oracle', 'battle does not parse in strict mode: %s' % perr, rep))
            continue
        bad = battle.compare_summary(hidden, exp)
        if bad:
            out['problems'].append(('oracle', 'summary differs from the events: %s' % json.dumps(bad)[:400], rep))
        if drv is not None:
            m = drv.run([{'op': 'controller.summary', 'events': b.trace}])[0]['ok']
            mexp = battle.model_expectation(m, exp, version)
            mbad = battle.compare_summary(hidden, mexp)
            if mbad and not bad:
                out['problems'].append(('corr', 'controller model vs implementation: %s' % json.dumps(mbad)[:400], rep))
            case['model'] = not mbad
            # bytes -> (model: decode with the version's definitions, extract the callbacks' events, fold) vs the trace the bytes were
            # generated from and vs the implementation's summary
            if defs_loaded and game == 'wows':
                ms = drv.run([load_req, {'op': 'summary.fromStream', 'defs': 'V', 'dialect': battle.dialect_for(game, version), 'strict': True,
                                         'stream': history.stream_of(b.packets).hex()}])[1]
                typed = [e for e in b.trace if e[0] in ('death', 'achievement') or (e[0] == 'battleEnd' and ms.get('events') and any(x[0] == 'battleEnd' for x in ms['events']))]
                got = [e for e in ms.get('events', []) if e[0] in ('death', 'achievement', 'battleEnd')]
                # newer versions credit an achievement to the avatar found through the (pickled, external) roster: only the order and the
                # achievement ids are comparable there
                strip = lambda evs: [[e[0], None, e[2]] if e[0] == 'achievement' else e for e in evs]
                if got != typed and strip(got) == strip(typed):
                    got, typed = strip(got), strip(typed)
                sbad = None
                if ms.get('end') != 'finished':
                    sbad = 'the model does not play the battle to the end: %s' % json.dumps({kk: ms.get(kk) for kk in ('end', 'err', 'index')})
                elif got != typed:
                    sbad = 'events the model extracts from the bytes differ from the generated trace: %s vs %s' % (json.dumps(got)[:200], json.dumps(typed)[:200])
                elif isinstance(hidden, dict) and [list(d) for d in hidden.get('death_map', [])] != ms['deaths']:
                    sbad = 'death_map: implementation %s vs model-from-bytes %s' % (json.dumps(hidden.get('death_map'))[:200], json.dumps(ms['deaths'])[:200])
                elif isinstance(hidden, dict) and (hidden.get('player_id') != ms['playerId'] or
                                                   (hidden.get('arena_id') is not None and hidden.get('arena_id') != ms['arenaId'])):
                    # (controllers before 0.9.2 do not report an arena id at all)
                    sbad = 'player / arena id: implementation %s/%s vs model-from-bytes %s/%s' % (hidden.get('player_id'), hidden.get('arena_id'), ms['playerId'], ms['arenaId'])
                if sbad and not bad:
                    out['problems'].append(('corr', 'summary from the stream: %s' % sbad, rep))
                case['from_stream'] = sbad is None
        if k == 0 and version.endswith('0'):
            case['sample'] = {'version': case['version'], 'events': kinds,
                              'summary_excerpt': {kk: hidden.get(kk) for kk in ('player_id', 'map', 'death_map', 'battle_result') if isinstance(hidden, dict)}}
    return out


def run(chk, drv):
    quick = chk.tier == 'quick'
    n = 2 if quick else 20
    versions = [v for v in battlecheck.version_dirs() if v != ('wowp', '0_3_3')]
    chk.cov['rule'] = ('synthetic battles per bundled version (%d each): a case = (version, battle); non-trivial: the battle has events of >= 3 kinds '
                       'the controller aggregates; distinct by (version, battle seed). Recordings are covered by C05/C07 (trace and world).' % n)
    results = common.pmap(_one, [(g, v, chk.seed, n) for g, v in versions])
    for r in results:
        for c in r['cases']:
            chk.count((c['version'], c['seed']), nontrivial=len(c['events']) >= 3, sample=c.get('sample') if len(chk.cov['samples']) < 3 else None)
            chk.dist('battles')
            chk.dist('game:%s' % r['game'])
            for k, v in c['events'].items():
                chk.dist('event:%s' % k, v)
            if c.get('model'):
                chk.cov['traces_validated_against_impl'] += 1
            if c.get('from_stream'):
                chk.dist('summary_from_stream_by_model')
        for kind, what, rep in r['problems']:
            tag = '%s/%s' % (r['game'], r['version'])
            if kind == 'oracle':
                chk.report('%s: %s' % (tag, what), rep)
            elif kind == 'corr':
                chk.broken.append('correspondence controller.summary (%s): %s' % (tag, what))
            else:
                chk.notes.append('%s: %s' % (tag, what))
    chk.cov['versions'] = len(versions)
    chk.assumptions += ['pickle.loads and json are external; pickled roster data is produced by the harness with protocol 2',
                        'per-version argument shapes / key mappings are resolved by the generator (DESIGN appendix C); the model covers the fold all variants share']


def search(chk, drv):
    versions = [v for v in battlecheck.version_dirs() if v != ('wowp', '0_3_3')]
    results = common.pmap(_one, [(g, v, 'search-%s' % chk.seed, 3) for g, v in versions])
    for r in results:
        for kind, what, rep in r['problems']:
            if kind == 'oracle':
                chk.report('%s/%s: %s' % (r['game'], r['version'], what), rep)


def replay(chk, drv, rep):
    r = rep['replay']
    print(json.dumps({k: v for k, v in r.items() if k != 'trace'}))
    res = _one((r['game'], r['version'], r['seed'].rsplit('-', 1)[0], int(r['seed'].rsplit('-', 1)[1]) + 1))
    for p in res['problems']:
        print(p[0], p[1][:600])
    return 0
