# coding=utf-8
"""
C05 — entity state equals a last-writer-wins replay of creation and property packets.
Generated definition sets + histories (many entities per type, re-creation, partial
property sets, updates before/after, all four dialects) encoded by the harness, played by
the real ReplayPlayer subclasses with a recording controller and by the model; world dumps
compared after every packet (short histories) / at the end (long ones), and against the
plain dict-of-dicts LWW interpreter. Real recordings: final world of the implementation vs
the model as independent decoder.
"""
from .. import common, histcheck
from . import recworld

WEIGHTS = dict(base=2, cell=2, create=8, prop=12, method=2, garbage=1, position=1, ppos=1, map=1, noise=3, nested=2)


def run(chk, drv):
    quick = chk.tier == 'quick'
    chk.cov['rule'] = ('packet histories over generated definition sets, 4 dialects in rotation; non-trivial: >= 2 entities and >= 1 overwrite '
                       '(property update or re-creation); distinct by (definition set, history). Real recordings: one case per recording.')
    n_sets = 40 if quick else 600
    cfgs = [dict(seed_key='C05-%s-%d' % (chk.seed, i), dialects=['wowsOld', 'wowsNew', 'wot', 'wowp'], n_hist=4,
                 n_events=40 if i % 2 == 0 else 150, every=(i % 2 == 0), weights=WEIGHTS, strict=False, want_sample=(i == 0),
                 fields=['entities', 'playerId'], entity_fields=['client', 'base']) for i in range(n_sets)]
    histcheck.run_batches(chk, cfgs, 'gen', 'entity state differs from the last-writer-wins replay',
                          nontrivial=lambda c: c['entities'] >= 2 and (c['kinds'].get('prop', 0) + c['kinds'].get('create', 0)) >= 2)
    recworld.run(chk, drv, 4 if quick else 1000, compare=('client', 'base', 'cell'))


def search(chk, drv):
    cfgs = [dict(seed_key='C05s-%s-%d' % (chk.seed, i), dialects=['wowsOld', 'wowsNew', 'wot', 'wowp'], n_hist=4, n_events=60,
                 every=False, weights=WEIGHTS, strict=False, fields=['entities', 'playerId'], entity_fields=['client', 'base'],
                 _no_model=True) for i in range(60)]
    histcheck.run_batches(chk, cfgs, 'search', 'entity state differs from the last-writer-wins replay')


def replay(chk, drv, rep):
    return histcheck.replay_history(chk, drv, rep)
