# coding=utf-8
"""
C17 — bit-field arithmetic is exact.
Tie: exhaustive enumeration of BitReader.bits_required over [0, 2^22] (quick) /
[0, 2^26] (thorough) against the model's breakpoint table; BitReader.get / get_rest on
random byte strings with width sequences 0..32 against the model's reader.
Oracle (implementation only): integer ceil-log2 and an independent bit-string cut.
"""
import io
import json
import os

from .. import common


def _impl():
    common.repo_on_path()
    from replay_unpack.core.entity_def.bit_reader import BitReader
    return BitReader


def spec_bits(n):
    """integer specification: 0 for n <= 1 else ceil(log2 n)"""
    return 0 if n <= 1 else (n - 1).bit_length()


def _scan_range(args):
    lo, hi = args
    BitReader = _impl()
    f = BitReader.bits_required
    bad = []
    n = lo
    while n < hi:
        # expected value is constant on (2^k, 2^(k+1)]
        e = spec_bits(n)
        top = min(hi, (1 << e) + 1) if n > 1 else min(hi, 2)
        for m in range(n, top):
            try:
                v = f(m)
            except Exception as ex:  # noqa
                v = 'exc:%s' % type(ex).__name__
            if v != e:
                bad.append((m, v, e))
                if len(bad) > 5:
                    return bad
        n = top
    return bad


def impl_read(data, widths, via_stream):
    BitReader = _impl()
    if via_stream == 2:
        # a stream the caller has already read a header from: the reader starts at the stream's current position
        lead = bytes((len(data) * 7 + k) & 0xff for k in range(1 + len(data) % 5))
        src = io.BytesIO(lead + data)
        src.read(len(lead))
    else:
        src = io.BytesIO(data) if via_stream else data
    r = BitReader(src)
    got = []
    for w in widths:
        try:
            got.append(r.get(w))
        except Exception:
            return {'err': 'other', 'got': got}
    return {'ok': got, 'rest': r.get_rest().hex()}


def oracle_read(data, widths):
    bits = ''.join('{:08b}'.format(b) for b in data)
    pos = 0
    got = []
    for w in widths:
        if pos + w > len(bits):
            return {'err': 'other', 'got': got}
        got.append(int(bits[pos:pos + w], 2) if w else 0)
        pos += w
    return {'ok': got, 'rest': data[(pos + 7) // 8:].hex()}


def gen_case(rng):
    n = rng.choice([0, 1, 2, 3, 4, 5, 8, 9, 16, 33])
    if rng.random() < 0.35:
        # long runs of set / clear bits around the fields (carries, sign extension and rounding show only there)
        pat = rng.choice([b'\xff', b'\x00', b'\xff\xff\xff\xff\x00', b'\x80', b'\x7f', b'\xaa', b'\x01'])
        data = bytearray((pat * (n + 1))[:n])
        for _ in range(rng.choice([0, 0, 1, 2])):
            if n:
                data[rng.randrange(n)] = rng.getrandbits(8)
        data = bytes(data)
    else:
        data = bytes(rng.getrandbits(8) for _ in range(n))
    ws = []
    total = 0
    mode = rng.random()
    while True:
        if mode < 0.15:
            w = rng.choice([0, 1, 7, 8, 9, 15, 16, 17, 31, 32])
        else:
            w = rng.randint(0, 32) if rng.random() < 0.5 else rng.randint(0, 6)
        ws.append(w)
        total += w
        if total > 8 * n + (8 if rng.random() < 0.1 else -1) or len(ws) > 40 or rng.random() < 0.12:
            break
    return data, ws


def run(chk, drv):
    tier = chk.tier
    max_exp = 22 if tier == 'quick' else 26
    chk.cov['rule'] = ('bits_required: every n in [0, 2^%d] (exhaustive); reader: random byte strings x width sequences 0..32; '
                       'a reader case is non-trivial when it crosses a byte boundary or ends in exhaustion; distinct by (bytes, widths)' % max_exp)

    # --- corpus first
    cdir = os.path.join(common.VERIF, 'corpus', 'C17')
    corpus = []
    if os.path.isdir(cdir):
        for fn in sorted(os.listdir(cdir)):
            for line in open(os.path.join(cdir, fn)):
                if line.strip():
                    corpus.append(json.loads(line))

    # --- bits_required: model breakpoints vs integer spec (ties model to the spec the theorem proves)
    if drv is not None:
        table = drv.run([{'op': 'bits.table', 'maxExp': max_exp + 2}])[0]['ok']
        for n, v in table:
            if v != spec_bits(n):
                chk.broken.append('model bitsRequired(%d)=%d differs from the harness oracle %d' % (n, v, spec_bits(n)))
    # --- exhaustive enumeration of the implementation
    N = (1 << max_exp) + 1
    step = max(1 << 16, N // 64)
    ranges = [(lo, min(N, lo + step)) for lo in range(0, N, step)]
    bad = []
    for b in common.pmap(_scan_range, ranges):
        bad.extend(b)
    chk.cov['evaluations'] += N
    chk.cov['exhaustive'] = True
    chk.cov['bits_required_range'] = [0, N - 1]
    chk.dist('bits_required_values', N)
    for k in range(0, max_exp + 1):
        chk._distinct.add('br-%d' % k)   # one distinct non-trivial class per breakpoint interval
    for (m, v, e) in bad[:3]:
        chk.report('bits_required(%d) = %r, expected ceil(log2 n) = %d' % (m, v, e),
                   {'kind': 'bits_required', 'n': m, 'got': v, 'expected': e}, key='bits_required:%d' % m)
    # negative / odd inputs the code accepts
    BitReader = _impl()
    for n in (-5, -1, 0):
        if BitReader.bits_required(n) != 0:
            chk.report('bits_required(%d) != 0' % n, {'kind': 'bits_required', 'n': n})

    # --- reader correspondence
    ncases = 1500 if tier == 'quick' else 40000
    cases = [(bytes.fromhex(c['bytes']), c['widths']) for c in corpus if c.get('kind') == 'read']
    cases += [gen_case(chk.rng) for _ in range(ncases)]
    # payloads beyond 64 KiB read field by field to the end (a reader that buffers in chunks has its seams there): a short odd field first,
    # so that every later field straddles byte boundaries
    for k in range(2 if tier == 'quick' else 12):
        ws = [chk.rng.randint(1, 7)] + [chk.rng.choice([32, 32, 31, 29, 17, 8]) for _ in range(chk.rng.randint(23000, 30000))]
        nbytes = (sum(ws) + 7) // 8 + chk.rng.choice([0, 1, 100])
        cases.append((chk.rng.randbytes(nbytes), ws))
    reqs = [{'op': 'bits.read', 'bytes': d.hex(), 'widths': ws} for d, ws in cases]
    model = drv.run(reqs) if drv is not None else [None] * len(cases)
    for i, ((d, ws), m) in enumerate(zip(cases, model)):
        via_stream = i % 3                     # bytes / fresh stream / stream positioned after a header
        got = impl_read(d, ws, via_stream)
        exp = oracle_read(d, ws)
        crosses = any((sum(ws[:j]) % 8) + ws[j] > 8 for j in range(len(ws)))
        chk.count((d, tuple(ws)), nontrivial=crosses or 'err' in exp,
                  sample={'bytes': d.hex(), 'widths': ws, 'impl': got} if i < 3 else None)
        chk.dist('read:' + ('exhausted' if 'err' in exp else 'ok'))
        chk.dist('read:widths', len(ws))
        if m is not None and m != got:
            chk.cov['traces_validated_against_impl'] += 0
            # correspondence broke: classify with the oracle
            if got != exp:
                chk.report('BitReader.get/get_rest differ from MSB-first fields', {'kind': 'read', 'bytes': d.hex(), 'widths': ws, 'impl': got, 'expected': exp, 'model': m})
            else:
                chk.broken.append('correspondence bits.read: model %s vs implementation %s on %s %s' % (m, got, d.hex(), ws))
        else:
            chk.cov['traces_validated_against_impl'] += 1
            if got != exp:
                chk.report('BitReader.get/get_rest differ from MSB-first fields', {'kind': 'read', 'bytes': d.hex(), 'widths': ws, 'impl': got, 'expected': exp})


def search(chk, drv):
    """failing-input search on the implementation alone (oracle only)."""
    for _ in range(3000):
        d, ws = gen_case(chk.rng)
        got = impl_read(d, ws, False)
        exp = oracle_read(d, ws)
        if got != exp:
            chk.report('BitReader.get/get_rest differ from MSB-first fields', {'kind': 'read', 'bytes': d.hex(), 'widths': ws, 'impl': got, 'expected': exp})
            return


def replay(chk, drv, rep):
    r = rep['replay']
    if r.get('kind') == 'bits_required':
        print('impl', _impl().bits_required(r['n']), 'expected', spec_bits(r['n']))
    else:
        d = bytes.fromhex(r['bytes'])
        print('impl    ', impl_read(d, r['widths'], False))
        print('expected', oracle_read(d, r['widths']))
        if drv:
            print('model   ', drv.run([{'op': 'bits.read', 'bytes': r['bytes'], 'widths': r['widths']}])[0])
    return 0
