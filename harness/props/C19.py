# coding=utf-8
"""
C19 — an installed copy is complete and behaves like the source checkout.
The packaging model (find_packages + package_data globs + scripts over the file listing of
the working tree) says what a build ships and what is missing; a real offline wheel build in
a scratch copy must ship exactly the model's set; recordings and one synthetic battle per
bundled version are then parsed from the unpacked wheel (checkout off the path) and their
digests compared with the checkout's.
"""
import json
import os
import shutil
import subprocess
import sys
import zipfile

from .. import battlecheck, common
from ..impl import walk

RUNNER = os.path.join(common.VERIF, 'harness', 'digest_runner.py')


def listing():
    files = []
    for top in ('replay_unpack',):
        for root, dirs, fs in os.walk(os.path.join(common.REPO, top)):
            dirs[:] = sorted(d for d in dirs if d != '__pycache__')
            for f in sorted(fs):
                if f.endswith('.pyc'):
                    continue
                files.append(os.path.relpath(os.path.join(root, f), common.REPO).replace(os.sep, '/'))
    for f in ('replay_parser.py', 'setup.py'):
        if os.path.exists(os.path.join(common.REPO, f)):
            files.append(f)
    return files


def setup_args(scratch):
    """the arguments setup.py passes to setup(), captured with a stub"""
    code = ("import json, sys, setuptools\n"
            "cap = {}\n"
            "def fake(**kw):\n"
            "    cap.update(kw)\n"
            "setuptools.setup = fake\n"
            "import runpy\n"
            "runpy.run_path('setup.py', run_name='__main__')\n"
            "print(json.dumps({'packages': sorted(cap.get('packages') or []), 'package_data': cap.get('package_data'), "
            "'scripts': cap.get('scripts'), 'include_package_data': cap.get('include_package_data')}))\n")
    p = subprocess.run([common.PY, '-c', code], cwd=scratch, stdout=subprocess.PIPE, stderr=subprocess.PIPE, text=True)
    if p.returncode != 0:
        raise RuntimeError('setup.py could not be evaluated: %s' % p.stderr[-400:])
    return json.loads(p.stdout.strip().split('\n')[-1])


def build_wheel(scratch):
    dist = os.path.join(scratch, 'dist')
    p = subprocess.run([os.path.join(os.path.dirname(common.PY), 'pip'), 'wheel', '--no-deps', '--no-build-isolation', '--no-index', '-w', dist, '.'],
                       cwd=scratch, stdout=subprocess.PIPE, stderr=subprocess.STDOUT, text=True)
    if p.returncode != 0:
        raise common.Infra('wheel build failed: %s' % p.stdout[-1500:])
    whl = [os.path.join(dist, f) for f in os.listdir(dist) if f.endswith('.whl')]
    return whl[0]


def build_sdist(scratch):
    """source distribution from a clean tree (build leftovers of the wheel step removed first: a stale SOURCES.txt would re-add files)"""
    import tarfile
    for d in os.listdir(scratch):
        if d == 'build' or d.endswith('.egg-info'):
            shutil.rmtree(os.path.join(scratch, d), ignore_errors=True)
    dist = os.path.join(scratch, 'dist_s')
    p = subprocess.run([common.PY, 'setup.py', '-q', 'sdist', '--formats=gztar', '-d', dist], cwd=scratch, stdout=subprocess.PIPE, stderr=subprocess.STDOUT, text=True)
    if p.returncode != 0:
        raise common.Infra('sdist build failed: %s' % p.stdout[-1500:])
    tgz = [os.path.join(dist, f) for f in os.listdir(dist) if f.endswith('.tar.gz')][0]
    names = set()
    with tarfile.open(tgz) as t:
        for m in t.getmembers():
            if m.isfile() and '/' in m.name:
                names.add(m.name.split('/', 1)[1])
    return tgz, names


def run_digests(files, unpacked=None, mode='lenient'):
    """digests from a subprocess; with `unpacked` the installed copy is used and /repo kept off the path"""
    env = dict(os.environ)
    if unpacked:
        scripts = [os.path.join(unpacked, d, 'scripts') for d in os.listdir(unpacked) if d.endswith('.data')]
        env['PYTHONPATH'] = unpacked
        args = [common.PY, RUNNER, scripts[0] if scripts else '-', common.REPO, mode] + files
        cwd = unpacked
    else:
        env['PYTHONPATH'] = common.REPO
        args = [common.PY, RUNNER, common.REPO, '-', mode] + files
        cwd = common.REPO
    p = subprocess.run(args, cwd=cwd, env=env, stdout=subprocess.PIPE, stderr=subprocess.PIPE, text=True)
    lines = [json.loads(l) for l in p.stdout.split('\n') if l.strip().startswith('{')]
    if not lines:
        return None, {'stderr': p.stderr[-600:]}
    return lines[:-1], lines[-1]


def run(chk, drv):
    quick = chk.tier == 'quick'
    chk.cov['rule'] = ('every file of the working tree under the package vs the shipped set of the model vs the file list of a real wheel and of a real sdist; then every chosen '
                       'recording and one synthetic battle per bundled version parsed from the unpacked wheel with the checkout off the path. '
                       'A case = a file (completeness) or a replay (behaviour); non-trivial: Python module or definition file / a replay that yields a summary.')
    files = listing()
    scratch = '/tmp/c19-%d' % os.getpid()
    shutil.rmtree(scratch, ignore_errors=True)
    try:
        os.makedirs(scratch)
        for f in files + ['README.md', 'requirements.txt', 'MANIFEST.in', 'setup.cfg', 'pyproject.toml']:
            src = os.path.join(common.REPO, f)
            if os.path.exists(src):
                dst = os.path.join(scratch, f)
                os.makedirs(os.path.dirname(dst), exist_ok=True)
                shutil.copy2(src, dst)
        cfg = setup_args(scratch)
        patterns = (cfg.get('package_data') or {}).get('', [])
        scripts = cfg.get('scripts') or []
        model = None
        if drv is not None:
            model = drv.run([{'op': 'pack.shipped', 'files': [f for f in files if f != 'setup.py'], 'patterns': patterns, 'scripts': scripts,
                              'root': 'replay_unpack', 'script': 'replay_parser.py'}])[0]
        whl = build_wheel(scratch)
        z = zipfile.ZipFile(whl)
        names = [n for n in z.namelist() if '.dist-info/' not in n]
        wheel_files = set()
        for n in names:
            if '.data/scripts/' in n:
                wheel_files.add(n.split('.data/scripts/')[1])
            else:
                wheel_files.add(n)
        # where an installed copy really lives: a site-packages directory below a versioned python directory (dots in the path), in an
        # environment whose name has a blank and a dash
        unpacked = os.path.join(scratch, 'my env-1', 'lib', 'python3.12', 'site-packages')
        os.makedirs(unpacked)
        z.extractall(unpacked)
        # ---- completeness (implementation alone): every needed file is in the wheel
        needed = [f for f in files if f != 'setup.py' and (f.endswith('.py') or ('/scripts/' in f and (f.endswith('.def') or f.endswith('.xml'))))]
        missing_real = sorted(f for f in needed if f not in wheel_files)
        for f in needed:
            chk.cov['evaluations'] += 1
        chk._distinct.update('file:' + f for f in needed)
        chk.dist('files:needed', len(needed))
        chk.dist('files:in_wheel', len(wheel_files))
        chk.cov['samples'].append({'needed_files': len(needed), 'wheel_files': len(wheel_files), 'packages': len(cfg.get('packages') or []),
                                   'patterns': patterns})
        # ---- correspondence: the model's shipped set is the wheel's content
        if model is not None:
            ms = set(model['shipped'])
            if ms != wheel_files:
                only_m = sorted(ms - wheel_files)[:5]
                only_w = sorted(wheel_files - ms)[:5]
                chk.broken.append('correspondence pack.shipped: model ships %s which the wheel lacks; wheel has %s which the model does not ship' % (only_m, only_w))
            else:
                chk.cov['traces_validated_against_impl'] += 1
            if sorted(model['missing']) != missing_real:
                chk.broken.append('correspondence pack.shipped: model missing set %s vs real %s' % (model['missing'][:5], missing_real[:5]))
            if sorted(model['packages']) != sorted(p.replace('.', '/') for p in (cfg.get('packages') or [])):
                chk.broken.append('correspondence pack.shipped: model packages differ from find_packages()')
        # ---- behaviour: replays from the installed copy
        from .C03 import pick_recordings
        recs = pick_recordings(chk, 3 if quick else 1000, small=quick)
        battles = []
        for g, v in battlecheck.version_dirs():
            b, exp, err = battlecheck.make_battle(g, v, chk.seed, rich=True)
            if b is not None:
                battles.append(battlecheck.write_battle(b, 'c19-%s-%s' % (g, v)))
        try:
            all_files = recs + battles
            ref, _ = run_digests(all_files)
            got, meta = run_digests(all_files, unpacked=unpacked)
            # the same copy reached through a symbolic link (link farms, --target directories): one file per game and the recordings
            linked = os.path.join(scratch, 'linked-site')
            if not os.path.lexists(linked):
                os.symlink(unpacked, linked)
            subset = recs + [b for b in battles if any(('-%s-' % g) in os.path.basename(b) for g in ('wot', 'wowp'))][:2] + battles[:3]
            got_l, meta_l = run_digests(subset, unpacked=linked)
            if got_l is not None and ref is not None:
                by_file = {r['file']: r for r in ref}
                for g_ in got_l:
                    r = by_file.get(g_['file'])
                    chk.dist('replays:through-symlink')
                    if r is not None and r.get('digest') != g_.get('digest'):
                        chk.report('%s gives a different result from an installed copy reached through a symbolic link: checkout %s, installed %s' % (
                            os.path.basename(g_['file']), json.dumps({k: r.get(k) for k in ('hidden', 'error', 'exception')}),
                            json.dumps({k: g_.get(k) for k in ('hidden', 'error', 'exception')})),
                            {'kind': 'installed-replay-symlink', 'file': os.path.basename(g_['file']), 'checkout': r, 'installed': g_})
            elif ref is not None:
                chk.report('replays cannot be parsed from an installed copy reached through a symbolic link: %s' % json.dumps(meta_l)[:300],
                           {'kind': 'installed-symlink', 'meta': meta_l})
        finally:
            for p in battles:
                os.unlink(p)
        if got is None or ref is None:
            chk.report('replays cannot be parsed from the installed copy at all: %s' % json.dumps(meta)[:400],
                       {'kind': 'installed', 'meta': meta, 'missing': missing_real[:20]},
                       key=None)
        else:
            if meta.get('leaked') or not meta['origin']['replay_unpack'].startswith(unpacked):
                raise common.Infra('the installed-copy run imported from the checkout: %s' % meta)
            for r, g in zip(ref, got):
                name = os.path.basename(r['file'])
                chk.count(('replay', name), r.get('hidden', False))
                chk.dist('replays')
                if r.get('digest') != g.get('digest'):
                    chk.report('%s gives a different result from the installed copy: checkout %s, installed %s' % (
                        name, json.dumps({k: r.get(k) for k in ('hidden', 'error', 'exception')}), json.dumps({k: g.get(k) for k in ('hidden', 'error', 'exception')})),
                        {'kind': 'installed-replay', 'file': name, 'checkout': r, 'installed': g, 'missing_files': missing_real[:20]})
        for f in missing_real[:50]:
            chk.report('the built distribution lacks %s' % f, {'kind': 'missing-file', 'file': f}, key='missing:' + f)
        # ---- the source distribution must be complete as well (and, thorough tier, a wheel built from it must equal the wheel built from the tree)
        tgz, sdist_files = build_sdist(scratch)
        chk.dist('files:in_sdist', len(sdist_files))
        missing_sdist = sorted(f for f in needed + ['setup.py'] if f not in sdist_files)
        for f in missing_sdist[:50]:
            chk.report('the source distribution lacks %s' % f, {'kind': 'missing-file-sdist', 'file': f}, key='missing-sdist:' + f)
        if not quick:
            import tarfile
            sd = os.path.join(scratch, 'from_sdist')
            with tarfile.open(tgz) as t:
                t.extractall(sd)
            top = os.path.join(sd, os.listdir(sd)[0])
            whl2 = build_wheel(top)
            names2 = set()
            for n in zipfile.ZipFile(whl2).namelist():
                if '.dist-info/' in n:
                    continue
                names2.add(n.split('.data/scripts/')[1] if '.data/scripts/' in n else n)
            if names2 != wheel_files:
                chk.report('a wheel built from the source distribution differs from the wheel built from the tree: lacks %s, adds %s' % (
                    sorted(wheel_files - names2)[:5], sorted(names2 - wheel_files)[:5]), {'kind': 'sdist-wheel', 'lacks': sorted(wheel_files - names2)[:50],
                                                                                         'adds': sorted(names2 - wheel_files)[:50]})
    finally:
        shutil.rmtree(scratch, ignore_errors=True)
    chk.assumptions.append('setuptools / pip wheel are external: the packaging model is compared with a real build on every run')


def search(chk, drv):
    pass


def replay(chk, drv, rep):
    print(json.dumps(rep['replay'], indent=1)[:2000])
    return 0
