# coding=utf-8
"""
C18 — parsing a replay cannot execute code chosen by the file.
An audit hook (installed in a subprocess before the package is imported) records
pickle.find_class, import, open and process-spawning events while recordings, synthetic
battles and battles carrying a hostile (but harmless) pickle in the arguments of subscribed
methods are parsed. The find_class events of pickled payloads are compared with the model's
pickle VM. Static part: the regenerated list of primitive call sites (C18.primitive_sites_fact).
"""
import json
import os
import pickle
import struct
import subprocess

from .. import battlecheck, common
from ..gen import battle, history
from ..impl import walk

RUNNER = os.path.join(common.VERIF, 'harness', 'audit_runner.py')
# the fixed set of plain data classes the format needs (independent copy of C18.dataClasses)
ALLOWED_CLASSES = {('CamouflageInfo', 'CamouflageInfo'), ('PlayerModeDef', 'PlayerMode'), ('copy_reg', '_reconstructor'), ('copyreg', '_reconstructor'),
                   ('__builtin__', 'object'), ('builtins', 'object'), ('__builtin__', 'set'), ('builtins', 'set'), ('__builtin__', 'frozenset'),
                   ('builtins', 'frozenset'), ('collections', 'OrderedDict')}
EVIL = os.path.join(common.WORK, 'c18-outside')
MARKER = ('colorsys', 'rgb_to_hsv')
HOSTILE = b'ccolorsys\nrgb_to_hsv\n(K\x01K\x02K\x03tR.'
EXPR = b"__import__('colorsys').rgb_to_hsv(0.2, 0.4, 0.6)"


def _u(b):
    return b'X' + len(b).to_bytes(4, 'little') + b


def stateful_payloads():
    """pickles that name allow-listed globals only and hand an allow-listed data class a state chosen by the file: dunder keys, a text that
    would be code if anything evaluated it, nested once more. Rebuilding a data object must not evaluate, import or call any of it."""
    keys = [b'__annotations__', b'__class__', b'__dict__', b'__reduce__', b'__wrapped__', b'__getstate__', b'__init__', b'playerModeType', EXPR]
    inner = b'}(' + b''.join(_u(k) + _u(EXPR) for k in keys) + b'u'
    state = b'}(' + b''.join(_u(k) + (inner if i % 2 == 0 else _u(EXPR)) for i, k in enumerate(keys)) + b'u'
    out = {
        'newobj-build': b'\x80\x02cPlayerModeDef\nPlayerMode\n)\x81' + state + b'b.',
        'reconstructor-build': b'\x80\x02ccopy_reg\n_reconstructor\n(cPlayerModeDef\nPlayerMode\nc__builtin__\nobject\nNtR' + state + b'b.',
        'in-roster': b'\x80\x02](](K\x00cPlayerModeDef\nPlayerMode\n)\x81' + state + b'b\x86ea.',
    }
    return out


PICKLE_METHODS = ['onArenaStateReceived', 'onGameRoomStateChanged', 'onNewPlayerSpawnedInBattle', 'receiveDamageStat']


def run_parse(files, mode='lenient'):
    env = dict(os.environ)
    env['PYTHONPATH'] = common.REPO
    p = subprocess.run([common.PY, RUNNER, 'parse', mode] + files, cwd=common.REPO, env=env, stdout=subprocess.PIPE, stderr=subprocess.PIPE, text=True, timeout=3600)
    recs = [json.loads(l) for l in p.stdout.split('\n') if l.startswith('{')]
    if len(recs) != len(files):
        raise common.Infra('audit runner: %d records for %d files: %s' % (len(recs), len(files), p.stderr[-300:]))
    return recs


def run_loads(payloads):
    """[(encoding, bytes)] -> events per payload from the real unpickler"""
    env = dict(os.environ)
    env['PYTHONPATH'] = common.REPO
    p = subprocess.run([common.PY, RUNNER, 'loads'], input='\n'.join('%s %s' % (enc, b.hex()) for enc, b in payloads) + '\n', cwd='/', env=env,
                       stdout=subprocess.PIPE, stderr=subprocess.PIPE, text=True, timeout=600)
    out = [json.loads(l) for l in p.stdout.split('\n') if l.startswith('{')]
    if len(out) != len(payloads):
        raise common.Infra('audit runner (loads): %d results for %d payloads: %s' % (len(out), len(payloads), p.stderr[-300:]))
    return out


def shipped_allow_list():
    env = dict(os.environ)
    env['PYTHONPATH'] = common.REPO
    p = subprocess.run([common.PY, RUNNER, 'allowed'], cwd='/', env=env, stdout=subprocess.PIPE, stderr=subprocess.PIPE, text=True, timeout=600)
    lines = [l for l in p.stdout.split('\n') if l.startswith('[')]
    return [tuple(x) for x in json.loads(lines[0])] if lines else None


def allowed_open(path, own_files):
    """the replay itself, files of the installed package (code, bundled definitions), and the interpreter's own library files"""
    path = os.path.normpath(os.path.join(common.REPO, path))
    if path in own_files:
        return True
    if path.startswith((os.path.join(common.REPO, 'replay_unpack') + '/', common.REPO + '/replay_parser.py')):
        return True
    return path.startswith(interpreter_roots()) and (path.endswith(('.py', '.pyc', '.so', '.pth', '.cfg')) or '__pycache__' in path)


_ROOTS = []


def interpreter_roots():
    """where the interpreter running the package keeps its own library files"""
    if not _ROOTS:
        out = subprocess.run([common.PY, '-c', 'import sys, sysconfig, json; print(json.dumps(sorted({sys.prefix, sys.base_prefix, sys.exec_prefix, '
                                               'sys.base_exec_prefix} | set(sysconfig.get_paths().values()))))'], stdout=subprocess.PIPE, text=True).stdout
        _ROOTS.extend(os.path.realpath(x) + '/' for x in json.loads(out.strip().split('\n')[-1]))
        _ROOTS.extend(['/usr/lib/', '/lib/'])
    return tuple(_ROOTS)


def judge(chk, rec, own_files, hostile_method=None):
    """property violations visible in one parse's audit events"""
    name = os.path.basename(rec['file'])
    for e in rec['events']:
        if e[0] == 'pickle.find_class' and (e[1], e[2]) not in ALLOWED_CLASSES:
            key = 'pickle:%s' % hostile_method if hostile_method and (e[1], e[2]) == MARKER else None
            chk.report('parsing %s makes the unpickler locate %s.%s, a callable named by the file' % (name if not hostile_method else 'a battle with a crafted %s argument' % hostile_method, e[1], e[2]),
                       {'kind': 'find_class', 'file': name, 'class': e[1:3], 'method': hostile_method}, key=key)
        elif e[0] == 'import' and e[1].split('.')[0] == MARKER[0]:
            if not any(x[0] == 'pickle.find_class' and (x[1], x[2]) == MARKER for x in rec['events']):
                # not the consequence of a find_class reported above: something evaluated text from the file
                chk.report('parsing %s imports %s, a module named only inside a text value of the file' % (name if not hostile_method else 'a battle with a crafted %s argument' % hostile_method, e[1]),
                           {'kind': 'import', 'file': name, 'module': e[1], 'method': hostile_method})
        elif e[0] == 'open' and not allowed_open(e[1], own_files):
            chk.report('parsing %s opens %s' % (name, e[1]), {'kind': 'open', 'file': name, 'path': e[1]})
        elif e[0] in ('subprocess.Popen', 'os.system', 'os.exec', 'os.spawn', 'os.posix_spawn', 'socket.connect', 'os.remove', 'os.rename', 'shutil.rmtree'):
            chk.report('parsing %s triggers %s(%s)' % (name, e[0], e[1]), {'kind': 'process', 'file': name, 'event': e})


def collect_pickles(path, limit=60):
    """pickled payloads of subscribed-method arguments in a recording (for the VM correspondence)"""
    from .C03 import PayloadObserver
    obs = PayloadObserver(walk.game_of(path), limit=200000, always=())
    out = []
    try:
        walk.parse_observed(path, obs)
    except Exception:
        return out
    for (kind, owner, member, h, refs, payload, res) in obs.records:
        if kind == 'M' and member in PICKLE_METHODS and 'ok' in res:
            for v in res['ok']:
                if isinstance(v, dict) and 'b' in v and len(v['b']) > 2 and v['b'].startswith('80'):
                    out.append(bytes.fromhex(v['b']))
        if len(out) >= limit:
            break
    return out


SIBLINGS = {'builtins': ['len', 'sum', 'abs', 'id', 'getattr'], '__builtin__': ['len', 'sum', 'getattr'], 'collections': ['Counter', 'namedtuple', 'deque'],
            'copyreg': ['constructor', 'pickle'], 'copy_reg': ['constructor', 'pickle'], 'CamouflageInfo': ['namedtuple'], 'PlayerModeDef': ['unicodize']}


def neighbours(allow):
    """payloads that only *locate* a global (GLOBAL / STACK_GLOBAL + STOP, nothing is called) whose name is a near miss of an allow-listed
    one: dotted attribute paths below it (resolved by protocol >= 4), prefixes / suffixes / case changes, swapped or nested module names"""
    out = []
    seen = set()
    # the allow-listed globals themselves come first: whatever a successful lookup leaves behind (caches, imported modules) is in place
    # when the near misses and the harmless siblings of the same modules are tried, all in the same process
    for m, n in allow:
        out.append(b'c' + m.encode('latin1', 'replace') + b'\n' + n.encode('latin1', 'replace') + b'\n.')
    for m, n in allow:
        names = [(m, x) for x in SIBLINGS.get(m, [])] + [(m, n + '.__class__'), (m, n + '.__init__'), (m, n + '.__doc__'), (m, n + '.__name__.__class__'), (m, n + 's'), (m, n[:-1]), (m, n.upper()),
                 (m, '_' + n), (m, n + ' '), (m, n), (m + '.abc', n), (m.split('.')[0], m.split('.')[-1] + '.' + n), (n, m), (m, ''), (m + ' ', n), (m, n + '\\x00')]
        for mm, nn in names:
            if (mm, nn) in seen or '\n' in mm + nn:
                continue
            seen.add((mm, nn))
            mb, nb = mm.encode('latin1', 'replace'), nn.encode('latin1', 'replace')
            out.append(b'c' + mb + b'\n' + nb + b'\n.')
            if len(mb) < 256 and len(nb) < 256:
                out.append(b'\x80\x04\x8c' + bytes([len(mb)]) + mb + b'\x8c' + bytes([len(nb)]) + nb + b'\x93.')
    return out


def part_vm(chk, drv, recs):
    """model pickle VM vs the real unpickler on real and crafted payloads"""
    payloads = []
    for p in recs:
        payloads += [('latin1', b) for b in collect_pickles(p)]
    rng = chk.rng
    crafted = [HOSTILE, b'ccollections\nOrderedDict\n)R.', pickle.dumps([(1, 'a'), (2, b'\xff')], protocol=2), pickle.dumps({'k': [1, 2.5, None, True]}, protocol=4),
               b'\x80\x04\x95\x1a\x00\x00\x00\x00\x00\x00\x00\x8c\x08colorsys\x94\x8c\x0argb_to_hsv\x94\x93\x94.',
               b'(S\'x\'\nicolorsys\nrgb_to_hsv\n.', pickle.dumps((1, 2, 3), protocol=0), b'c', b'cos\n', b'\x93.', b'']
    # a Python 2 str with a non-ASCII byte (undecodable under the default encoding of the older controllers) or an undecodable module
    # name in front of the hostile global: whatever the unpickler does about the decoding error, it must not go on unrestricted
    crafted += [b'(U\x04Caf\xe9' + HOSTILE[:-1] + b't.', b'(U\x02\xff\xfe' + b'ccollections\nOrderedDict\n)R' + HOSTILE[:-1] + b't.',
                b'c\xff\xfe\nx\n.' , b'(c\xe9\nx\n' + HOSTILE[:-1] + b't.', b'(T\x03\x00\x00\x00\xe9\xe9\xe9' + HOSTILE[:-1] + b't.']
    for _ in range(30):
        base = rng.choice(crafted[:6])
        b = bytearray(base)
        if b:
            b[rng.randrange(len(b))] = rng.getrandbits(8)
        crafted.append(bytes(b))
    payloads += [('latin1', b) for b in crafted]
    payloads += [('latin1', b) for b in neighbours(shipped_allow_list() or sorted(ALLOWED_CLASSES))]
    shipped = shipped_allow_list()
    if shipped is None:
        chk.broken.append('correspondence pickle.events: the package has no replay_unpack.core.safe_pickle.ALLOWED_GLOBALS')
    else:
        # every name the shipped unpickler would resolve must be one of the plain data classes
        extra = [g for g in shipped if g not in ALLOWED_CLASSES]
        probes = [('safe:latin1', b'c' + m.encode() + b'\n' + n.encode() + b'\n.') for m, n in extra]
        for (m, n), r in zip(extra, run_loads(probes) if probes else []):
            if [m, n] in r['events']:
                chk.report('the shipped unpickler resolves %s.%s for a payload that names it (GLOBAL + STOP); it is not one of the plain data classes' % (m, n),
                           {'kind': 'allow-list', 'class': [m, n], 'payload': probes[extra.index((m, n))][1].hex()})
    if drv is None or not payloads:
        return
    hexpair = list
    unhex = lambda ev: [[bytes.fromhex(x).decode('latin1'), bytes.fromhex(y).decode('latin1')] for x, y in ev]
    modes = [('latin1', None)] + ([('safe:latin1', [hexpair(g) for g in shipped]), ('safe:ASCII', [hexpair(g) for g in shipped]),
                                  ('safe:bytes', [hexpair(g) for g in shipped])] if shipped is not None else [])
    for enc, allow in modes:
        real = run_loads([(enc, b) for _, b in payloads])
        model = drv.run([{'op': 'pickle.events', 'bytes': b.hex(), 'allow': allow} for _, b in payloads])
        for (_, b), r, m in zip(payloads, real, model):
            chk.count(('vm', enc, b), nontrivial=len(b) > 4)
            chk.dist('vm:%s' % ('restricted' if allow is not None else 'unrestricted'))
            mev = unhex(m['events'])
            # the real unpickler may stop earlier (it executes what it locates); the model must predict every class it locates, in order
            if r['events'] != mev[:len(r['events'])] or (r['end'] == 'stop' and m['end'] == 'stop' and r['events'] != mev):
                chk.broken.append('correspondence pickle.events (%s): model %s vs real %s on payload %s' % (enc, mev, r['events'], b.hex()[:200]))
            else:
                chk.cov['traces_validated_against_impl'] += 1
            if allow is not None:
                for ev in r['events']:
                    if tuple(ev) not in ALLOWED_CLASSES:
                        chk.report('the shipped unpickler locates %s.%s for payload %s' % (ev[0], ev[1], b.hex()[:120]), {'kind': 'safe-loads', 'payload': b.hex(), 'class': ev})
                if r.get('result') and tuple(r['result']) not in ALLOWED_CLASSES:
                    chk.report('the shipped unpickler returns the global %s.%s for payload %r (after the allow-listed globals were resolved in the same process)' % (
                        r['result'][0], r['result'][1], b[:60]), {'kind': 'safe-loads-result', 'payload': b.hex(), 'result': r['result'],
                                                                 'primed_with': [list(g) for g in shipped]})


def hostile_battle(game, version, seed, method, payload=None, tag='c18'):
    """a complete battle plus one extra call of `method` whose blob arguments are the hostile pickle"""
    payload = HOSTILE if payload is None else payload
    b, exp, err = battlecheck.make_battle(game, version, seed, rich=False)
    if b is None:
        return None
    m = b.method_def('Avatar', method)
    if m is None:
        return None
    args = {}
    found = False
    for j, (an, t) in enumerate(m['args']):
        key = an if an is not None else j
        pt = history.peel(t)
        if pt['k'] in ('blob', 'string'):
            args[key] = {'b': payload.hex()}
            found = True
        elif pt['k'] == 'dict':
            v = battle.benign(t, an or '')
            for fname in ('playersStates', 'preBattlesInfo', 'buildingsInfo'):
                r = battle.find_field(t, v, fname)
                if r and history.peel(r[0])['k'] == 'blob':
                    r[1][1] = {'b': payload.hex()}
                    found = True
            args[key] = v
    if not found or not b.call(battle.AVATAR_ID, method, args):
        return None
    return battlecheck.write_battle(b, '%s-%s-%s-%s' % (tag, game, version, method))


def hostile_versions(chk):
    """containers whose version string tries to steer the import / the definitions directory out of the bundle; a complete copy of a bundled
    definition set is placed outside the package so that a successful escape is observable as file opens there"""
    import shutil
    from .. import container
    shutil.rmtree(EVIL, ignore_errors=True)
    os.makedirs(EVIL)
    src = os.path.join(common.REPO, 'replay_unpack', 'clients')
    for game, v in (('wows', '0_9_1'), ('wot', '1_8_0'), ('wowp', '2_1_20')):
        shutil.copytree(os.path.join(src, game, 'versions', v, 'scripts'), os.path.join(EVIL, v, 'scripts'))
    up = '/'.join(['..'] * 12) + EVIL
    out = []
    four = [v for g, v in battlecheck.version_dirs() if g == 'wows' and v.count('_') == 3]
    wows = ['%s,x' % up, '0,9,1,x/%s/0_9_1' % up, '%s/0,9,1' % up, 'os,path,x', '..,..,..', '0,9,1/../0_9_1', '0,9,1,/%s/0_9_1' % EVIL, '/%s/0,9,1' % EVIL]
    wows += ['%s/%s/0_9_1' % (v.replace('_', ','), up) for v in four] + ['%s/../0_9_1' % v.replace('_', ',') for v in four]
    for ver in wows:
        out.append(('wowsreplay', {'clientVersionFromXml': ver, 'clientVersionFromExe': ver}, ver))
    for ver in ['%s/1.8.0' % EVIL, 'World of Tanks v.%s/1_8_0' % EVIL, 'World\xa0of\xa0Tanks\xa0v.%s/1.8.0' % EVIL, 'os', '1_8_0/%s/1_8_0' % up]:
        out.append(('wotreplay', {'clientVersionFromXml': ver}, ver))
    for ver in ['World of Warplanes %s/2.1.20' % EVIL, 'World of Warplanes 2.1.20/%s/2_1_20' % up, 'World of Warplanes os.path']:
        out.append(('wowpreplay', {'clientVersion': ver}, ver))
    files = []
    for i, (ext, engine, ver) in enumerate(out):
        path = os.path.join(EVIL, 'v%d.%s' % (i, ext))
        with open(path, 'wb') as f:
            f.write(container.write_container(ext, json.dumps(engine, ensure_ascii=False).encode('utf-8'), [], b''))
        files.append((path, ver))
    return files


def part_versions(chk):
    import shutil
    try:
        files = hostile_versions(chk)
        own = {f for f, _ in files}
        pkg = 'replay_unpack.clients.'
        for rec, (path, ver) in zip(run_parse([f for f, _ in files]), files):
            chk.count(('version', ver), nontrivial=True)
            chk.dist('parses:hostile-version')
            for e in rec['events']:
                if e[0] == 'open' and not allowed_open(e[1], own):
                    chk.report('a replay with version string %r makes the parser open %s, outside the bundled definitions' % (ver, os.path.normpath(e[1])),
                               {'kind': 'version-open', 'version': ver, 'path': e[1]})
                    break
                if e[0] == 'import' and ('/' in e[1] or (any(c in e[1] for c in ver.replace(',', ' ').replace('.', ' ').split() if len(c) > 1 and not c[0].isdigit())
                                                        and not e[1].startswith(pkg))):
                    chk.report('a replay with version string %r makes the parser import %s' % (ver, e[1]), {'kind': 'version-import', 'version': ver, 'module': e[1]})
                    break
    finally:
        shutil.rmtree(EVIL, ignore_errors=True)


def run_battles(chk, recs, chosen, with_benign=True):
    benign, hostile = [], []
    try:
        for g, v in chosen if with_benign else []:
            b, exp, err = battlecheck.make_battle(g, v, chk.seed, rich=True)
            if b is not None:
                benign.append(battlecheck.write_battle(b, 'c18b-%s-%s' % (g, v)))
        for g, v in [x for x in chosen if x[0] == 'wows']:
            for meth in PICKLE_METHODS:
                p = hostile_battle(g, v, chk.seed, meth)
                if p:
                    hostile.append((p, meth))
        # allow-listed classes rebuilt with a state the file chooses (newest and oldest chosen wows version, two methods each)
        ws = sorted([x for x in chosen if x[0] == 'wows'], key=lambda x: tuple(int(c) for c in x[1].split('_')[:3]))
        for g, v in ([ws[0], ws[-1]] if len(ws) > 1 else ws):
            for k, (nm, payload) in enumerate(sorted(stateful_payloads().items())):
                meth = PICKLE_METHODS[(k + len(v)) % len(PICKLE_METHODS)]
                p = hostile_battle(g, v, chk.seed, meth, payload=payload, tag='c18s-' + nm)
                if p:
                    hostile.append((p, meth + ':' + nm))
        own = set(recs + benign + [h[0] for h in hostile])
        for rec in run_parse(recs + benign) if recs + benign else []:
            chk.count(('parse', os.path.basename(rec['file'])), nontrivial=bool(rec.get('hidden')),
                      sample={'file': os.path.basename(rec['file']), 'find_class': sorted({(e[1], e[2]) for e in rec['events'] if e[0] == 'pickle.find_class'})} if len(chk.cov['samples']) < 3 else None)
            chk.dist('parses:benign')
            judge(chk, rec, own)
        if hostile:
            for rec, (p, meth) in zip(run_parse([h[0] for h in hostile]), hostile):
                chk.count(('hostile', os.path.basename(p)), nontrivial=True)
                chk.dist('parses:hostile:%s' % meth)
                judge(chk, rec, own, hostile_method=meth)
    finally:
        for p in benign + [h[0] for h in hostile]:
            if os.path.exists(p):
                os.unlink(p)


def run(chk, drv):
    quick = chk.tier == 'quick'
    chk.cov['rule'] = ('parses under an audit hook: recordings, one benign synthetic battle per chosen version, and battles with a crafted pickle in each '
                       'unpickled argument (4 methods) for the chosen wows versions; pickled payloads (real + crafted + mutated) through the model VM and the '
                       'real unpickler. Non-trivial: the payload reaches find_class or the parse yields a summary. Distinct by (file / payload).')
    from .C03 import pick_recordings
    recs = pick_recordings(chk, 3 if quick else 1000, small=quick)
    versions = [v for v in battlecheck.version_dirs() if v != ('wowp', '0_3_3')]
    wows = [v for v in versions if v[0] == 'wows']
    chosen = (chk.rng.sample(wows, 6) + [v for v in versions if v[0] != 'wows']) if quick else versions
    own = run_battles(chk, recs, chosen)
    part_versions(chk)
    part_vm(chk, drv, recs[:2])
    chk.assumptions += ['soundness of the ast-based list of primitive call sites for dynamic Python is trusted',
                        'what located callables do when called is outside the pickle model; hostile payloads use harmless targets only']


def search(chk, drv):
    """a proof obligation or the correspondence broke: crafted arguments against every bundled wows version"""
    run_battles(chk, [], [v for v in battlecheck.version_dirs() if v[0] == 'wows'], with_benign=False)


def replay(chk, drv, rep):
    print(json.dumps(rep['replay'], indent=1)[:2000])
    return 0
