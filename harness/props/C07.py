# coding=utf-8
"""
C07 — subscribers are called exactly once per matching event with the right arguments.
Recording callbacks registered through the public Entity.subscribe_* API (1-3 per key,
random subsets of keys, garbage payloads on unsubscribed methods), interleaved histories;
the invocation log is compared with the model's and with the expectation derived from the
generated events alone. Real recordings: every client method subscribed, the
implementation's trace against the model as independent decoder.
"""
import io
import json
import os

from .. import common, histcheck, xmltree
from ..impl import codec, walk
from ..impl import play as iplay
from . import recworld

WEIGHTS = dict(base=1, cell=1, create=5, prop=8, method=12, garbage=3, position=1, ppos=1, map=0, noise=2, nested=8)


class TraceObserver(walk.Observer):
    pass


def _trace_one(args):
    path, limit = args
    import replay_parser  # noqa
    from replay_unpack.clients import wows, wot, wowp
    from replay_unpack.core.entity import Entity
    from replay_unpack.core.entity_def.definitions import Definitions
    from replay_unpack.replay_reader import ReplayReader
    game = walk.game_of(path)
    data = ReplayReader(path).get_replay_data()
    vdir = recworld.version_dir(game, data.engine_data)
    if vdir is None:
        return {'path': path, 'error': 'no definitions'}
    loaded = __import__('harness.impl.defs', fromlist=['x']).load_views(vdir)
    views = loaded['ok']
    keys = []
    seen = set()
    mtypes = {}
    for v in views:
        for m in v['methods']:
            k = v['name'] + '_' + m['name']
            if k not in seen:
                seen.add(k)
                keys.append(k)
                mtypes[k] = m
    log = []
    state = {'n': 0}

    def make_cb(key):
        m = mtypes[key]
        pos_t = [t for n, t in m['args'] if n is None]
        kw_t = {n: t for n, t in m['args'] if n is not None}

        def cb(entity, *a, **kw):
            state['n'] += 1
            if limit is not None and state['n'] > limit:
                return
            try:
                log.append(['M', key, 0, entity.id, [codec.canon_py(t, x) for t, x in zip(pos_t, a)],
                            sorted([[k, codec.canon_py(kw_t[k], x)] for k, x in kw.items()])])
            except Exception as e:
                log.append(['M', key, 0, entity.id, 'uncanonical: %r' % (e,), []])
        return cb

    mod = {'wows': wows, 'wot': wot, 'wowp': wowp}[game]
    base = mod.ReplayPlayer

    class Traced(base):
        def _get_controller(self, version):
            # our callbacks are registered first, so a callback of the bundled controller
            # that raises cannot hide an event from the trace
            for k in keys:
                ent, name = k.split('_', 1)
                Entity.subscribe_method_call(ent, name, make_cb(k))
            return super()._get_controller(version)
    Traced.__name__ = 'ReplayPlayer'
    saved = mod.ReplayPlayer
    import logging
    logging.disable(logging.CRITICAL)
    try:
        mod.ReplayPlayer = Traced
        info = replay_parser.ReplayParser(path, strict=False).get_info()
    except Exception as e:
        return {'path': path, 'error': repr(e)}
    finally:
        mod.ReplayPlayer = saved
        logging.disable(logging.NOTSET)
        Entity.clear_subscriptions()
    # the model as independent decoder with the same subscriptions
    raw = os.path.join(common.WORK, 'stream7-%d.bin' % os.getpid())
    with open(raw, 'wb') as f:
        f.write(data.decrypted_data)
    try:
        player_dialect = 'wot' if game == 'wot' else 'wowp' if game == 'wowp' else None
        if player_dialect is None:
            from packaging.version import Version as V
            ver = data.engine_data.get('clientVersionFromXml').replace(' ', '').split(',')
            player_dialect = 'wowsNew' if V('.'.join(ver)) >= V('12.6.0') else 'wowsOld'
        trees = xmltree.load_dir(vdir)
        rep = common.Driver().run([xmltree.load_request('R', trees, brief=True),
                                   {'op': 'play', 'defs': 'R', 'dialect': player_dialect, 'strict': False, 'every': False,
                                    'subs': {'methods': [[k, 0, False] for k in keys], 'props': [], 'nested': []}, 'streamFile': raw}])
    finally:
        os.unlink(raw)
    mlog = iplay.canon_generic(rep[1]['log'])
    if limit is not None:
        mlog = mlog[:limit]
    diff = None
    if game == 'wowp':
        # the wowp player acts on BasePlayerCreate only: no method call may ever be delivered
        if log:
            diff = 'wowp player delivered %d method calls' % len(log)
    elif mlog != log:
        diff = histcheck.first_log_diff(mlog, log)
    return {'path': path, 'calls': len(log), 'keys': len(keys), 'diff': diff, 'distinct_keys': len({e[1] for e in log}),
            'sample': log[0] if log else None}


def part_recordings(chk, n, limit):
    from .C03 import pick_recordings
    paths = pick_recordings(chk, n, small=(limit is not None))
    for r in common.pmap(_trace_one, [(p, limit) for p in paths], procs=min(16, len(paths))):
        name = os.path.basename(r['path'])
        if 'error' in r:
            chk.notes.append('recording %s skipped: %s' % (name, r['error']))
            continue
        chk.cov['evaluations'] += r['calls']
        for i in range(r['distinct_keys']):
            chk._distinct.add('rec:%s:%d' % (name, i))
        chk.dist('recordings:method_calls', r['calls'])
        chk.dist('recordings:files')
        if r['sample'] is not None and len(chk.cov['samples']) < 4:
            chk.cov['samples'].append({'recording': name, 'first_call': r['sample']})
        if r['diff']:
            chk.broken.append('correspondence (recording %s): method-call trace, model vs implementation: %s' % (name, r['diff']))
        else:
            chk.cov['traces_validated_against_impl'] += 1


def probe_all_subscribers(chk):
    """fixed probe: k callbacks registered for one key are all invoked, in registration order"""
    from replay_unpack.core.entity import Entity
    Entity.clear_subscriptions() if hasattr(Entity, 'clear_subscriptions') else None
    calls = []
    try:
        for i in range(3):
            Entity.subscribe_method_call('E', 'm', lambda *a, i=i: calls.append(i))
        subs = Entity._methods_subscriptions.get('E_m', [])
        for f in subs:
            f()
    finally:
        Entity._methods_subscriptions.pop('E_m', None)
    chk.count(('probe', 'three-subscribers'), True)
    if calls != [0, 1, 2]:
        chk.report('callbacks registered for one key: %r invoked, expected all three in registration order' % (calls,),
                   {'kind': 'probe', 'calls': calls})


def run(chk, drv):
    quick = chk.tier == 'quick'
    chk.cov['rule'] = ('histories with random subscription sets (1..3 callbacks per key, subsets of method / property / nested keys, some method subscribers raising after being called, garbage on '
                       'unsubscribed methods); non-trivial: >= 2 entities and >= 1 delivered event; distinct by (definition set, history, '
                       'subscriptions). Recordings: every client method subscribed; one distinct class per (file, method key) delivered.')
    probe_all_subscribers(chk)
    n_sets = 50 if quick else 800
    cfgs = [dict(seed_key='C07-%s-%d' % (chk.seed, i), dialects=['wowsOld', 'wowsNew', 'wot'], n_hist=3,
                 n_events=50 if i % 2 == 0 else 150, every=(i % 2 == 0), weights=WEIGHTS, strict=False, want_sample=(i == 0),
                 subs=('raising' if i % 3 == 1 else 'all'), fields=['entities'], entity_fields=['client']) for i in range(n_sets)]
    histcheck.run_batches(chk, cfgs, 'gen', 'subscribers are not called exactly once per matching event with the right arguments',
                          nontrivial=lambda c: c['entities'] >= 2 and c.get('subs', 0) >= 1)
    part_recordings(chk, 3 if quick else 1000, 30000 if quick else None)


def search(chk, drv):
    cfgs = [dict(seed_key='C07s-%s-%d' % (chk.seed, i), dialects=['wowsOld', 'wowsNew', 'wot'], n_hist=3, n_events=80,
                 every=False, weights=WEIGHTS, strict=False, subs='all', fields=['entities'], entity_fields=['client']) for i in range(80)]
    histcheck.run_batches(chk, cfgs, 'search', 'subscribers are not called exactly once per matching event with the right arguments')


def replay(chk, drv, rep):
    if rep['replay'].get('kind') == 'probe':
        probe_all_subscribers(chk)
        return 0
    return histcheck.replay_history(chk, drv, rep)
