# coding=utf-8
"""
C01 — container decoding is the exact inverse of the replay file format.

An independent writer (own key constants, Blowfish encrypt, every zlib level/strategy, raw
JSON with non-ASCII, 0..n extra blocks incl. empty ones) produces files that the real
ReplayReader reads back; the model reads the same file with the ECB layer supplied per block
by the harness. All stream lengths mod 8 (and the empty stream) are enumerated for each key.
Malformed files: wrong magic, unknown extension — ValueError and nothing else. Raw dump via
ReplayParser(raw_data_output=...). Every chosen recording is re-wrapped and re-read.
"""
import json
import struct
import os
import zlib

from .. import common, container
from ..impl import walk

EXTS = ['wowsreplay', 'wotreplay', 'wowpreplay']


_MAIN_PID = os.getpid()        # forked pool workers inherit it: one scratch directory per run, removed at the end of run()


def run_dir():
    d = os.path.join(common.WORK, 'c01-%d' % _MAIN_PID)
    os.makedirs(d, exist_ok=True)
    return d


def tmpfile(name):
    return os.path.join(run_dir(), '%d-%s' % (os.getpid(), name))


def gen_prefix(rng, stream, level=6, strategy=zlib.Z_DEFAULT_STRATEGY):
    """the 8 bytes before the ciphertext are not constrained by the format: random bytes, zeros, and words a reader might mistake for
    sizes / counts (true sizes in either order, off-by-one sizes, small numbers, the block count)"""
    n = len(stream)
    packed = len(container.compress(stream, level, strategy))
    words = [0, 1, 2, 7, 8, n, max(n - 1, 0), n + 1, n // 2, packed, max(packed - 1, 0), packed + 1, (packed + 7) // 8, 0xffffffff, 0x7fffffff, 0x80000000]
    r = rng.random()
    if r < 0.35:
        return rng.randbytes(8)
    if r < 0.45:
        return bytes(8)
    if r < 0.6:
        return struct.pack('<II', *rng.choice([(n, packed), (packed, n), (n, n), (packed, packed)]))
    return struct.pack('<II', rng.choice(words), rng.choice(words))


def gen_case(rng, i):
    ext = EXTS[i % 3]
    n = i % 9 if i < 90 else rng.choice([0, 1, 7, 8, 9, 15, 16, 17, 100, 1000, 70000])
    if rng.random() < 0.3:
        stream = bytes(n)                       # highly compressible, zero plaintext blocks
    else:
        stream = rng.randbytes(n)
    engine = {'clientVersionFromXml': '0,10,%d,0' % rng.randint(0, 9), 'name': rng.choice(['x', 'Привет', '日本', 'a"b\\c']), 'n': rng.randint(0, 10 ** 9)}
    raw_engine = json.dumps(engine, ensure_ascii=rng.random() < 0.5).encode('utf-8')
    extras = []
    for _ in range(rng.choice([0, 0, 1, 2, 4])):
        r = rng.random()
        if r < 0.3:
            extras.append(b'')
        else:
            extras.append(json.dumps(rng.choice([{'a': [1, 2, {'ü': None}]}, [1, 2, 3], 'str', 5, {'k': 'Ω'}]), ensure_ascii=rng.random() < 0.5).encode('utf-8'))
    level = rng.randint(0, 9)
    strategy = rng.choice([zlib.Z_DEFAULT_STRATEGY, zlib.Z_FILTERED, zlib.Z_HUFFMAN_ONLY, zlib.Z_RLE, zlib.Z_FIXED])
    prefix = gen_prefix(rng, stream, level, strategy)
    pad = bytes([rng.choice([0, 0xff, 7])])
    return dict(ext=ext, stream=stream, engine=raw_engine, extras=extras, level=level, strategy=strategy, prefix=prefix, pad=pad)


def impl_read(path):
    from replay_unpack.replay_reader import ReplayReader
    try:
        r = ReplayReader(path)
        info = r.get_replay_data()
        if len(path) % 2:
            # one reader object asked twice: the second answer is the one compared (reading is repeatable, the file has not changed)
            info = r.get_replay_data()
    except Exception as e:
        return {'err': type(e).__name__, 'exact_value_error': type(e) is ValueError}
    return {'ok': {'game': info.game, 'engine': info.engine_data, 'extra': info.extra_data, 'stream': info.decrypted_data}}


def check_case(chk, drv, case, idx):
    ext = case['ext']
    data = container.write_container(ext, case['engine'], case['extras'], case['stream'], case['level'], case['strategy'], case['prefix'], case['pad'])
    path = tmpfile('case.%s' % ext)
    with open(path, 'wb') as f:
        f.write(data)
    got = impl_read(path)
    want = {'game': container.GAME[ext], 'engine': json.loads(case['engine']), 'extra': [json.loads(b) if b else None for b in case['extras']],
            'stream': case['stream']}
    chk.count((ext, len(case['stream']) % 8, len(case['extras']), any(not b for b in case['extras']), case['level'], hash(case['stream'])),
              nontrivial=bool(case['stream']) or bool(case['extras']),
              sample={'ext': ext, 'stream_len': len(case['stream']), 'extras': len(case['extras']), 'level': case['level'], 'file_len': len(data)} if idx < 3 else None)
    chk.dist('len_mod_8:%d' % (len(case['stream']) % 8))
    chk.dist('ext:%s' % ext)
    chk.dist('extras:%d' % len(case['extras']))
    chk.dist('zlib_level:%d' % case['level'])
    if got.get('ok') != want:
        g = got.get('ok') or got
        what = 'exception %s' % got['err'] if 'err' in got else \
            ', '.join(k for k in want if g.get(k) != want[k]) + ' differ'
        chk.report('a well-formed %s file is not read back exactly (%s)' % (ext, what),
                   {'kind': 'container', 'ext': ext, 'file': data.hex()[:20000], 'file_len': len(data), 'stream_len': len(case['stream']),
                    'extras': [b.hex() for b in case['extras']], 'level': case['level']})
    if drv is not None:
        m = drv.run([container.model_request(ext, data)])[0]
        ok = False
        if 'ok' in m:
            try:
                ms = zlib.decompress(bytes.fromhex(m['ok']['compressed']))
                mm = {'game': m['ok']['game'], 'engine': json.loads(bytes.fromhex(m['ok']['engine'])),
                      'extra': [json.loads(bytes.fromhex(b)) if b is not None else None for b in m['ok']['extra']], 'stream': ms}
                ok = (mm == got.get('ok'))
            except Exception as e:
                mm = repr(e)
        else:
            mm = m
            ok = 'err' in got
        if ok:
            chk.cov['traces_validated_against_impl'] += 1
        else:
            chk.broken.append('correspondence container.read: model %s vs implementation %s (ext %s, %d-byte stream)' % (
                str(mm)[:200], str(got)[:200], ext, len(case['stream'])))


def part_malformed(chk, drv):
    rng = chk.rng
    good = gen_case(rng, 5)
    data = container.write_container(good['ext'], good['engine'], good['extras'], good['stream'])
    cases = []
    for k in range(4):                                   # every single magic byte wrong, rest perfectly valid
        bad = bytearray(data)
        bad[k] ^= 0x40
        cases.append(('magic byte %d' % k, good['ext'], bytes(bad)))
    cases.append(('magic, then garbage', good['ext'], b'\x12\x32\x34\x10' + rng.randbytes(200)))
    cases.append(('only two magic bytes match', good['ext'], b'\x12\x32\x00\x00' + data[4:]))
    cases.append(('empty file', good['ext'], b''))
    cases.append(('three bytes', good['ext'], b'\x12\x32\x34'))
    for desc, ext, content in cases:
        path = tmpfile('bad.%s' % ext)
        with open(path, 'wb') as f:
            f.write(content)
        got = impl_read(path)
        chk.count(('malformed', desc), True)
        chk.dist('malformed:magic')
        if got.get('err') != 'ValueError' or not got.get('exact_value_error'):
            chk.report('a file with a wrong magic number (%s) is not rejected with ValueError: %s' % (desc, got.get('err', 'accepted')),
                       {'kind': 'bad-magic', 'desc': desc, 'file': content.hex()[:2000]})
        if drv is not None:
            m = drv.run([container.model_request(ext, content, offset=0)])[0]
            if m.get('err') != 'value':
                chk.broken.append('correspondence: model accepts / misclassifies a bad magic (%s): %s' % (desc, m))
    for ext in ('foo', 'wowsreplay.bak', 'WOWSREPLAY', 'replay', ''):
        path = tmpfile('valid-content.%s' % ext) if ext else tmpfile('noextension')
        with open(path, 'wb') as f:
            f.write(data)
        from replay_unpack.replay_reader import ReplayReader
        chk.count(('malformed-ext', ext), True)
        chk.dist('malformed:extension')
        try:
            ReplayReader(path)
            chk.report('unknown extension %r is accepted' % ext, {'kind': 'bad-extension', 'ext': ext})
        except Exception as e:
            if type(e) is not ValueError:
                chk.report('unknown extension %r is rejected with %s, not ValueError' % (ext, type(e).__name__), {'kind': 'bad-extension', 'ext': ext})
        if drv is not None:
            real_ext = path.rsplit('.', 1)[-1]
            m = drv.run([{'op': 'container.read', 'ext': real_ext, 'file': data.hex(), 'dtable': []}])[0]
            if m.get('err') != 'value':
                chk.broken.append('correspondence: model accepts extension %r' % real_ext)


def _rewrap(args):
    path, seed = args
    import random
    import logging
    import replay_parser
    from replay_unpack.replay_reader import ReplayReader
    rng = random.Random('C01-%s-%s' % (seed, os.path.basename(path)))
    info = ReplayReader(path).get_replay_data()
    ext = path.rsplit('.', 1)[-1]
    raw_engine = json.dumps(info.engine_data, ensure_ascii=False).encode('utf-8')
    extras = [json.dumps(e, ensure_ascii=False).encode('utf-8') if e is not None else b'' for e in info.extra_data]
    data = container.write_container(ext, raw_engine, extras, info.decrypted_data, level=6, prefix=gen_prefix(rng, info.decrypted_data))
    out = tmpfile('rewrapped.' + ext)
    with open(out, 'wb') as f:
        f.write(data)
    dump = tmpfile('dump.bin')
    res = {'path': path, 'problems': []}
    try:
        again = ReplayReader(out).get_replay_data()
        if again.decrypted_data != info.decrypted_data or again.engine_data != info.engine_data or again.extra_data != info.extra_data or again.game != info.game:
            res['problems'].append('re-wrapped recording is not read back exactly')
        logging.disable(logging.CRITICAL)
        try:
            a = replay_parser.ReplayParser(out, strict=False, raw_data_output=dump).get_info()
        finally:
            logging.disable(logging.NOTSET)
        if not os.path.exists(dump) or open(dump, 'rb').read() != info.decrypted_data:
            res['problems'].append('raw dump differs from the decoded stream')
        # an empty stream with the same (supported) version: the dump must be empty too
        data2 = container.write_container(ext, raw_engine, [], b'')
        with open(out, 'wb') as f:
            f.write(data2)
        logging.disable(logging.CRITICAL)
        try:
            replay_parser.ReplayParser(out, strict=False, raw_data_output=dump).get_info()
        finally:
            logging.disable(logging.NOTSET)
        if open(dump, 'rb').read() != b'':
            res['problems'].append('raw dump of an empty stream is not empty')
        # the dump is of the decoded stream, whatever becomes of playing it: strict mode on a stream that cannot be played (here: cut inside
        # a packet header) raises, and the requested dump still holds exactly the decoded bytes
        os.unlink(dump)
        cut = info.decrypted_data[:len(info.decrypted_data) // 2] + b'\x05\x00\x00'
        with open(out, 'wb') as f:
            f.write(container.write_container(ext, raw_engine, [], cut))
        logging.disable(logging.CRITICAL)
        try:
            replay_parser.ReplayParser(out, strict=True, raw_data_output=dump).get_info()
        except Exception:
            pass
        finally:
            logging.disable(logging.NOTSET)
        if not os.path.exists(dump) or open(dump, 'rb').read() != cut:
            res['problems'].append('strict mode, stream that fails to play: the requested raw dump %s' % ('was not written' if not os.path.exists(dump) else 'differs from the decoded stream'))
    except Exception as e:
        res['problems'].append('exception %r' % (e,))
    finally:
        for fn in (out, dump):
            if os.path.exists(fn):
                os.unlink(fn)
    res['stream_len'] = len(info.decrypted_data)
    return res


def part_recordings(chk, n):
    from .C03 import pick_recordings
    paths = pick_recordings(chk, n, small=(n <= 6))
    if n <= 6:
        paths = (paths + [p for p in walk.recordings() if p not in paths][:n])[:n]
    for r in common.pmap(_rewrap, [(p, chk.seed) for p in paths], procs=min(16, len(paths))):
        name = os.path.basename(r['path'])
        chk.count(('rewrap', name), True)
        chk.dist('recordings:rewrapped')
        for pr in r['problems']:
            chk.report('recording %s: %s' % (name, pr), {'kind': 'rewrap', 'file': os.path.relpath(r['path'], common.REPO)})


def part_dump_binary(chk):
    """the reader's own optional dump (`dump_binary=True` writes <basename>.hex into the working directory): after every read it must hold
    exactly the stream just decoded -- also when an older dump of the same name (same or different length) is already there"""
    from replay_unpack.replay_reader import ReplayReader
    rng = chk.rng
    base = os.path.join(run_dir(), 'dumpcwd')
    os.makedirs(base, exist_ok=True)
    old = os.getcwd()
    os.chdir(base)
    try:
        for ext in EXTS:
            n = rng.choice([40, 333, 5000])
            streams = [rng.randbytes(n), rng.randbytes(n), bytes(n), rng.randbytes(n + 7), rng.randbytes(max(n - 9, 1))]
            for k, stream in enumerate(streams):
                d = os.path.join(base, 'battle%d' % k)
                os.makedirs(d, exist_ok=True)
                path = os.path.join(d, 'same.' + ext)
                with open(path, 'wb') as f:
                    f.write(container.write_container(ext, b'{"a": 1}', [], stream, level=rng.randint(0, 9), prefix=gen_prefix(rng, stream)))
                info = ReplayReader(path, dump_binary=True).get_replay_data()
                dump = os.path.join(base, 'same.%s.hex' % ext)
                got = open(dump, 'rb').read() if os.path.exists(dump) else None
                chk.count(('dump_binary', ext, k), True)
                chk.dist('dump_binary')
                if info.decrypted_data != stream or got != stream:
                    chk.report('reader dump (dump_binary=True), read #%d of files called same.%s: the dump %s the decoded stream (%d bytes)' % (
                        k + 1, ext, 'is missing instead of holding' if got is None else 'differs from', len(stream)),
                        {'kind': 'dump-binary', 'ext': ext, 'read': k, 'stream': stream.hex()[:400], 'dump': (got or b'').hex()[:400]})
                    break
    finally:
        os.chdir(old)


def run(chk, drv):
    quick = chk.tier == 'quick'
    chk.cov['rule'] = ('containers written by the independent writer: the first 90 enumerate every stream length 0..8 for each of the three keys, the rest '
                       'are random (levels 0-9, 5 strategies, 0..4 extra blocks incl. empty, non-ASCII JSON, random prefix/padding); malformed: every magic '
                       'byte, unknown extensions; recordings re-wrapped. Non-trivial: non-empty stream or extras. Distinct by (len mod 8, #extras, '
                       'has-empty-block, key, level, stream hash).')
    n = 300 if quick else 5000
    for i in range(n):
        check_case(chk, drv, gen_case(chk.rng, i), i)
    chk.cov['exhaustive_len_mod_8_per_key'] = True
    part_malformed(chk, drv)
    part_dump_binary(chk)
    part_recordings(chk, 6 if quick else 1000)
    import shutil
    shutil.rmtree(run_dir(), ignore_errors=True)
    chk.assumptions += ['Blowfish (Cryptodome) and zlib are external: the theorem assumes D(E(b)) = b on 8-byte blocks and inflate(deflate(s)+pad) = s',
                        'json.loads is external (blocks stay raw bytes in the model)']


def search(chk, drv):
    for i in range(400):
        check_case(chk, None, gen_case(chk.rng, i), 1000 + i)
    part_malformed(chk, None)


def replay(chk, drv, rep):
    r = rep['replay']
    print(json.dumps({k: v for k, v in r.items() if k != 'file'})[:1500])
    if r.get('kind') == 'container' and r.get('file_len', 0) * 2 == len(r['file']):
        p = tmpfile('replay.%s' % r['ext'])
        open(p, 'wb').write(bytes.fromhex(r['file']))
        g = impl_read(p)
        print('implementation now:', str(g)[:800])
    return 0
