# coding=utf-8
"""
C02 — packet framing: ordered, exactly-once, isolated, terminating.

(a) generated streams (any 32-bit type id, sizes 0..64 KiB incl. 0, arbitrary payload and
    timestamp bits, optionally cut inside the last header / payload) played through a
    PlayerBase subclass whose decoders deliberately read everything they can see; the
    (type, time, payload) sequence is compared with the model's framing and with an
    independent 12-byte splitter;
(b) unmapped-type packets (and mapped-but-ignored kinds) inserted at random / at all
    positions of generated histories in the four dialects: the result must not change;
(c) thorough: the same insertion into real recordings, summary compared.
"""
import json
import os
import random
import struct

from .. import common, histcheck
from ..gen import history
from ..impl import play as iplay
from ..impl import walk

WEIGHTS = dict(base=1, cell=1, create=5, prop=6, method=4, garbage=1, position=3, ppos=2, map=1, noise=6, nested=4)


def splitter(stream):
    """independent statement of the framing"""
    out, pos = [], 0
    while pos != len(stream):
        if len(stream) - pos < 12:
            return out, 'struct.error'
        size, ty, tm = struct.unpack('<III', stream[pos:pos + 12])
        out.append((ty, tm, stream[pos + 12:pos + 12 + size]))
        pos = min(len(stream), pos + 12 + size)
    return out, 'finished'


def gen_stream(rng):
    n = rng.choice([0, 1, 2, 5, 20, 60])
    parts = []
    for _ in range(n):
        ty = rng.choice([0, 1, 7, 8, 0x22, 0x27, 0xff, 0xffff, 2 ** 32 - 1, rng.getrandbits(32)])
        size = rng.choice([0, 0, 1, 4, 12, 13, 100, 255, 256, 4096, 65535, 65536]) if rng.random() < 0.3 else rng.randint(0, 40)
        payload = rng.randbytes(size)
        parts.append(struct.pack('<III', size, ty, rng.getrandbits(32)) + payload)
    stream = b''.join(parts)
    cut = None
    if parts and rng.random() < 0.4:
        last = len(parts[-1])
        k = rng.randint(1, last - 1) if last > 1 else 0
        if k:
            stream = stream[:len(stream) - last + k]
            cut = 'header' if k < 12 else 'payload'
    elif rng.random() < 0.1:
        stream += rng.randbytes(rng.randint(1, 11))
        cut = 'header'
    return stream, cut


def impl_frames(stream, mapped_types):
    """frames as the real play loop hands them to the dialect"""
    from replay_unpack.core import PlayerBase
    seen = []

    class Greedy:
        def __init__(self, s):
            self.all = s.read()         # everything this handler can reach
            self.more = s.read()

    class P(PlayerBase):
        def _get_definitions(self, version):
            return None

        def _get_packets_mapping(self, version):
            return {t: Greedy for t in mapped_types}

        def _deserialize_packet(self, packet):
            seen.append([packet.type, struct.unpack('<I', struct.pack('<f', packet.time))[0] if packet.time == packet.time else 'nan',
                         None, packet.size])
            return super()._deserialize_packet(packet)

        def _process_packet(self, time, packet):
            seen[-1][2] = packet.all if packet is not None else None
    import logging
    logging.disable(logging.CRITICAL)
    try:
        end = 'finished'
        try:
            P('x').play(stream, True)
        except struct.error:
            end = 'struct.error'
        return seen, end
    finally:
        logging.disable(logging.NOTSET)


def time_bits_equal(a, b):
    if a == 'nan':
        return (b & 0x7f800000) == 0x7f800000 and (b & 0x7fffff) != 0
    return a == b


def part_framing(chk, drv, n):
    rng = chk.rng
    cases = [gen_stream(rng) for _ in range(n)]
    replies = drv.run([{'op': 'frame.parse', 'stream': s.hex()} for s, _ in cases]) if drv is not None else [None] * n
    for i, ((stream, cut), m) in enumerate(zip(cases, replies)):
        exp, exp_end = splitter(stream)
        mapped = set(t for t, _, _ in exp if rng.random() < 0.5)
        got, end = impl_frames(stream, mapped)
        chk.count(('frame', stream), len(exp) >= 2 and len({t for t, _, _ in exp}) >= 2,
                  sample={'stream_len': len(stream), 'packets': [(t, len(p)) for t, _, p in exp][:6], 'cut': cut} if i < 2 else None)
        chk.dist('frames:packets', len(exp))
        chk.dist('frames:cut-%s' % cut)
        ok = end == exp_end and len(got) == len(exp)
        if ok:
            for (ty, tm, payload), (gty, gtm, gall, gsize) in zip(exp, got):
                if gty != ty or not time_bits_equal(gtm, tm) or (ty in mapped and gall != payload) or (ty not in mapped and gall is not None):
                    ok = False
                    break
        if not ok:
            chk.report('play does not hand exactly the framed packets (type, time, private payload) to the dialect, in order, once',
                       {'kind': 'framing', 'stream': stream.hex()[:4000], 'stream_len': len(stream), 'expected': [(t, tm, p.hex()[:60]) for t, tm, p in exp][:10],
                        'got': [(g[0], g[1], g[2].hex()[:60] if g[2] is not None else None) for g in got][:10], 'end': end, 'expected_end': exp_end})
        if m is not None:
            mp = [(t, tm, bytes.fromhex(p)) for t, tm, p, size in m['ok' if 'ok' in m else 'packets']]
            m_end = 'finished' if m['end'] == 'exhausted' else 'struct.error'
            if mp != exp or m_end != exp_end:
                chk.broken.append('correspondence frame.parse: model framing differs from the 12-byte splitter on a %d-byte stream' % len(stream))
            else:
                chk.cov['traces_validated_against_impl'] += 1


_REAL_SHAPES = None


def real_unmapped_shapes():
    """(type, payload, time bits) of the packets real recordings carry that no dialect maps -- e.g. the closing marker every recording
    ends with (type 0xFFFFFFFF, 16 bytes, time 0): an unmapped packet is an unmapped packet wherever it stands"""
    global _REAL_SHAPES
    if _REAL_SHAPES is None:
        shapes = {}
        try:
            from replay_unpack.replay_reader import ReplayReader
            everything = set().union(*history.MAPPED.values())
            seen_games, picked = set(), []
            for path in sorted(walk.recordings(), key=os.path.getsize):
                if walk.game_of(path) not in seen_games:
                    seen_games.add(walk.game_of(path))
                    picked.append(path)
            for path in picked:
                frames, _ = splitter(ReplayReader(path).get_replay_data().decrypted_data)
                for t, tm, p in frames[-3:] + frames:          # the closing packets first
                    if t not in everything and len(p) <= 256:
                        shapes.setdefault((t, len(p)), (t, bytes(p), tm))
        except Exception:
            pass
        _REAL_SHAPES = list(shapes.values())[:60]
    return _REAL_SHAPES


def insert_noise(rng, packets, dialect, positions=None, count=None):
    out = list(packets)
    count = count if count is not None else rng.randint(1, 8)
    real = real_unmapped_shapes()
    for _ in range(count):
        if real and rng.random() < 0.35:
            t, body, tm = rng.choice(real)
            if t not in history.MAPPED[dialect]:
                pos = rng.randint(0, len(out)) if positions is None else positions.pop()
                out.insert(pos, (t, body, {'kind': 'unmapped', 'time': tm}))
                continue
        while True:
            t = rng.choice([6, 9, 0x0b, 0x10, 0x17, 0x20, 0x21, 0x25, 0x26, 0x29, 0x30, 0xff, 0xffff, 2 ** 32 - 1, rng.getrandbits(32)])
            if t not in history.MAPPED[dialect]:
                break
        body = rng.randbytes(rng.choice([0, 1, 7, 64]))
        pos = rng.randint(0, len(out)) if positions is None else positions.pop()
        out.insert(pos, (t, body, {'kind': 'unmapped', 'time': 0}))
    return out


def insert_failing(rng, packets, dialect, burst=0):
    """mapped packets that fail while being decoded or applied, without any effect (unknown entity, payload shorter than the fixed
    fields, a nested update with no bits at all for an entity that exists): in lenient mode every other packet must still be
    delivered exactly as before -- the exception classes differ on purpose (KeyError, struct.error, plain Exception, AssertionError)"""
    tab = history.DIALECTS[dialect]
    out = list(packets)
    for _ in range(rng.randint(1, 4)):
        pos = rng.randint(1, len(out))
        known = [m['id'] for _, _, m in out[:pos] if m.get('kind') in ('create', 'base') and isinstance(m.get('id'), int) and 0 <= m['id'] < 2 ** 31]
        kind = rng.choice(['unknown-prop', 'unknown-method', 'short-prop', 'short-method', 'nested-empty', 'nested-size'])
        unknown = 3000000 + rng.randint(0, 1000)
        pkt = None
        if kind == 'unknown-prop':
            pkt = (tab['prop'], struct.pack('<II', unknown, 0) + history.bstream(b'\x00' * 4))
        elif kind == 'unknown-method':
            pkt = (tab['method'], struct.pack('<II', unknown, 0) + history.bstream(b''))
        elif kind == 'short-prop':
            pkt = (tab['prop'], b'\x01\x02')
        elif kind == 'short-method':
            pkt = (tab['method'], b'\x01\x02\x03')
        elif kind == 'nested-empty' and 'nested' in tab and known and dialect != 'wowp':
            pkt = (tab['nested'], struct.pack('<IbI', rng.choice(known), 0, 0))
        elif kind == 'nested-size' and 'nested' in tab and known:
            pkt = (tab['nested'], struct.pack('<IbI', rng.choice(known), 0, 9) + b'\x80')
        if pkt is not None:
            out.insert(pos, (pkt[0], pkt[1], {'kind': 'failing', 'fault': kind, 'time': 0}))
            if burst and kind in ('unknown-prop', 'unknown-method'):
                # a long uninterrupted run of the same failing packet (a recording whose entity was never created): however many there
                # are, each is skipped and the packets after them are delivered
                out[pos:pos] = [(pkt[0], pkt[1], {'kind': 'failing', 'fault': kind, 'time': 0})] * burst
                burst = 0
    return out


def _noise_worker(cfg):
    drv = common.Driver() if not cfg.get('no_model') else None
    st = histcheck.Setup(cfg['seed_key'])
    out = {'cases': [], 'problems': []}
    try:
        for hi in range(cfg['n_hist']):
            dialect = cfg['dialects'][hi % len(cfg['dialects'])]
            rng = random.Random('%s-%d-%s' % (cfg['seed_key'], hi, dialect))
            subs = histcheck.gen_subs(rng, st.views, 'all')
            # a set with a property of tens of kilobytes: a short history and a few insertion points (framing does not care about volume)
            heavy = any(p[1] >= 60000 and p[0] == 'huge' for v in st.views for p in v['clientProps'])
            h = history.generate(rng, st.views, dialect, min(cfg['n_events'], 15) if heavy else cfg['n_events'], weights=WEIGHTS,
                                 subscribed=set(s[0] for s in subs['methods']))
            base_packets = h.packets
            _, ref, _ = histcheck.run_history(None, st, dialect, base_packets, strict=False, subs=subs)
            variants = []
            if cfg.get('all_positions') and not heavy:
                for pos in range(len(base_packets) + 1):
                    variants.append(insert_noise(rng, base_packets, dialect, positions=[pos], count=1))
            else:
                for _ in range(cfg.get('variants', 3)):
                    variants.append(insert_noise(rng, base_packets, dialect))
            key = '%s-%d' % (cfg['seed_key'], hi)
            bad = None
            if dialect != 'wowp':
                for vi in range(2):
                    v = insert_failing(rng, base_packets, dialect, burst=(1100 if (vi == 1 and hi == 0) else 0))
                    _, got, _ = histcheck.run_history(None, st, dialect, v, strict=False, subs=subs)
                    if got['world'] != ref['world'] or got['log'] != ref['log'] or histcheck.norm_end(got) != histcheck.norm_end(ref):
                        bad = ('oracle', 'lenient mode: packets that fail without effect change what the other packets do: %s' % (
                            histcheck.compare_worlds(got['world'], ref['world']) or ('ending %s vs %s' % (histcheck.norm_end(got), histcheck.norm_end(ref))) ), v)
                        break
            for v in ([] if bad else variants):
                for strict in (False, True):
                    model, got, _ = histcheck.run_history(drv if strict is False else None, st, dialect, v, strict=strict, subs=subs)
                    refx = ref if not strict else histcheck.run_history(None, st, dialect, base_packets, strict=True, subs=subs)[1]
                    if got['world'] != refx['world'] or got['log'] != refx['log'] or histcheck.norm_end(got) != histcheck.norm_end(refx):
                        bad = ('oracle', 'inserting unmapped packets changes the result (%s mode): %s' % (
                            'strict' if strict else 'lenient',
                            histcheck.compare_worlds(got['world'], refx['world']) or ('ending %s vs %s' % (histcheck.norm_end(got), histcheck.norm_end(refx)))), v)
                        break
                    if model is not None and (histcheck.compare_worlds(model['world'], got['world']) or model['log'] != got['log']):
                        bad = ('corr', 'model vs implementation with inserted unmapped packets: %s' % (
                            histcheck.compare_worlds(model['world'], got['world']) or 'log'), v)
                        break
                if bad:
                    break
            out['cases'].append({'key': key, 'dialect': dialect, 'variants': len(variants), 'packets': len(base_packets),
                                 'kinds': len({m['kind'] for _, _, m in base_packets})})
            if bad:
                out['problems'].append({'oracle': bad[1] if bad[0] == 'oracle' else None, 'corr': bad[1] if bad[0] == 'corr' else None,
                                        'dialect': dialect, 'defset': st.ds, 'subs': subs, 'packets': histcheck.packets_json(bad[2]),
                                        'strict': False, 'key': key})
    finally:
        st.cleanup()
    return out


def part_noise(chk, drv, n_sets, all_positions_every=5, label='noise'):
    cfgs = [dict(seed_key='C02-%s-%d' % (chk.seed, i), dialects=['wowsOld', 'wowsNew', 'wot', 'wowp'], n_hist=4,
                 n_events=25 if i % all_positions_every == 0 else 60, all_positions=(i % all_positions_every == 0),
                 no_model=(drv is None)) for i in range(n_sets)]
    for r in common.pmap(_noise_worker, cfgs):
        bad = set()
        for p in r['problems']:
            bad.add(p['key'])
            rep = {'kind': 'history', 'dialect': p['dialect'], 'strict': False, 'subs': p['subs'], 'defset': p['defset'],
                   'packets': p['packets'], 'oracle': p['oracle'], 'correspondence': p['corr']}
            if p['oracle']:
                chk.report(p['oracle'], rep)
            else:
                chk.broken.append('correspondence (%s, %s): %s' % (p['dialect'], p['key'], p['corr']))
        for c in r['cases']:
            chk.count((label, c['key']), c['packets'] >= 2 and c['kinds'] >= 2)
            chk.dist('%s:histories' % label)
            chk.dist('%s:variants' % label, c['variants'])
            chk.dist('%s:dialect:%s' % (label, c['dialect']))
            if c['key'] not in bad:
                chk.cov['traces_validated_against_impl'] += 1


def _recording_noise(args):
    path, seed, n_variants = args
    import replay_parser
    from replay_unpack.replay_reader import ReplayReader, ReplayInfo
    import logging
    rng = random.Random('C02-rec-%s-%s' % (seed, os.path.basename(path)))
    data = ReplayReader(path).get_replay_data()
    game = walk.game_of(path)
    dialect_noise = {'wows': 'wowsNew', 'wot': 'wot', 'wowp': 'wowp'}[game]   # types unmapped in both wows tables
    unm = [t for t in (6, 9, 0x0b, 0x10, 0x17, 0x20, 0x21, 0x25, 0x26, 0x29, 0x30, 0xff, 0xffff) if t not in history.MAPPED['wowsOld'] | history.MAPPED[dialect_noise]]
    stream = data.decrypted_data
    frames, _ = splitter(stream)
    offsets = [0]
    for t, tm, p in frames:
        offsets.append(offsets[-1] + 12 + len(p))
    logging.disable(logging.CRITICAL)
    try:
        def summary(s):
            parser = replay_parser.ReplayParser(path, strict=False)
            info = parser._get_hidden_data(ReplayInfo(game=data.game, engine_data=data.engine_data, extra_data=data.extra_data, decrypted_data=s))
            return json.dumps(info, cls=replay_parser.DefaultEncoder, ensure_ascii=False)   # the shipped encoder: no addresses, insertion order
        ref = summary(stream)
        for v in range(n_variants):
            cuts = sorted(rng.sample(offsets, min(len(offsets), rng.choice([1, 10, 1000]))))
            parts, prev = [], 0
            for c in cuts:
                parts.append(stream[prev:c])
                body = rng.randbytes(rng.choice([0, 3, 40]))
                parts.append(struct.pack('<III', len(body), rng.choice(unm), rng.getrandbits(32)) + body)
                prev = c
            parts.append(stream[prev:])
            if summary(b''.join(parts)) != ref:
                return {'path': path, 'diff': 'summary changes when %d unmapped packets are inserted' % len(cuts), 'cuts': cuts[:20]}
    except Exception as e:
        return {'path': path, 'error': repr(e)}
    finally:
        logging.disable(logging.NOTSET)
    return {'path': path, 'diff': None, 'frames': len(frames)}


def part_recordings(chk, n, variants):
    from .C03 import pick_recordings
    paths = pick_recordings(chk, n, small=(n <= 3))
    for r in common.pmap(_recording_noise, [(p, chk.seed, variants) for p in paths], procs=min(16, len(paths))):
        name = os.path.basename(r['path'])
        if 'error' in r:
            chk.notes.append('recording %s skipped: %s' % (name, r['error']))
            continue
        chk.count(('rec', name), True)
        chk.dist('recordings:files')
        if r['diff']:
            chk.report('recording %s: %s' % (name, r['diff']), {'kind': 'recording-noise', 'file': os.path.relpath(r['path'], common.REPO), 'cuts': r['cuts']})


def run(chk, drv):
    quick = chk.tier == 'quick'
    chk.cov['rule'] = ('(a) generated byte streams of 0..60 packets (any type id, sizes 0..65536, optional cut inside the last header/payload); '
                       '(b) generated histories x insertions of unmapped packets (random positions; every position for 1 in 5 sets), 4 dialects, both modes; '
                       '(c) recordings with unmapped packets inserted at packet boundaries. Non-trivial: >= 2 packets of >= 2 kinds. Distinct by stream / history.')
    part_framing(chk, drv, 400 if quick else 5000)
    part_noise(chk, drv, 30 if quick else 500)
    part_recordings(chk, 2 if quick else 1000, 2 if quick else 4)


def search(chk, drv):
    part_framing(chk, None, 1500)
    if not chk.violations:
        part_noise(chk, None, 40, label='search')


def replay(chk, drv, rep):
    r = rep['replay']
    if r.get('kind') == 'framing':
        s = bytes.fromhex(r['stream'])
        print('splitter :', [(t, tm, p.hex()[:40]) for t, tm, p in splitter(s)[0]][:10])
        print('impl     :', impl_frames(s, set())[1])
        return 0
    if r.get('kind') == 'history':
        return histcheck.replay_history(chk, drv, rep)
    print(json.dumps(r)[:2000])
    return 0
