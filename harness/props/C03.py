# coding=utf-8
"""
C03 — decoding of .def-declared types is exact and consumes exactly its bytes.

(i)   generated type trees (loaded through the real Alias from generated alias.xml, with
      alias chains) x generated values: wire bytes -> real decoder; value and tell()
      compared with the specification, and with the model's decoder on the same bytes
      (also on truncated / corrupted encodings);
(ii)  every type reachable from the bundled definition sets, values generated per type;
(iii) every property-update and method-call payload of real recordings decoded by the
      implementation and by the model as independent decoder; consumed == len asserted.
"""
import hashlib
import io
import json
import os

from .. import common
from ..gen import types as gt
from ..impl import codec, walk
from ..oracle import wire


def strip(t):
    """type tree without generator-only annotations"""
    k = t['k']
    if k in ('array', 'user'):
        d = {'k': k, 'of': strip(t['of'])}
        if k == 'array':
            d['size'] = t['size']
        return d
    if k == 'dict':
        return {'k': 'dict', 'fields': [[n, strip(f)] for n, f in t['fields']], 'allowNone': t['allowNone']}
    return {kk: vv for kk, vv in t.items() if not kk.startswith('_')}


def mutate(rng, b):
    r = rng.random()
    if not b or r < 0.35:
        return b[:rng.randint(0, max(0, len(b) - 1))]               # truncation
    b = bytearray(b)
    if r < 0.7:
        i = rng.randrange(len(b))
        b[i] ^= 1 << rng.randrange(8)                                # bit flip
    elif r < 0.85:
        i = rng.randrange(len(b))
        b[i] = rng.choice([0, 1, 2, 0xfe, 0xff])                     # tampered length / flag
    else:
        i = rng.randrange(len(b) + 1)
        b[i:i] = bytes(rng.getrandbits(8) for _ in range(rng.randint(1, 3)))
    return bytes(b)


def check_cases(chk, drv, cases, label):
    """cases: list of (tree, obj, value, h). Runs spec + correspondence."""
    reqs = []
    metas = []
    for (t, obj, v, h) in cases:
        enc = wire.encode(t, v, h)
        rest = bytes(chk.rng.getrandbits(8) for _ in range(chk.rng.choice([0, 0, 1, 3])))
        mut = mutate(chk.rng, enc + rest)
        metas.append((enc, rest, mut))
        reqs.append({'op': 'codec.encode', 'ty': t, 'h': h, 'val': v})
        reqs.append({'op': 'codec.decode', 'ty': t, 'h': h, 'bytes': (enc + rest).hex()})
        reqs.append({'op': 'codec.decode', 'ty': t, 'h': h, 'bytes': mut.hex()})
    replies = drv.run(reqs) if drv is not None else None
    for i, ((t, obj, v, h), (enc, rest, mut)) in enumerate(zip(cases, metas)):
        kinds = gt.type_kinds(t)
        for k in kinds:
            chk.dist('%s:kind:%s' % (label, k), kinds[k])
        chk.dist('%s:enc_len:%s' % (label, 'ge65536' if len(enc) >= 65536 else 'ge255' if len(enc) >= 255 else 'small'))
        uok = wire.user_ok(t, v, h)
        nontrivial = gt.is_nested(t) or len(enc) >= 255
        chk.count((json.dumps(t, sort_keys=True), json.dumps(v, sort_keys=True), h), nontrivial,
                  sample={'ty': t, 'val': v, 'h': h, 'wire': enc.hex()[:200]} if (i < 2 and len(enc) < 200) else None)
        got = codec.impl_decode(obj, t, enc + rest, h)
        want = {'ok': codec.canon_model(t, v), 'used': len(enc)}
        got_mut = codec.impl_decode(obj, t, mut, h)
        # --- the property itself, on the implementation alone
        if got != want:
            if uok:
                chk.report('decode(wire(v)) differs from v or does not consume exactly the encoding (%s)' % label,
                           {'kind': 'roundtrip', 'ty': t, 'val': v, 'h': h, 'wire': enc.hex(), 'rest': rest.hex(), 'impl': got, 'expected': want})
            else:
                chk.report('USER_TYPE with a non-blob inner type: header skipped by the method header size',
                           {'kind': 'roundtrip', 'ty': t, 'val': v, 'h': h, 'wire': enc.hex(), 'impl': got, 'expected': want},
                           key='usertype-nonblob-header')
        # --- correspondence model <-> implementation
        if replies is not None:
            m_enc, m_dec, m_mut = replies[3 * i], replies[3 * i + 1], replies[3 * i + 2]
            if m_enc['ok'] != enc.hex() or not m_enc['hasTy'] or m_enc['userOK'] != uok:
                chk.broken.append('correspondence: model encodeWire/hasTy/userOK differs from the harness wire oracle on %s' % json.dumps({'ty': t, 'val': v, 'h': h})[:400])
            for which, m, g, data in (('wire', m_dec, got, enc + rest), ('mutated', m_mut, got_mut, mut)):
                mc = dict(m)
                if 'ok' in mc:
                    mc['ok'] = codec.canon_model(t, mc['ok'])
                if ('ok' in mc) != ('ok' in g) or ('ok' in mc and mc != g):
                    chk.broken.append('correspondence codec.decode (%s): model %s vs implementation %s on ty=%s h=%d bytes=%s' % (
                        which, json.dumps(mc)[:300], json.dumps(g)[:300], json.dumps(t)[:300], h, data.hex()[:200]))
                else:
                    chk.cov['traces_validated_against_impl'] += 1
                    chk.dist('%s:%s:%s' % (label, which, 'ok' if 'ok' in g else 'err-' + g['err']))
                    if 'err' in g and mc.get('err') != g['err']:
                        chk.dist('%s:errclass-differs' % label)


def part_generated(chk, drv, n_types, vals_per_type):
    rng = chk.rng
    done = 0
    batch = 40
    while done < n_types:
        trees = []
        for _ in range(min(batch, n_types - done)):
            t = gt.gen_type(rng, depth=rng.choice([1, 2, 3, 4, 6]), width=rng.choice([2, 4, 8]))
            trees.append(t)
        ad = codec.AliasDir('c03')
        try:
            objs = ad.load(trees, rng)
        finally:
            ad.cleanup()
        cases = []
        for t, obj in zip(trees, objs):
            st = strip(t)
            refl = codec.ty_of_obj(obj)
            if refl != st:
                chk.report('alias/section resolution builds a different type than the expanded section',
                           {'kind': 'alias', 'declared': st, 'resolved': refl, 'xml': gt.type_xml_body(t)})
                continue
            for _ in range(vals_per_type):
                cases.append((st, obj, gt.gen_value(rng, st), rng.choice([1, 1, 2])))
        check_cases(chk, drv, cases, 'gen')
        done += len(trees)


def _load_bundled(dirpath):
    """all distinct types reachable from one bundled definition set, as Ty JSON"""
    from replay_unpack.core.entity_def.data_types import Alias
    out = {}
    try:
        alias = Alias(dirpath)
    except Exception as e:
        return dirpath, None, repr(e)
    for name, obj in alias._mapping.items():
        try:
            t = codec.ty_of_obj(obj)
        except Exception as e:
            return dirpath, None, 'ty_of_obj(%s): %r' % (name, e)
        out[json.dumps(t, sort_keys=True)] = name
    return dirpath, out, None


def bundled_dirs():
    out = []
    base = os.path.join(common.REPO, 'replay_unpack', 'clients')
    for game in ('wows', 'wot', 'wowp'):
        vdir = os.path.join(base, game, 'versions')
        for v in sorted(os.listdir(vdir)):
            if os.path.isdir(os.path.join(vdir, v, 'scripts')):
                out.append(os.path.join(vdir, v))
    return out


def part_bundled(chk, drv, vals_per_type, max_types=None):
    from replay_unpack.core.entity_def.data_types import Alias
    dirs = bundled_dirs()
    res = common.pmap(_load_bundled, dirs)
    uniq = {}
    for d, types, err in res:
        if types is None:
            chk.notes.append('bundled set %s: %s' % (os.path.relpath(d, common.REPO), err))
            continue
        for js, name in types.items():
            uniq.setdefault(js, (d, name))
    chk.cov['bundled_sets'] = len(dirs)
    chk.cov['bundled_distinct_types'] = len(uniq)
    items = sorted(uniq.items())
    if max_types is not None and len(items) > max_types:
        items = chk.rng.sample(items, max_types)
    # re-create live objects per directory
    by_dir = {}
    for js, (d, name) in items:
        by_dir.setdefault(d, []).append((js, name))
    cases = []
    for d, lst in sorted(by_dir.items()):
        alias = Alias(d)
        for js, name in lst:
            t = json.loads(js)
            obj = alias._mapping[name]
            for _ in range(vals_per_type):
                cases.append((t, obj, gt.gen_value(chk.rng, t, big_ok=False), chk.rng.choice([1, 2])))
    check_cases(chk, drv, cases, 'bundled')


# ---- recordings ----------------------------------------------------------------------

class PayloadObserver(walk.Observer):
    """Decodes every method-call and property-update payload with the implementation on a
    private stream and records (types, header, payload, value, used)."""

    def __init__(self, game, limit=None, always=()):
        self.always = set(always)
        self.game = game
        self.records = []     # (kind, owner, member, h, [ty json], payload, result)
        self.types = {}
        self.limit = limit
        self.seen = 0

    def tyref(self, obj):
        t = codec.ty_of_obj(obj)
        js = json.dumps(t, sort_keys=True)
        ref = hashlib.sha1(js.encode()).hexdigest()[:16]
        self.types[ref] = t
        return ref, t

    def on_packet(self, player, time, packet):
        name = type(packet).__name__
        if name not in ('EntityMethod', 'EntityProperty'):
            return
        ents = player._battle_controller.entities
        if name == 'EntityMethod':
            e = ents.get(packet.entityId)
            if e is None:
                return
            try:
                m = e._methods[packet.messageId]
            except IndexError:
                return
            payload = packet.data.value
            h = m._variable_header_size
            targs = [a.type for a in m._arguments]
            member = m.get_name()
            kind = 'M'
        else:
            e = ents.get(packet.objectID)
            if e is None:
                return
            try:
                p = e.client_properties[packet.messageId]
            except IndexError:
                return
            payload = packet.data.value
            h = 1
            targs = [p._type]
            member = p.get_name()
            kind = 'P'
        self.seen += 1
        if self.limit is not None and self.seen > self.limit and (e.get_name(), member) not in self.always:
            return
        refs = []
        tys = []
        for a in targs:
            r, t = self.tyref(a)
            refs.append(r)
            tys.append(t)
        s = io.BytesIO(payload)
        vals = []
        res = None
        for a, t in zip(targs, tys):
            try:
                v = a.create_from_stream(s, h)
                vals.append(codec.canon_py(t, v))
            except Exception as ex:
                res = {'err': codec.err_class(ex), 'at': len(vals)}
                break
        if res is None:
            res = {'ok': vals, 'used': s.tell()}
        self.records.append((kind, e.get_name(), member, h, refs, payload, res))


def _walk_recording(args):
    path, limit, always = args
    game = walk.game_of(path)
    obs = PayloadObserver(game, limit, always)
    try:
        walk.parse_observed(path, obs)
    except Exception as e:
        return {'path': path, 'error': repr(e)}
    # model as independent decoder
    reqs = [{'op': 'ty.def', 'name': r, 'ty': t} for r, t in obs.types.items()]
    n0 = len(reqs)
    for (kind, owner, member, h, refs, payload, res) in obs.records:
        reqs.append({'op': 'codec.decodeSeq', 'tyrefs': refs, 'h': h, 'bytes': payload.hex()})
    try:
        drv = common.Driver()
        replies = drv.run(reqs)[n0:]
    except Exception as e:
        replies = None
        drv_err = repr(e)
    out = {'path': path, 'game': game, 'n': len(obs.records), 'seen': obs.seen, 'inexact': {}, 'disagree': [], 'agree': 0,
           'members': len({(r[1], r[2]) for r in obs.records}), 'sample': None, 'driver_error': None if replies is not None else drv_err}
    for i, (kind, owner, member, h, refs, payload, res) in enumerate(obs.records):
        tys = [obs.types[r] for r in refs]
        if 'err' in res or res['used'] != len(payload):
            has_user = any(gt.has_nonblob_user(t) for t in tys)
            cause = 'usertype-header' if has_user else ('wowp-count32' if game == 'wowp' else 'unknown')
            key = '%s:%s.%s:%s' % (game, owner, member, cause)
            d = out['inexact'].setdefault(key, {'count': 0, 'example': None})
            d['count'] += 1
            if d['example'] is None:
                d['example'] = {'file': os.path.relpath(path, common.REPO), 'owner': owner, 'member': member, 'kind': kind, 'h': h,
                                'types': tys, 'payload': payload.hex()[:400], 'payload_len': len(payload), 'impl': res if 'err' in res else {'used': res['used']}}
        if replies is not None:
            m = dict(replies[i])
            if 'ok' in m:
                m['ok'] = [codec.canon_model(t, v) for t, v in zip(tys, m['ok'])]
            same = (m == res) if 'ok' in res else ('err' in m and m.get('at') == res.get('at'))
            if same:
                out['agree'] += 1
            elif len(out['disagree']) < 3:
                out['disagree'].append({'owner': owner, 'member': member, 'h': h, 'types': tys, 'payload': payload.hex()[:400],
                                        'impl': json.dumps(res)[:400], 'model': json.dumps(m)[:400]})
        if out['sample'] is None and 'ok' in res and len(payload) < 40 and len(payload) > 4:
            out['sample'] = {'file': os.path.basename(path), 'member': '%s.%s' % (owner, member), 'payload': payload.hex(), 'decoded': res}
    return out


def part_recordings(chk, paths, limit=None):
    always = []
    for f in chk.known:
        parts = f['key'].split(':')
        if len(parts) == 3 and '.' in parts[1]:
            always.append(tuple(parts[1].split('.', 1)))
    res = common.pmap(_walk_recording, [(p, limit, always) for p in paths], procs=min(16, len(paths)))
    total = 0
    for r in res:
        if 'error' in r:
            chk.notes.append('recording %s could not be walked: %s' % (os.path.basename(r['path']), r['error']))
            continue
        if r['driver_error']:
            raise common.Infra('driver: ' + r['driver_error'])
        total += r['n']
        chk.cov['evaluations'] += r['n']
        chk.cov['traces_validated_against_impl'] += r['agree']
        chk.dist('recordings:payloads', r['n'])
        chk.dist('recordings:files')
        for i in range(r['members']):
            chk._distinct.add('rec:%s:%d' % (os.path.basename(r['path']), i))
        if r['sample'] and len(chk.cov['samples']) < 6:
            chk.cov['samples'].append(r['sample'])
        for key, d in sorted(r['inexact'].items()):
            chk.report('payload not consumed exactly: %s (%d payloads in %s)' % (key, d['count'], os.path.basename(r['path'])),
                       d['example'], key=key)
        for dis in r['disagree']:
            chk.broken.append('correspondence (recording %s): model as independent decoder differs: %s' % (os.path.basename(r['path']), json.dumps(dis)[:600]))
    chk.cov['recording_payloads'] = total


def pick_recordings(chk, n, small=False):
    allr = walk.recordings()
    if small:
        # the n smallest files, rotated by the seed within each game
        by_game = {}
        for p in sorted(allr, key=os.path.getsize):
            by_game.setdefault(walk.game_of(p), []).append(p)
        out = []
        for g in ('wows', 'wot', 'wowp'):
            lst = by_game.get(g, [])
            if lst:
                out.append(lst[chk.seed % min(len(lst), 4)])
        return out[:n] if n < len(out) else out
    if n >= len(allr):
        return allr
    # one per game first, then newest/oldest wows, then random
    by_game = {}
    for p in allr:
        by_game.setdefault(walk.game_of(p), []).append(p)
    picked = []
    for f in chk.known:     # the recorded witnesses of known findings are always probed
        w = (f.get('witness') or {}).get('file')
        if w and os.path.join(common.REPO, w) in allr and os.path.join(common.REPO, w) not in picked:
            picked.append(os.path.join(common.REPO, w))
    n += len(picked)
    picked += [by_game[g][chk.seed % len(by_game[g])] for g in sorted(by_game) if by_game[g][chk.seed % len(by_game[g])] not in picked]
    rest = [p for p in allr if p not in picked]
    chk.rng.shuffle(rest)
    return picked + rest[:max(0, n - len(picked))]


def part_boundaries(chk, drv):
    """every length around the limits of the packed form (one byte below 255, 0xFF + 3 bytes from 255 on, the 16-bit boundary inside
    the 3-byte form), for each variable-length kind, alone and inside an array and a dict -- on every run, not by chance"""
    trees, vals = [], []
    for kind in ('string', 'blob', 'python'):
        for n in gt.BOUNDARY_LENGTHS + [70000]:
            raw = (bytes((7 * i + n) & 0x7f or 0x41 for i in range(n)) if kind == 'string' else bytes((i * 31 + n) & 0xff for i in range(n)))
            v = {'s': raw.hex()} if kind == 'string' else {'b': raw.hex()}
            t = {'k': kind}
            shapes = [(t, v)]
            if n in (254, 255, 65535, 65536):
                shapes += [({'k': 'array', 'of': t, 'size': None}, [v, v]),
                           ({'k': 'dict', 'fields': [['a', t], ['z', {'k': 'int', 'size': 2, 'signed': False}]], 'allowNone': False}, {'d': [['a', v], ['z', 513]]})]
            for tt, vv in shapes:
                trees.append(tt)
                vals.append(vv)
    ad = codec.AliasDir('c03b')
    try:
        objs = ad.load(trees)
    finally:
        ad.cleanup()
    check_cases(chk, drv, [(strip(t), o, v, 1) for t, o, v in zip(trees, objs, vals)], 'boundary')
    chk.dist('boundary-lengths', len(trees))


def run(chk, drv):
    quick = chk.tier == 'quick'
    chk.cov['rule'] = ('(type tree, value, header size) triples: generated from the alias/.def grammar (depth<=6, width<=8, alias chains) and from every '
                       'distinct type of the bundled definition sets; plus every method/property payload of the chosen recordings. '
                       'Non-trivial: the type has a variable-length or nested constructor or the encoding is >=255 bytes; recordings count one '
                       'distinct class per (file, entity member). Distinct by (type, value, h).')
    # corpus
    cdir = os.path.join(common.VERIF, 'corpus', 'C03')
    if os.path.isdir(cdir):
        for fn in sorted(os.listdir(cdir)):
            for line in open(os.path.join(cdir, fn)):
                if line.strip():
                    c = json.loads(line)
                    ad = codec.AliasDir('c03c')
                    try:
                        obj = ad.load([c['ty']])[0]
                    finally:
                        ad.cleanup()
                    check_cases(chk, drv, [(strip(c['ty']), obj, c['val'], c['h'])], 'corpus')
    part_boundaries(chk, drv)
    part_generated(chk, drv, 400 if quick else 6000, 4 if quick else 8)
    part_bundled(chk, drv, 1 if quick else 4, max_types=1500 if quick else None)
    part_recordings(chk, pick_recordings(chk, 5 if quick else 1000), limit=40000 if quick else None)
    chk.assumptions.append('USER_TYPE values are modelled as packed-length header + the declared inner encoding; the real converters are opaque (DESIGN §6 D7)')


def search(chk, drv):
    """oracle only: the round-trip property on the implementation, fresh random budget"""
    rng = chk.rng
    for _ in range(10):
        trees = [gt.gen_type(rng, depth=3) for _ in range(40)]
        ad = codec.AliasDir('c03s')
        try:
            objs = ad.load(trees, rng)
        finally:
            ad.cleanup()
        cases = [(strip(t), o, gt.gen_value(rng, strip(t)), 1) for t, o in zip(trees, objs) for _ in range(5)]
        check_cases(chk, None, cases, 'search')
        if chk.violations:
            return


def replay(chk, drv, rep):
    r = rep['replay']
    print(json.dumps(r, indent=1)[:3000])
    if r.get('kind') == 'roundtrip':
        ad = codec.AliasDir('c03r')
        try:
            obj = ad.load([r['ty']])[0]
        finally:
            ad.cleanup()
        data = bytes.fromhex(r['wire']) + bytes.fromhex(r.get('rest', ''))
        print('impl now :', codec.impl_decode(obj, r['ty'], data, r['h']))
        if drv:
            print('model    :', drv.run([{'op': 'codec.decode', 'ty': r['ty'], 'h': r['h'], 'bytes': data.hex()}])[0])
    return 0
