# coding=utf-8
"""
C11 — the replay version selects matching definitions, controller and packet table.
Generated version strings in the three games' formats (blanks, NBSP, build suffixes; every
bundled version with arbitrary builds, the build-specific siblings, unbundled versions
below / between / above) are wrapped into minimal containers and parsed by ReplayParser in
both modes; observed: error / hidden / exception, the module of the controller, the
directory of the definitions and the packet table of the constructed player. Compared with
the model and with the rule restated over the directory listing.
"""
import importlib
import json
import logging
import os

from .. import common, container
from ..impl import walk

GAMES = {'wows': 'wowsreplay', 'wot': 'wotreplay', 'wowp': 'wowpreplay'}


def bundled(game):
    """what is bundled, from the tree (directory listing + import attempts)"""
    base = os.path.join(common.REPO, 'replay_unpack', 'clients', game, 'versions')
    out = {'defs': [], 'modules': [], 'controllers': []}
    for name in sorted(os.listdir(base)):
        d = os.path.join(base, name)
        if not os.path.isdir(d) or name == '__pycache__':
            continue
        if os.path.exists(os.path.join(d, 'scripts', 'entity_defs', 'alias.xml')):
            out['defs'].append(name)
        try:
            m = importlib.import_module('replay_unpack.clients.%s.versions.%s' % (game, name))
            out['modules'].append(name)
            if hasattr(m, 'BattleController'):
                out['controllers'].append(name)
        except Exception:
            pass
    return out


def gen_version(rng, game, b):
    """-> (raw string for the json, description)"""
    names = sorted(set(b['defs']) | set(b['modules']))
    r = rng.random()
    if r < 0.12 and names:
        # a release whose name is a string prefix (or an extension) of a bundled one: 2.1.1 next to 2.1.17, 0.10 next to 0.1, ...
        comps = rng.choice(names).split('_')[:3]
        j = rng.randrange(len(comps))
        comps[j] = comps[j][:-1] if (len(comps[j]) > 1 and rng.random() < 0.6) else comps[j] + rng.choice('0127')
    elif r < 0.6 and names:
        comps = rng.choice(names).split('_')
    elif r < 0.8:
        comps = [str(rng.choice([0, 1, 2, 9, 12, 13, 14, 15, 99])), str(rng.randint(0, 13)), str(rng.randint(0, 12))]
    else:
        comps = rng.choice([['12', '5', '9'], ['12', '6', '0'], ['12', '5', '0'], ['12', '6', '1'], ['13', '0', '0'], ['0', '9', '4'], ['11', '99', '0']])
    if len(comps) == 3 and rng.random() < 0.8:
        comps = comps + [str(rng.choice([0, 1, 7983292, 2442770, rng.randint(0, 10 ** 7)]))]
    if game == 'wows':
        sep = rng.choice([',', ', ', ' , '])
        return sep.join(comps), comps
    if game == 'wowp':
        return 'World of Warplanes ' + rng.choice(['.', '. ']).join(comps), comps
    # wot: 'World of Tanks v.1.8.0.2 #252' with no-break spaces
    prefix = rng.choice(['World\xa0of\xa0Tanks v.', 'World\xa0of\xa0Tanks v.', ''])     # the game writes no-break spaces
    return prefix + '.'.join(comps) + rng.choice([' #252', '', ' #1']), comps


class PlayerProbe(walk.Observer):
    def __init__(self):
        self.player = None


def minimal_file(game, raw, engine=None):
    ext = GAMES[game]
    if engine is None:
        # the field each game's loader reads, surrounded by the other version-like fields real headers carry, holding *other* (bundled) versions
        engine = {'clientVersionFromExe': '0,8,0,0', 'clientVersion': 'World of Warplanes 2.1.20.0', 'gameVersion': '13,2,0,0', 'version': '0.10.0'}
        engine.update({'clientVersionFromXml': raw} if game != 'wowp' else {'clientVersion': raw, 'clientVersionFromXml': '2,1,17,0'})
    return container.write_container(ext, json.dumps(engine, ensure_ascii=False).encode('utf-8'), [], b'')


def getinfo_request(game, data, version, bund, strict):
    """the model's get_info on the same file: cipher table and inflated stream supplied (external), version field extracted here (json)"""
    ext = GAMES[game]
    req = container.model_request(ext, data)
    return {'op': 'getinfo', 'ext': ext, 'file': req['file'], 'dtable': req['dtable'], 'stream': '', 'version': version,
            'bundled': bund, 'strict': strict}


def outcome_class(o):
    """comparable form of an observed get_info outcome"""
    if 'raised' in o:
        return {'raises': True}
    return {'returns': {'error': o.get('error')}}


def observe(game, raw, strict, data=None):
    """parse a minimal container carrying this version string"""
    import replay_parser
    from replay_unpack.clients import wows, wot, wowp
    ext = GAMES[game]
    if data is None:
        data = minimal_file(game, raw)
    path = os.path.join(common.WORK, 'c11-%d.%s' % (os.getpid(), ext))
    with open(path, 'wb') as f:
        f.write(data)
    seen = {}
    mods = {'wows': wows, 'wot': wot, 'wowp': wowp}
    saved = {g: m.ReplayPlayer for g, m in mods.items()}

    def wrap(base):
        class Probe(base):
            def __init__(self, version):
                super().__init__(version)
                seen['player'] = self
        Probe.__name__ = 'ReplayPlayer'
        return Probe
    logging.disable(logging.CRITICAL)
    try:
        for g, m in mods.items():
            m.ReplayPlayer = wrap(saved[g])
        out = {}
        try:
            info = replay_parser.ReplayParser(path, strict=strict).get_info()
            out['hidden'] = info['hidden'] is not None
            out['error'] = info['error']
        except Exception as e:
            out['raised'] = type(e).__name__
            out['message'] = str(e)
        p = seen.get('player')
        if p is not None:
            out['controller'] = type(p._battle_controller).__module__.split('.versions.')[1].split('.')[0]
            try:
                out['defs'] = os.path.basename(p._definitions.get_entity_def_by_index(1)._base_dir)
            except Exception as e:
                out['defs'] = 'unobservable: %r' % (e,)
            if game == 'wows':
                from replay_unpack.clients.wows.network.packets import PACKETS_MAPPING_12_6
                out['newTable'] = p._mapping == PACKETS_MAPPING_12_6 and 0x28 in p._mapping
            else:
                out['newTable'] = False
        return out
    finally:
        for g, m in mods.items():
            m.ReplayPlayer = saved[g]
        logging.disable(logging.NOTSET)
        os.unlink(path)


def rule(game, comps, b):
    """the stated rule over the directory listing: (controller, defs, newTable) or None"""
    if game == 'wot':
        name = '_'.join(comps[:3])
        return (name, name, False) if name in b['controllers'] and name in b['defs'] else None
    c4, c3 = '_'.join(comps[:4]), '_'.join(comps[:3])
    ctrl = c4 if c4 in b['modules'] else c3 if c3 in b['modules'] else None
    defs = c4 if c4 in b['defs'] else c3 if c3 in b['defs'] else None
    if ctrl is None or defs is None or ctrl not in b['controllers']:
        return None
    new = False
    if game == 'wows':
        try:
            t = tuple(int(x) for x in comps)
        except ValueError:
            return None
        new = t[:3] >= (12, 6, 0)
    return (ctrl, defs, new)


def run(chk, drv):
    quick = chk.tier == 'quick'
    n = 240 if quick else 6000
    chk.cov['rule'] = ('version strings in the three formats (blanks, NBSP prefix, build suffixes): bundled versions with random builds, the '
                       'build-specific siblings, unbundled versions around the range and the 12.6.0 boundary; both modes. Non-trivial: exercises '
                       'the 4->3 fallback, a refusal or the 12.6.0 boundary. Distinct by (game, normalised string).')
    bund = {g: bundled(g) for g in GAMES}
    chk.cov['bundled'] = {g: {k: len(v) for k, v in b.items()} for g, b in bund.items()}
    reqs, cases = [], []
    for i in range(n):
        game = ['wows', 'wows', 'wot', 'wowp'][i % 4]
        raw, comps = gen_version(chk.rng, game, bund[game])
        cases.append((game, raw, comps))
        reqs.append({'op': 'version.select', 'game': game, 'raw': raw, 'bundled': bund[game]})
    # the siblings and exceptions are always probed
    for game, raw, comps in [('wows', '0,9,4,2442770', ['0', '9', '4', '2442770']), ('wows', '0,9,4,1', ['0', '9', '4', '1']),
                             ('wows', '13,0,0,7983292', ['13', '0', '0', '7983292']), ('wows', '13,0,0,1', ['13', '0', '0', '1']),
                             ('wows', '12,6,0,0', ['12', '6', '0', '0']), ('wows', '12,5,9,0', ['12', '5', '9', '0']),
                             ('wowp', 'World of Warplanes 0.3.3.1', ['0', '3', '3', '1'])]:
        cases.append((game, raw, comps))
        reqs.append({'op': 'version.select', 'game': game, 'raw': raw, 'bundled': bund[game]})
    # releases whose name is a string prefix of a bundled one (a digit dropped from one component), for every bundled name: always probed
    seen_probe = set()
    for game in GAMES:
        for nm in sorted(set(bund[game]['defs']) | set(bund[game]['modules'])):
            comps0 = nm.split('_')[:3]
            for j in range(len(comps0)):
                if len(comps0[j]) > 1:
                    comps = list(comps0)
                    comps[j] = comps[j][:-1]
                    comps = comps + ['0']
                    if (game, tuple(comps)) in seen_probe:
                        continue
                    seen_probe.add((game, tuple(comps)))
                    raw = ','.join(comps) if game == 'wows' else ('World of Warplanes ' + '.'.join(comps)) if game == 'wowp' else 'World\xa0of\xa0Tanks v.' + '.'.join(comps) + ' #1'
                    cases.append((game, raw, comps))
                    reqs.append({'op': 'version.select', 'game': game, 'raw': raw, 'bundled': bund[game]})
    replies = drv.run(reqs) if drv is not None else [None] * len(cases)
    # the top of the pipeline (ReplayModel.getInfo): the same files through the model's get_info, both modes
    gi = {}
    if drv is not None:
        greqs = []
        for game, raw, comps in cases:
            data = minimal_file(game, raw)
            for strict in (False, True):
                greqs.append(getinfo_request(game, data, raw, bund, strict))
        grep = drv.run(greqs)
        for k, (game, raw, comps) in enumerate(cases):
            gi[(game, raw)] = (grep[2 * k], grep[2 * k + 1])
    for i, ((game, raw, comps), m) in enumerate(zip(cases, replies)):
        b = bund[game]
        want = rule(game, comps, b)
        len_ = observe(game, raw, False)
        strict = observe(game, raw, True)
        fallback = len(comps) >= 4 and '_'.join(comps[:4]) not in b['modules']
        chk.count((game, ','.join(comps)), nontrivial=fallback or want is None or comps[:2] in (['12', '6'], ['12', '5']),
                  sample={'game': game, 'raw': raw, 'lenient': len_, 'expected': want} if i < 3 else None)
        chk.dist('game:%s' % game)
        chk.dist('outcome:%s' % ('selected' if want else 'refused'))
        rep = {'kind': 'version', 'game': game, 'raw': raw, 'lenient': len_, 'strict': strict, 'rule': want}
        if want is None:
            # refusal: exception in strict mode, no summary in lenient mode
            if 'raised' not in strict or 'raised' in len_ or len_.get('hidden') or 'controller' in len_ or 'controller' in strict:
                chk.report('an unbundled version is not refused (strict must raise, lenient must give no summary)', rep)
            elif game in ('wows', 'wowp') and '_'.join(comps[:3]) not in b['modules'] and '_'.join(comps[:4]) not in b['modules']:
                if not (len_.get('error') and 'not supported' in len_['error'].lower()):
                    chk.report('refusal of an unbundled %s version carries no "not supported" message' % game, rep)
        else:
            got = (len_.get('controller'), len_.get('defs'), len_.get('newTable'))
            # (the stream is empty, so the summary itself may be unavailable: what is observed is the player that was built)
            if 'raised' in len_ or got != want or (strict.get('controller'), strict.get('defs'), strict.get('newTable')) != want:
                chk.report('version %s is played with %s instead of %s' % (','.join(comps), got, want), rep)
            elif want[0] != want[1]:
                chk.report('definitions (%s) and controller (%s) come from different bundled versions' % (want[1], want[0]), rep,
                           key='%s:%s:defs-from-%s' % (game, want[0], want[1]))
        if m is not None:
            mm = (m['ok']['controller'], m['ok']['defs'], m['ok']['newTable']) if 'ok' in m else None
            gg = (len_.get('controller'), len_.get('defs'), len_.get('newTable')) if 'controller' in len_ else None
            if mm != gg:
                chk.broken.append('correspondence version.select: model %s vs implementation %s for %s %r' % (m, len_, game, raw))
            else:
                chk.cov['traces_validated_against_impl'] += 1
            # get_info as a whole: raises / returns and the error text, per mode (whether a summary exists for an empty stream is the
            # controller's business, outside the model)
            for mode, obs, mod in (('lenient', len_, gi[(game, raw)][0]), ('strict', strict, gi[(game, raw)][1])):
                mc = {'raises': True} if mod.get('raises') else {'returns': {'error': mod['returns']['error']}}
                oc = outcome_class(obs)
                if mc != oc and not (mode == 'strict' and want is not None and 'raised' in obs):
                    # (strict mode on a resolved version with an empty stream: a controller may refuse to summarise nothing)
                    chk.broken.append('correspondence getInfo (%s): model %s vs implementation %s for %s %r' % (mode, mc, obs, game, raw))
                else:
                    chk.dist('getinfo:%s:%s' % (mode, 'raises' if 'raises' in mc else ('error' if mc['returns']['error'] else 'returns')))
    if drv is not None:
        top_level_cases(chk, drv, bund)


def top_level_cases(chk, drv, bund):
    """get_info on files that fail above the version resolution: no version field, wrong magic, truncated container"""
    for game in GAMES:
        ext = GAMES[game]
        good = minimal_file(game, '0,0,0,0')
        variants = [('no-version-field', minimal_file(game, None, engine={'other': 1}), None),
                    ('bad-magic', b'\x00' + good[1:], '0,0,0,0'),
                    ('truncated-header', good[:9], '0,0,0,0')]
        for name, data, version in variants:
            for strict in (False, True):
                obs = observe(game, None, strict, data=data)
                mod = drv.run([getinfo_request(game, data, version, bund, strict)])[0]
                mc = {'raises': True} if mod.get('raises') else {'returns': {'error': mod['returns']['error']}}
                chk.count(('top', game, name, strict), True)
                chk.dist('getinfo:%s:%s' % (name, 'raises' if 'raises' in mc else 'returns'))
                if mc != outcome_class(obs):
                    chk.broken.append('correspondence getInfo (%s, %s, strict=%s): model %s vs implementation %s' % (game, name, strict, mc, obs))
                # the property's own reading: a damaged container raises in both modes; a missing field raises iff strict
                if name == 'no-version-field' and (('raised' in obs) != strict):
                    chk.report('a first block without a version field: strict must raise, lenient must return a result object',
                               {'kind': 'top-level', 'game': game, 'variant': name, 'strict': strict, 'observed': obs})


def search(chk, drv):
    run(chk, None)


def replay(chk, drv, rep):
    r = rep['replay']
    print(json.dumps(r, indent=1, default=str)[:2000])
    print('now lenient:', observe(r['game'], r['raw'], False))
    print('now strict :', observe(r['game'], r['raw'], True))
    return 0
