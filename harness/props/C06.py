# coding=utf-8
"""
C06 — nested (path-addressed) updates and slices follow list/dict semantics.
Generated definition sets with dict/list nesting to depth 5; sequences of nested
operations (set a list element / dict field at any depth, replace / insert / delete
slices with every clamping case, inserts at the end, empty lists) encoded by the harness;
world compared after each packet between model and implementation, and against ordinary
Python list/dict operations applied by the generator's tracker. All nested packets of the
chosen recordings through the model as independent decoder (final worlds compared).
"""
from .. import common, histcheck
from . import recworld

WEIGHTS = dict(base=1, cell=1, create=4, prop=5, method=0, garbage=0, position=0, ppos=0, map=0, noise=1, nested=20)


def run(chk, drv):
    quick = chk.tier == 'quick'
    chk.cov['rule'] = ('sequences of nested operations over generated definition sets (paths of depth 1..5, container sizes 0..40, all slice '
                       'pairs incl. clamped ones); non-trivial: >= 2 entities and >= 1 nested operation; distinct by (definition set, history)')
    n_sets = 50 if quick else 800
    cfgs = [dict(seed_key='C06-%s-%d' % (chk.seed, i), dialects=['wowsOld', 'wowsNew', 'wot'], n_hist=3,
                 n_events=50 if i % 2 == 0 else 160, every=(i % 2 == 0), weights=WEIGHTS, strict=False, want_sample=(i == 0),
                 fields=['entities'], entity_fields=['client'], check_encoder=True) for i in range(n_sets)]
    histcheck.run_batches(chk, cfgs, 'gen', 'a nested update does not behave like the list/dict operation',
                          nontrivial=lambda c: c['entities'] >= 2 and c['kinds'].get('nested', 0) >= 1)
    recworld.run(chk, drv, 3 if quick else 1000, compare=('client',))


def search(chk, drv):
    cfgs = [dict(seed_key='C06s-%s-%d' % (chk.seed, i), dialects=['wowsOld', 'wowsNew', 'wot'], n_hist=3, n_events=80,
                 every=False, weights=WEIGHTS, strict=False, fields=['entities'], entity_fields=['client']) for i in range(80)]
    histcheck.run_batches(chk, cfgs, 'search', 'a nested update does not behave like the list/dict operation')


def replay(chk, drv, rep):
    return histcheck.replay_history(chk, drv, rep)
