# coding=utf-8
"""
C13 — parsing is deterministic and independent of what was parsed before.
Digests (through the shipped encoder) of sequences of parses in one process — permutations,
repetitions, mixes of games / versions / modes, failing parses in between — are compared
with fresh-process digests (started with different PYTHONHASHSEED values); the subscription
registry left after each parse is compared with the fresh process's as well.
"""
import json
import os
import random
import subprocess

from .. import battlecheck, common, container

RUNNER = os.path.join(common.VERIF, 'harness', 'digest_runner.py')


def run_runner(items, hashseed):
    env = dict(os.environ)
    env['PYTHONPATH'] = common.REPO
    env['PYTHONHASHSEED'] = str(hashseed)
    p = subprocess.run([common.PY, RUNNER, common.REPO, '-', 'lenient'] + items, cwd=common.REPO, env=env,
                       stdout=subprocess.PIPE, stderr=subprocess.PIPE, text=True, timeout=1800)
    lines = [json.loads(l) for l in p.stdout.split('\n') if l.strip().startswith('{')]
    if len(lines) != len(items) + 1:
        raise common.Infra('digest runner produced %d lines for %d items: %s' % (len(lines), len(items), p.stderr[-400:]))
    return lines[:-1]


def key_of(rec):
    # the registry left behind is compared only when a player (hence a controller) was built:
    # a parse refused at container level leaves the previous controller's entries, harmlessly
    keys = ('digest', 'hidden', 'error', 'exception') + (('registry',) if rec.get('hidden') else ())
    return json.dumps({k: rec.get(k) for k in keys}, sort_keys=True)


def _fresh(args):
    item, hashseed = args
    return item, hashseed, run_runner([item], hashseed)[0]


def _sequence(args):
    items, hashseed = args
    return items, run_runner(items, hashseed)


def build_pool(chk, quick):
    """files of the pool: recordings, synthetic battles, files whose parse fails"""
    from .C03 import pick_recordings
    d = os.path.join(common.WORK, 'c13-%d' % os.getpid())
    os.makedirs(d, exist_ok=True)
    pool = list(pick_recordings(chk, 3, small=True))
    versions = battlecheck.version_dirs()
    rng = chk.rng
    chosen = rng.sample([v for v in versions if v[0] == 'wows'], 4 if quick else 12) + [v for v in versions if v[0] != 'wows' and v != ('wowp', '0_3_3')][:3]
    for g, v in chosen:
        b, exp, err = battlecheck.make_battle(g, v, chk.seed, rich=True)
        if b is not None:
            ext, data = __import__('harness.gen.battle', fromlist=['x']).to_container(b)
            p = os.path.join(d, 'battle-%s-%s.%s' % (g, v, ext))
            open(p, 'wb').write(data)
            pool.append(p)
    # failing parses
    p = os.path.join(d, 'unsupported.wowsreplay')
    open(p, 'wb').write(container.write_container('wowsreplay', json.dumps({'clientVersionFromXml': '99,0,0,1'}).encode(), [], b''))
    pool.append(p)
    p = os.path.join(d, 'garbage-stream.wowsreplay')
    open(p, 'wb').write(container.write_container('wowsreplay', json.dumps({'clientVersionFromXml': '0,10,7,0'}).encode(), [], rng.randbytes(3000)))
    pool.append(p)
    p = os.path.join(d, 'bad-magic.wotreplay')
    open(p, 'wb').write(b'\x00\x01\x02\x03' + rng.randbytes(100))
    pool.append(p)
    failing = pool[-3:]
    # a supported release with a non-numeric build token: controller and definitions resolve (and the controller subscribes), then the packet
    # table lookup refuses the version -- a parse that fails after a player was half built
    for rel in ('0,10,7', '13,2,0'):
        p = os.path.join(d, 'half-built-%s.wowsreplay' % rel.replace(',', '_'))
        open(p, 'wb').write(container.write_container('wowsreplay', json.dumps({'clientVersionFromXml': rel + ',cn'}).encode(), [], rng.randbytes(200)))
        pool.append(p)
        failing.append(p)
    # a real recording whose stream ends inside a packet header: play() is left by an exception in both modes, after real packets were processed
    from replay_unpack.replay_reader import ReplayReader
    src = pool[0]
    info = ReplayReader(src).get_replay_data()
    cut = len(info.decrypted_data) * 2 // 3
    p = os.path.join(d, 'truncated.' + src.rsplit('.', 1)[-1])
    open(p, 'wb').write(container.write_container(src.rsplit('.', 1)[-1], json.dumps(info.engine_data, ensure_ascii=False).encode('utf-8'), [],
                                                   info.decrypted_data[:cut] + b'\x05\x00\x00'))
    pool.append(p)
    failing.append(p)
    # noisy parses: hundreds of failing packets of every addressed kind (lenient mode skips them all, strict stops at the first);
    # whatever bookkeeping the player does about failures must not leak into a later parse
    from . import C12
    from ..gen import battle as gbattle, history as ghistory
    for g, v in chosen[:2]:
        b, exp, err = battlecheck.make_battle(g, v, chk.seed + 1, rich=True)
        if b is None:
            continue
        packets = list(b.packets)
        for kind in ('unknown-prop', 'unknown-method', 'unknown-nested', 'unknown-position', 'prop-index', 'method-index', 'create-bad-type',
                     'short-packet'):
            for _ in range(rng.randint(60, 130)):
                f = C12.make_fault(rng, b, kind, set())
                if f is not None:
                    packets.insert(rng.randint(min(4, len(packets)), len(packets)), (f[0], f[1], {'kind': 'fault', 'time': 0}))
        ext = {'wows': 'wowsreplay', 'wot': 'wotreplay', 'wowp': 'wowpreplay'}[b.game_name]
        p = os.path.join(d, 'noisy-%s-%s.%s' % (g, v, ext))
        open(p, 'wb').write(container.write_container(ext, json.dumps(gbattle.version_string(b.game_name, b.version), ensure_ascii=False).encode('utf-8'),
                                                       [], ghistory.stream_of(packets)))
        pool.append(p)
        failing.append(p)
    # a real recording labelled as another bundled version: most of its method calls and updates no longer decode
    wows_versions = sorted(v for g, v in versions if g == 'wows')
    if src.endswith('.wowsreplay'):
        eng = dict(info.engine_data)
        cur = '_'.join(str(eng.get('clientVersionFromXml', '')).replace(' ', '').split(',')[:3])
        others = [v for v in wows_versions if v != cur and v.count('_') == 2]
        if others:
            tgt = others[(wows_versions.index(cur) + 1) % len(others)] if cur in wows_versions else rng.choice(others)
            eng['clientVersionFromXml'] = ','.join(tgt.split('_')) + ',0'
            p = os.path.join(d, 'relabelled-%s.wowsreplay' % tgt)
            open(p, 'wb').write(container.write_container('wowsreplay', json.dumps(eng, ensure_ascii=False).encode('utf-8'), [], info.decrypted_data))
            pool.append(p)
            failing.append(p)
    # rosters whose values are nested far beyond anything recorded (a tuple 600 deep, a list 1500 deep): whatever a parse does about its
    # own recursion depth must not change what a later parse of another file gives
    deep_files = []
    try:
        import importlib
        from . import C18
        newest = sorted([v for g, v in versions if g == 'wows'], key=lambda x: tuple(int(c) for c in x.split('_')[:3]))[-1]
        consts = importlib.import_module('replay_unpack.clients.wows.versions.%s.constants' % newest)
        rev = {v: k for k, v in consts.id_property_map.items()}
        for tag, deep in (('deep-tuple-600', b')' + b'\x85' * 600), ('deep-list-1500', b'(' * 1500 + b']' + b'l' * 1500)):
            payload = (b'\x80\x02](](' + b'K' + bytes([rev['id']]) + b'J' + (777).to_bytes(4, 'little') + b'\x86' +
                       b'K' + bytes([rev['name']]) + deep + b'\x86' + b'ee.')
            p = C18.hostile_battle('wows', newest, chk.seed, 'onGameRoomStateChanged', payload=payload, tag='c13-' + tag)
            if p:
                q = os.path.join(d, '%s.wowsreplay' % tag)
                os.replace(p, q)
                pool.append(q)
                failing.append(q)
                deep_files.append(q)
    except Exception:
        pass
    # build-specific siblings of one release (different definitions and controllers under one 3-component name)
    siblings = []
    for g, v in versions:
        if g == 'wows' and v.count('_') == 3 and (g, v.rsplit('_', 1)[0]) in versions:
            pair = []
            for vv in (v.rsplit('_', 1)[0], v):
                b, exp, err = battlecheck.make_battle(g, vv, chk.seed, rich=True)
                if b is not None:
                    ext, data = __import__('harness.gen.battle', fromlist=['x']).to_container(b)
                    q = os.path.join(d, 'battle-%s-%s.%s' % (g, vv, ext))
                    open(q, 'wb').write(data)
                    pair.append(q)
            if len(pair) == 2:
                siblings.append(pair)
                pool += [q for q in pair if q not in pool]
    return d, pool, failing, siblings, deep_files


def run(chk, drv):
    quick = chk.tier == 'quick'
    chk.cov['rule'] = ('sequences of 6 random parse calls in one process drawn from recordings, synthetic battles of several versions and failing files, '
                       'mixed modes, plus directed pairs (every failing parse then another file; build-specific sibling versions in both orders); each result compared with two fresh-process results (different PYTHONHASHSEED). Non-trivial: >= 2 different versions or '
                       'a failing parse inside; distinct by the sequence of (file, mode).')
    d, pool, failing, siblings, deep_files = build_pool(chk, quick)
    try:
        items = ['%s=%s' % (m, p) for p in pool for m in ('lenient', 'strict')]
        fresh = {}
        for item, hs, rec in common.pmap(_fresh, [(it, hs) for it in items for hs in (1, 4242)]):
            fresh.setdefault(item, []).append(rec)
            chk.dist('fresh_processes')
        for item, recs in fresh.items():
            if key_of(recs[0]) != key_of(recs[1]):
                chk.report('two fresh processes give different results for %s' % os.path.basename(item),
                           {'kind': 'fresh', 'item': item.replace(common.REPO, ''), 'a': recs[0], 'b': recs[1]})
        n_seq = 12 if quick else 200
        rng = chk.rng
        seqs = []
        for i in range(n_seq):
            seq = [rng.choice(items) for _ in range(6)]
            if i % 3 == 0:
                seq[3] = seq[0]            # same file again after others
            if i % 2 == 0:
                # ... and once through one parser object asked twice ('<mode>2': the second answer is what is compared)
                k = rng.randrange(6)
                m, pth = seq[k].split('=', 1)
                seq[k] = '%s2=%s' % (m, pth)
            seqs.append(seq)
        # directed: every failing parse (both modes) followed by every other file (both modes); siblings in both orders
        good = [p for p in pool if p not in failing]
        for f in failing:
            for fm in ('lenient', 'strict'):
                for x in (good if not quick else rng.sample(good, min(len(good), 6))):
                    seqs.append(['%s=%s' % (fm, f), '%s=%s' % (rng.choice(['lenient', 'strict']), x)])
        for a, b in siblings:
            for m in ('lenient', 'strict'):
                seqs += [['%s=%s' % (m, a), '%s=%s' % (m, b)], ['%s=%s' % (m, b), '%s=%s' % (m, a)]]
        if len(deep_files) == 2:
            a_, b_ = deep_files
            seqs += [['lenient=' + b_, 'lenient=' + a_], ['lenient=' + a_, 'lenient=' + b_, 'lenient=' + a_], ['lenient=' + b_, 'strict=' + a_],
                     ['lenient=' + b_, 'lenient=' + good[0]], ['lenient=' + a_, 'lenient=' + good[-1]]]
        # one parser object kept while other files are parsed, then asked again (A, B, A through the same object)
        for _ in range(6 if quick else 60):
            a, b = rng.sample(good, 2)
            m = rng.choice(['lenient', 'strict'])
            seqs.append(['%s#k=%s' % (m, a), '%s=%s' % (rng.choice(['lenient', 'strict']), b), '%s#k=%s' % (m, a)])
        for seq, recs in common.pmap(_sequence, [(s, 7 + i) for i, s in enumerate(seqs)]):
            files = {s.split('=', 1)[1] for s in seq}
            chk.count(tuple(seq), nontrivial=len(files) >= 2, sample={'sequence': [os.path.basename(s) for s in seq]} if len(chk.cov['samples']) < 2 else None)
            chk.dist('sequences')
            for pos, (item, rec) in enumerate(zip(seq, recs)):
                plain = item.split('=', 1)[0].split('#')[0].rstrip('2') + '=' + item.split('=', 1)[1]
                want = fresh[plain][0]
                if key_of(rec) != key_of(want):
                    what = 'digest' if rec.get('digest') != want.get('digest') else 'registry / outcome'
                    chk.report('parse #%d of a sequence (%s) differs from its fresh-process result (%s)' % (pos + 1, os.path.basename(item), what),
                               {'kind': 'sequence', 'sequence': [s.replace(common.REPO, '') for s in seq], 'position': pos,
                                'in_sequence': rec, 'fresh': want})
                    break
            else:
                chk.cov['traces_validated_against_impl'] += 1
    finally:
        import shutil
        shutil.rmtree(d, ignore_errors=True)
    chk.assumptions.append('module import caches and sys.path persist between parses; they are treated as immutable data (checked only through the comparison with fresh processes)')


def search(chk, drv):
    pass


def replay(chk, drv, rep):
    print(json.dumps(rep['replay'], indent=1)[:3000])
    return 0
