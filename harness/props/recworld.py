# coding=utf-8
"""
Real recordings: final world (entities, property buckets, poses) of the implementation vs
the model used as an independent decoder of the same decrypted stream.
"""
import json
import os

from .. import common, xmltree
from ..impl import play as iplay
from ..impl import walk


class EndObserver(walk.Observer):
    def __init__(self):
        self.player = None
        self.counts = {}
        self.errors = 0

    def on_packet(self, player, time, packet):
        self.player = player
        n = type(packet).__name__
        self.counts[n] = self.counts.get(n, 0) + 1

    def on_error(self, player, time, packet, exc):
        self.errors += 1


def dialect_of(player, game):
    if game == 'wot':
        return 'wot'
    if game == 'wowp':
        return 'wowp'
    from replay_unpack.clients.wows.network.packets import PACKETS_MAPPING_12_6
    return 'wowsNew' if player._mapping is PACKETS_MAPPING_12_6 or player._mapping == PACKETS_MAPPING_12_6 else 'wowsOld'


def version_dir(game, engine_data):
    """the definitions directory the loader's own rule selects (4 components, else 3)"""
    base = os.path.join(common.REPO, 'replay_unpack', 'clients', game, 'versions')
    if game == 'wot':
        import re
        m = re.search(r'(\d+)\.(\d+)\.(\d+)', engine_data.get('clientVersionFromXml'))
        return os.path.join(base, '_'.join(m.groups()))
    if game == 'wows':
        v = engine_data.get('clientVersionFromXml').replace(' ', '').split(',')
    else:
        v = engine_data.get('clientVersion')[len('World of Warplanes '):].replace(' ', '').split('.')
    for n in (4, 3):
        d = os.path.join(base, '_'.join(v[:n]))
        if os.path.exists(os.path.join(d, 'scripts', 'entity_defs', 'alias.xml')):
            return d
    return None


def _one(args):
    path, compare = args
    from replay_unpack.replay_reader import ReplayReader
    game = walk.game_of(path)
    obs = EndObserver()
    try:
        info = walk.parse_observed(path, obs)
    except Exception as e:
        return {'path': path, 'error': repr(e)}
    if obs.player is None:
        return {'path': path, 'error': 'no packet was processed'}
    ctrl = obs.player._battle_controller
    impl_world = iplay.dump_world_entities(ctrl.entities)
    data = ReplayReader(path).get_replay_data()
    vdir = version_dir(game, data.engine_data)
    if vdir is None:
        return {'path': path, 'error': 'no definitions directory'}
    raw = os.path.join(common.WORK, 'stream-%d.bin' % os.getpid())
    with open(raw, 'wb') as f:
        f.write(data.decrypted_data)
    try:
        trees = xmltree.load_dir(vdir)
        req = xmltree.load_request('R', trees, brief=True)
        play = {'op': 'play', 'defs': 'R', 'dialect': dialect_of(obs.player, game), 'strict': False, 'every': False,
                'subs': {'methods': [], 'props': [], 'nested': []}, 'streamFile': raw}
        rep = common.Driver().run([req, play])
    finally:
        os.unlink(raw)
    if 'err' in rep[0]:
        return {'path': path, 'error': 'model cannot load %s' % vdir}
    model = iplay.canon_generic(rep[1])
    mw = model['world']['entities']
    diff = None
    if [e['id'] for e in mw] != [e['id'] for e in impl_world]:
        diff = 'entity ids differ: %s vs %s' % ([e['id'] for e in mw][:20], [e['id'] for e in impl_world][:20])
    else:
        for a, b in zip(mw, impl_world):
            for k in ('type',) + tuple(compare):
                if a[k] != b[k]:
                    da, db = (dict(map(tuple, [(p[0], json.dumps(p[1])) for p in a[k]])), dict(map(tuple, [(p[0], json.dumps(p[1])) for p in b[k]]))) if isinstance(a[k], list) else ({}, {})
                    names = [n for n in sorted(set(da) | set(db)) if da.get(n) != db.get(n)]
                    diff = 'entity %s (%s) %s differs at %s: model %s vs implementation %s' % (
                        a['id'], a['type'], k, names[:3], [da.get(n, '<absent>')[:200] for n in names[:1]], [db.get(n, '<absent>')[:200] for n in names[:1]])
                    break
            if diff:
                break
    return {'path': path, 'diff': diff, 'entities': len(impl_world), 'packets': sum(obs.counts.values()), 'counts': obs.counts,
            'game': game, 'model_failed': len(model.get('failed', [])), 'impl_failed': obs.errors,
            'failed_sample': model.get('failed', [])[:3]}


def run(chk, drv, n, compare=('client', 'base', 'cell', 'volatile')):
    if drv is None:
        return
    from .C03 import pick_recordings
    paths = pick_recordings(chk, n)
    res = common.pmap(_one, [(p, compare) for p in paths], procs=min(16, len(paths)))
    for r in res:
        name = os.path.basename(r['path'])
        if 'error' in r:
            chk.notes.append('recording %s skipped: %s' % (name, r['error']))
            continue
        chk.count(('rec', name), True, sample={'recording': name, 'entities': r['entities'], 'packets': r['packets']} if len(chk.cov['samples']) < 4 else None)
        chk.dist('recordings:files')
        chk.dist('recordings:packets', r['packets'])
        for k, v in r['counts'].items():
            chk.dist('recordings:kind:%s' % k, v)
        if r['model_failed'] != r['impl_failed']:
            chk.broken.append('correspondence (recording %s): %d packets fail in the model, %d in the implementation (first: %s)' % (
                name, r['model_failed'], r['impl_failed'], r['failed_sample']))
        if r['diff']:
            chk.broken.append('correspondence (recording %s): final world: %s' % (name, r['diff']))
        else:
            chk.cov['traces_validated_against_impl'] += 1
