# coding=utf-8
"""
C04 — numeric ids on the wire resolve to the right definition members.

Exhaustive over the bundled definition sets: XML trees -> model loader vs the real
Definitions(dir) (entity order; per entity the exposed method list with sizes, headers and
argument types; exposed / internal / cell / base property lists; volatiles).
Generated definition sets from the grammar: model vs implementation vs the naive oracle.
"""
import json
import os
import shutil

from .. import common, xmltree
from ..gen import defsets
from ..impl import defs as idefs
from .C03 import bundled_dirs


def first_diff(a, b):
    if len(a) != len(b):
        return 'entity count %d vs %d' % (len(a), len(b)), None, None
    for x, y in zip(a, b):
        for k in ('name', 'methods', 'clientProps', 'internal', 'cell', 'base', 'volatile'):
            if x[k] != y[k]:
                if isinstance(x[k], list) and isinstance(y[k], list):
                    for i, (p, q) in enumerate(zip(x[k], y[k])):
                        if p != q:
                            return '%s.%s[%d]' % (x['name'], k, i), p, q
                    return '%s.%s length' % (x['name'], k), len(x[k]), len(y[k])
                return '%s.%s' % (x['name'], k), x[k], y[k]
    return None


def _bundled_one(d):
    trees = xmltree.load_dir(d)
    req = xmltree.load_request(d, trees)
    try:
        m = common.Driver().run([req])[0]
    except Exception as e:
        return {'dir': d, 'driver_error': repr(e)}
    i = idefs.load_views(d)
    i.pop('defs', None)
    out = {'dir': d, 'model_ok': 'ok' in m, 'impl_ok': 'ok' in i, 'diff': None, 'stats': None}
    if 'ok' in m and 'ok' in i:
        df = first_diff(m['ok'], i['ok'])
        if df:
            out['diff'] = [df[0], json.dumps(df[1])[:400], json.dumps(df[2])[:400]]
        ties = 0
        clashes = 0
        nm = 0
        for v in i['ok']:
            sizes = [x['size'] for x in v['methods']]
            ties += len(sizes) - len(set(sizes))
            nm += len(sizes)
        out['stats'] = {'entities': len(i['ok']), 'methods': nm, 'size_ties': ties,
                        'sample': {'entity': i['ok'][0]['name'], 'first_methods': [(x['name'], x['size']) for x in i['ok'][0]['methods'][:4]]} if i['ok'] else None}
    elif 'ok' in i or 'ok' in m:
        out['diff'] = ['load outcome', json.dumps(m)[:300], json.dumps({k: v for k, v in i.items() if k != 'ok'} if 'ok' not in i else 'ok')[:300]]
    return out


def part_bundled(chk, drv):
    dirs = bundled_dirs()
    res = common.pmap(_bundled_one, dirs)
    for r in res:
        rel = os.path.relpath(r['dir'], common.REPO)
        if r.get('driver_error'):
            raise common.Infra(r['driver_error'])
        st = r['stats']
        chk.count(('bundled', rel), nontrivial=bool(st and (st['size_ties'] or st['methods'])),
                  sample={'set': rel, **st} if st and len(chk.cov['samples']) < 2 else None)
        chk.dist('bundled:sets')
        if st:
            chk.dist('bundled:entities', st['entities'])
            chk.dist('bundled:methods', st['methods'])
            chk.dist('bundled:size_ties', st['size_ties'])
        if not r['impl_ok']:
            chk.report('bundled definition set does not load: %s' % rel, {'kind': 'bundled-load', 'dir': rel}, key='load:' + rel)
        if r['diff']:
            chk.broken.append('correspondence defs.load on %s: %s model=%s impl=%s' % (rel, r['diff'][0], r['diff'][1], r['diff'][2]))
        else:
            chk.cov['traces_validated_against_impl'] += 1
    chk.cov['bundled_sets_compared'] = len(dirs)


def _gen_one(args):
    seed, idx, with_fault = args
    import random
    rng = random.Random('C04-%s-%d' % (seed, idx))
    # every tenth set carries all the rare features at once, every tenth + 1 a wide entity
    ds = defsets.gen_defset(rng, force=('shadow', 'order', 'huge', 'libnames') if idx % 10 == 0 else ('wide', 'order') if idx % 10 == 1 else ())
    if with_fault:
        defsets.inject_fault(rng, ds)
    base = os.path.join(common.WORK, 'defs', 'c04-%d-%d' % (os.getpid(), idx))
    try:
        defsets.write_defset(ds, base)
        trees = xmltree.load_dir(base)
        m = common.Driver().run([xmltree.load_request('g', trees)])[0]
        i = idefs.load_views(base)
        i.pop('defs', None)
    finally:
        shutil.rmtree(base, ignore_errors=True)
    out = {'idx': idx, 'fault': ds['fault'], 'ds': None, 'problems': [], 'kind': None, 'stats': {}}
    if ds['fault']:
        want = None
    else:
        try:
            want = defsets.expected_views(ds)
        except Exception as e:      # the oracle itself choking is our bug, not the repo's
            out['problems'].append(('oracle-error', repr(e)))
            want = None
    # ---- the property on the implementation alone (oracle)
    if want is not None:
        if 'ok' not in i:
            out['problems'].append(('impl-violation', 'well-formed definition set does not load: %s' % json.dumps({k: v for k, v in i.items()})[:200]))
        else:
            df = first_diff(i['ok'], want)
            if df:
                out['problems'].append(('impl-violation', 'id resolves to another member at %s: implementation %s, rule says %s' % (df[0], json.dumps(df[1])[:300], json.dumps(df[2])[:300])))
    else:
        if ds['fault'] and 'ok' in i and ds['fault'] in ('unknown-type', 'unknown-flag', 'alias-cycle', 'missing-interface', 'bad-size', 'bad-default'):
            out['problems'].append(('impl-accepts-fault', ds['fault']))
    # ---- correspondence
    if ('ok' in m) != ('ok' in i):
        out['problems'].append(('corr', 'load outcome: model %s vs implementation %s' % (json.dumps(m)[:200], json.dumps({k: v for k, v in i.items() if k != 'ok'})[:200])))
    elif 'ok' in m:
        df = first_diff(m['ok'], i['ok'])
        if df:
            out['problems'].append(('corr', 'at %s: model %s vs implementation %s' % (df[0], json.dumps(df[1])[:300], json.dumps(df[2])[:300])))
    if out['problems']:
        out['ds'] = ds
    if want:
        ties = sum(len(v['methods']) - len({x['size'] for x in v['methods']}) for v in want)
        out['stats'] = {'ties': ties, 'interfaces': len(ds['interfaces']), 'entities': len(ds['entities']),
                        'form': ds['entities_form'], 'alias_ext': ds['alias_ext'] is not None,
                        'clash': any(len(v['methods']) < sum(1 for _ in v['methods']) for v in want)}
        if idx < 2:
            out['sample'] = {'entities': [e['name'] for e in ds['entities']], 'interfaces': [s['name'] for s in ds['interfaces']],
                             'first_entity_methods': [(x['name'], x['size']) for x in want[0]['methods']]}
    return out


def part_generated(chk, drv, n, search_only=False):
    items = [(chk.seed, i + (100000 if search_only else 0), (i % 7 == 6)) for i in range(n)]
    res = common.pmap(_gen_one, items)
    for r in res:
        st = r['stats']
        chk.count(('gen', chk.seed, r['idx']), nontrivial=bool(st and (st['ties'] or st['interfaces'])), sample=r.get('sample'))
        chk.dist('gen:' + ('fault-' + r['fault'] if r['fault'] else 'wellformed'))
        if st:
            chk.dist('gen:size_ties', st['ties'])
            chk.dist('gen:form-' + st['form'])
            chk.dist('gen:interfaces', st['interfaces'])
        ok = True
        for kind, what in r['problems']:
            ok = False
            if kind == 'impl-violation':
                chk.report(what, {'kind': 'defset', 'defset': r['ds']})
            elif kind == 'impl-accepts-fault':
                chk.broken.append('correspondence: implementation loads a definition set with fault %s (set %d)' % (what, r['idx']))
            elif kind == 'corr':
                chk.broken.append('correspondence defs.load (generated set %d): %s' % (r['idx'], what))
            else:
                chk.notes.append('%s: %s' % (kind, what))
        if ok:
            chk.cov['traces_validated_against_impl'] += 1


def part_facts(chk):
    """the masks observed on the live code must be the ones the rules state"""
    try:
        m = idefs.observed_masks()
    except Exception as e:
        chk.broken.append('masks could not be observed: %r' % (e,))
        return
    want = dict(defsets.SPEC_MASKS, exposed_flags=[True, False, False, False])
    if m != want:
        chk.notes.append('observed masks %s differ from the stated ones %s' % (m, want))


def run(chk, drv):
    quick = chk.tier == 'quick'
    chk.cov['rule'] = ('definition sets: all bundled version directories (exhaustive) + sets generated from the grammar (interface DAGs with diamonds, name '
                       'clashes, size ties, all flags, <Arg>/<Args>, header size 1/2/absent/garbage, alias chains/overrides, both entities.xml forms, '
                       '1 in 7 with a load-time fault). Non-trivial: at least one size tie, name clash or interface. Distinct by set.')
    part_facts(chk)
    cdir = os.path.join(common.VERIF, 'corpus', 'C04')
    part_bundled(chk, drv)
    part_generated(chk, drv, 200 if quick else 5000)
    chk.cov['exhaustive_over_bundled_sets'] = True


def search(chk, drv):
    part_generated(chk, drv, 600, search_only=True)


def replay(chk, drv, rep):
    r = rep['replay']
    if r.get('kind') == 'defset':
        ds = r['defset']
        base = os.path.join(common.WORK, 'defs', 'c04-replay')
        # JSON turned tuples into lists; normalise refs
        def fix(sec):
            for p in sec['props']:
                p['type'] = tuple(p['type'])
            for k in ('client', 'cell', 'base'):
                for m in sec[k]:
                    m['args'] = [(a, tuple(t)) for a, t in m['args']]
        ds['aliases'] = [(n, tuple(x)) for n, x in ds['aliases']]
        if ds['alias_ext'] is not None:
            ds['alias_ext'] = [(n, tuple(x)) for n, x in ds['alias_ext']]
        for s in ds['interfaces'] + ds['entities']:
            fix(s)
        defsets.write_defset(ds, base)
        i = idefs.load_views(base)
        i.pop('defs', None)
        want = defsets.expected_views(ds)
        print('definition set written to', base)
        print('first difference implementation vs rule:', first_diff(i.get('ok', []), want))
    else:
        print(json.dumps(r, indent=1)[:2000])
    return 0
