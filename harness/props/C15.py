# coding=utf-8
"""
C15 — damaged input never hangs or crashes the parser.
(a) NoZeroWidth (no list element type that can decode from zero bytes) evaluated by the
    compiled model on every bundled definition set;
(b) corruption campaign (bit flips, truncation, deleted / inserted ranges, tampered length
    fields; separately in header/blocks, ciphertext, decoded stream) on recordings and
    synthetic battles, each parse in a subprocess with RLIMIT_AS and a wall-clock limit
    proportional to the input; intact container + lenient mode must give a result object;
(c) randomly corrupted streams of generated histories: the model and the real player must
    end in the same world (the model's loops are total by construction).
"""
import json
import os
import random
import struct
import subprocess

from .. import battlecheck, common, container, histcheck, xmltree
from ..gen import history
from ..impl import walk
from .C03 import bundled_dirs

RUNNER = os.path.join(common.VERIF, 'harness', 'corrupt_runner.py')
MEM = 3 * 1024 ** 3


def packet_offsets(data):
    """offsets of the 12-byte packet headers of a decoded stream (as far as the sizes chain up)"""
    offs, o = [], 0
    while o + 12 <= len(data):
        size = struct.unpack_from('<I', data, o)[0]
        offs.append((o, size))
        o += 12 + size
    return offs


def directed_field_values(rng, offs, k, rem):
    """values for a tampered 32-bit length / count field of packet k: boundaries of every integer interpretation (unsigned, signed,
    relative to what is left, pointing back to an earlier packet boundary or to the field itself)"""
    o, size = offs[k]
    back = [-(12 + offs[k - 1][1])] if k else []
    if k:
        j = rng.randrange(k)
        back.append(offs[j][0] - o - 12)                      # next header = header of an earlier packet j
    vals = [0, 1, size - 1, size + 1, size + 12, rem, rem + 1, max(rem - 1, 0), 0x7fffffff, 0x80000000, 0xffffffff,
            -1, -4, -11, -12, -13, -(o + 12), -(o + 13)] + back
    return [v & 0xffffffff for v in vals]


def corrupt(rng, data, kind=None, packets=False):
    """`packets`: the data is a decoded packet stream, so structure-aware tampering applies: the size field of a packet header
    ('psize') or a 32-bit field near the start of a payload ('pfield': ids, indices, inner lengths and counts)"""
    kinds = ['flip', 'flip', 'truncate', 'delete', 'insert', 'length', 'zero'] + (['psize', 'psize', 'pfield'] if packets else [])
    kind = kind or rng.choice(kinds)
    b = bytearray(data)
    if not b:
        return bytes(b), kind, 0
    pos = rng.randrange(len(b))
    if kind in ('psize', 'pfield'):
        offs = packet_offsets(data)
        if len(offs) < 2:
            kind = 'length'
        else:
            k = rng.randrange(len(offs))
            o, size = offs[k]
            rem = len(b) - o - 12
            if kind == 'psize':
                pos = o
            else:
                pos = o + 12 + rng.choice([0, 4, 5, 8, 12, 16])
                rem = max(o + 12 + size - pos - 4, 0)
            if pos + 4 <= len(b):
                b[pos:pos + 4] = struct.pack('<I', rng.choice(directed_field_values(rng, offs, k, rem)))
            return bytes(b), kind, pos
    if kind == 'flip':
        for _ in range(rng.choice([1, 1, 3, 16])):
            p = rng.randrange(len(b))
            b[p] ^= 1 << rng.randrange(8)
    elif kind == 'truncate':
        b = b[:pos]
    elif kind == 'delete':
        del b[pos:pos + rng.choice([1, 4, 8, 100, 4096])]
    elif kind == 'insert':
        b[pos:pos] = rng.randbytes(rng.choice([1, 4, 8, 100, 4096]))
    elif kind == 'length':
        # overwrite 4 aligned-ish bytes with an extreme length
        p = pos - pos % 4
        b[p:p + 4] = struct.pack('<I', rng.choice([0, 1, 0x7fffffff, 0xffffffff, 0x00ffffff, len(b) * 3]))
    elif kind == 'zero':
        n = rng.choice([8, 64, 1024])
        b[pos:pos + n] = bytes(min(n, len(b) - pos))
    return bytes(b), kind, pos


def make_cases(rng, src_path, n, outdir, tag, structural=False):
    """corrupted variants of one replay file: (path, region, kind, intact_container)"""
    from replay_unpack.replay_reader import ReplayReader
    raw = open(src_path, 'rb').read()
    ext = src_path.rsplit('.', 1)[-1]
    info = ReplayReader(src_path).get_replay_data()
    off = container.payload_offset(raw)
    cases = []
    for i in range(n):
        region = rng.choice(['header', 'cipher', 'stream', 'stream', 'stream'])
        if region == 'header':
            head, kind, pos = corrupt(rng, raw[:off])
            data = head + raw[off:]
            intact = False
        elif region == 'cipher':
            tail, kind, pos = corrupt(rng, raw[off:])
            data = raw[:off] + tail
            intact = False
        else:
            stream, kind, pos = corrupt(rng, info.decrypted_data, packets=True)
            data = container.write_container(ext, raw[12:12 + struct.unpack('<i', raw[8:12])[0]], [], stream, level=1)
            intact = True
        p = os.path.join(outdir, '%s-%d.%s' % (tag, i, ext))
        with open(p, 'wb') as f:
            f.write(data)
        cases.append((p, region, kind, intact))
    # damage that keeps every length valid, enumerated per packet type present in the stream: two neighbouring 32-bit fields of a
    # payload transposed (ids, indices, lengths), a packet repeated, two packets exchanged -- a later occurrence of each type, so that
    # earlier packets of the same kind have already been applied
    stream = info.decrypted_data
    offs = packet_offsets(stream)
    by_type = {}
    for k, (o, size) in enumerate(offs):
        if o + 12 <= len(stream):
            by_type.setdefault(struct.unpack_from('<I', stream, o + 4)[0], []).append(k)
    j = 0

    def add(kind, st):
        nonlocal j
        data = container.write_container(ext, raw[12:12 + struct.unpack('<i', raw[8:12])[0]], [], st, level=1)
        p = os.path.join(outdir, '%s-t%d.%s' % (tag, j, ext))
        j += 1
        with open(p, 'wb') as f:
            f.write(data)
        cases.append((p, 'stream', kind, True))

    if structural:
        for ty, ks in sorted(by_type.items()):
            # an early, a middle and the last occurrence of the type: the first two fields transposed in each; the other neighbouring
            # pairs and a duplicate for the middle one
            for which, k in enumerate(sorted({ks[min(len(ks) - 1, 1)], ks[len(ks) // 2], ks[-1]})):
                o, size = offs[k]
                for a in ((0,) if which != 1 else (0, 4, 8)):
                    if size >= a + 8:
                        b = bytearray(stream)
                        b[o + 12 + a:o + 12 + a + 4], b[o + 12 + a + 4:o + 12 + a + 8] = b[o + 12 + a + 4:o + 12 + a + 8], b[o + 12 + a:o + 12 + a + 4]
                        add('pswap', bytes(b))
                if which == 1:
                    pkt = stream[o:o + 12 + size]
                    add('pdup', stream[:o] + pkt + pkt + stream[o + 12 + size:])
        # every directed value of the size field (signed / unsigned readings, remaining +-1, back-pointers) for an early, a middle and a
        # late packet
        if len(offs) >= 4:
            for k in sorted({1, len(offs) // 2, len(offs) - 2}):
                o, size = offs[k]
                for v in sorted(set(directed_field_values(rng, offs, k, len(stream) - o - 12))):
                    b = bytearray(stream)
                    b[o:o + 4] = struct.pack('<I', v)
                    add('psize', bytes(b))
    return cases


def _batch(args):
    files, mode = args[0], args[1]
    base = str(args[2]) if len(args) > 2 else '20'
    env = dict(os.environ)
    env['PYTHONPATH'] = common.REPO
    total_mb = sum(os.path.getsize(f) for f in files) / 1e6
    try:
        p = subprocess.run([common.PY, RUNNER, str(MEM), mode, base, '60'] + files, cwd=common.REPO, env=env,
                           stdout=subprocess.PIPE, stderr=subprocess.PIPE, text=True, timeout=8 * (120 + 30 * len(files) + 90 * total_mb))
        out = [json.loads(l) for l in p.stdout.split('\n') if l.strip().startswith('{')]
        died = None if len(out) == len(files) else 'worker died with exit code %s after %d of %d files: %s' % (p.returncode, len(out), len(files), p.stderr[-300:])
    except subprocess.TimeoutExpired as e:
        out = [json.loads(l) for l in (e.stdout or b'').decode().split('\n') if l.strip().startswith('{')]
        died = 'worker exceeded the outer time limit after %d of %d files' % (len(out), len(files))
    return files, mode, out, died


def part_campaign(chk, n_per_file, n_files):
    from .C03 import pick_recordings
    rng = chk.rng
    outdir = os.path.join(common.WORK, 'c15-%d' % os.getpid())
    os.makedirs(outdir, exist_ok=True)
    try:
        sources = list(pick_recordings(chk, 3, small=True))
        n_recordings = len(sources)
        versions = [v for v in battlecheck.version_dirs() if v != ('wowp', '0_3_3')]
        for g, v in rng.sample(versions, n_files):
            b, exp, err = battlecheck.make_battle(g, v, chk.seed, rich=True)
            if b is not None:
                ext, data = __import__('harness.gen.battle', fromlist=['x']).to_container(b)
                p = os.path.join(outdir, 'src-%s-%s.%s' % (g, v, ext))
                open(p, 'wb').write(data)
                sources.append(p)
        cases = []
        for si, src in enumerate(sources):
            # the enumerated, length-preserving damage for the first recording and the first synthetic battle only (it is per packet type)
            cases += make_cases(rng, src, n_per_file, outdir, 's%d' % si, structural=(si == 0 or si == n_recordings))
        meta = {c[0]: c for c in cases}
        jobs = []
        files = [c[0] for c in cases]
        for i in range(0, len(files), 8):
            jobs.append((files[i:i + 8], 'lenient' if (i // 8) % 3 else 'strict'))
        for files_, mode, out, died in common.pmap(_batch, jobs):
            done = {r['file'] for r in out}
            if died:
                culprit = next((f for f in files_ if os.path.basename(f) not in done), None)
                c = meta.get(culprit)
                keep = os.path.join(common.WORK, 'replays', 'C15-crash-' + os.path.basename(culprit)) if culprit else None
                if culprit:
                    import shutil
                    shutil.copy(culprit, keep)
                chk.report('the parser process is killed or hangs on a corrupted file (%s): %s' % (c[1:3] if c else '?', died),
                           {'kind': 'crash', 'file': keep, 'region': c[1] if c else None, 'corruption': c[2] if c else None, 'mode': mode})
            for r in out:
                path = os.path.join(outdir, r['file'])
                c = meta[path]
                chk.count((r['file'], mode), nontrivial=True,
                          sample={'file': r['file'], 'region': c[1], 'kind': c[2], 'mode': mode, 'outcome': r['outcome'], 'wall_s': r['wall_s']} if len(chk.cov['samples']) < 4 else None)
                chk.dist('campaign:%s:%s' % (c[1], r['outcome']))
                chk.dist('campaign:kind:%s' % c[2])
                if r['outcome'] in ('timeout', 'memory', 'escape'):
                    import shutil
                    keep = os.path.join(common.WORK, 'replays', 'C15-' + r['file'])
                    shutil.copy(path, keep)
                    chk.report('parsing a corrupted file (%s, %s) ends with %s after %.1f s (limit %.1f s), peak memory +%.0f MB' % (c[1], c[2], r['outcome'], r['wall_s'], r['limit_s'], r.get('rss_growth_mb', 0)),
                               {'kind': 'resource', 'file': keep, 'region': c[1], 'corruption': c[2], 'mode': mode, 'outcome': r})
                elif c[3] and mode == 'lenient' and r['outcome'] != 'result':
                    import shutil
                    keep = os.path.join(common.WORK, 'replays', 'C15-' + r['file'])
                    shutil.copy(path, keep)
                    chk.report('intact container, lenient mode, corrupted stream (%s): the call raises %s instead of returning a result object' % (c[2], r.get('exc')),
                               {'kind': 'lenient-raises', 'file': keep, 'corruption': c[2], 'outcome': r})
    finally:
        import shutil
        shutil.rmtree(outdir, ignore_errors=True)


def part_extreme(chk, n_versions):
    """complete battles whose otherwise unused numeric fields carry extreme but legal values (all bits set, top bit only, largest positive; infinities /
    NaN): damaged values rather than damaged structure. Lenient mode must return a result object within the limits."""
    from ..gen import battle as gbattle
    rng = chk.rng
    outdir = os.path.join(common.WORK, 'c15x-%d' % os.getpid())
    os.makedirs(outdir, exist_ok=True)
    versions = [v for v in battlecheck.version_dirs() if v != ('wowp', '0_3_3')]
    if n_versions >= len(versions):
        chosen = versions
    else:
        # stratified over the release history (controllers change by era), random within each stratum
        step = len(versions) / float(n_versions)
        chosen = [versions[min(len(versions) - 1, int(i * step + rng.random() * step))] for i in range(n_versions)]
    files = []
    try:
        for which in ('ones', 'top', 'maxpos'):
            gbattle.INT_POLICY = gbattle.int_extreme(which)
            gbattle.FLOAT_BITS = rng.choice([(0x7f800000, 0x7ff0000000000000), (0x7fc00000, 0x7ff8000000000000), (0xff800000, 0xfff0000000000000), (0x7f7fffff, 0x7fefffffffffffff)])
            try:
                for g, v in chosen:
                    b, exp, err = battlecheck.make_battle(g, v, chk.seed, rich=True)
                    if b is None:
                        continue
                    ext, data = gbattle.to_container(b)
                    p = os.path.join(outdir, 'extreme-%s-%s-%s.%s' % (which, g, v, ext))
                    open(p, 'wb').write(data)
                    files.append(p)
            finally:
                gbattle.INT_POLICY = None
                gbattle.FLOAT_BITS = None
        jobs = [(files[i:i + 6], 'lenient') for i in range(0, len(files), 6)]
        for files_, mode, out, died in common.pmap(_batch, jobs):
            done = {r['file'] for r in out}
            if died:
                culprit = next((f for f in files_ if os.path.basename(f) not in done), None)
                keep = None
                if culprit:
                    import shutil
                    keep = os.path.join(common.WORK, 'replays', 'C15-crash-' + os.path.basename(culprit))
                    shutil.copy(culprit, keep)
                chk.report('the parser process is killed or hangs on a battle with extreme field values (%s): %s' % (os.path.basename(culprit or '?'), died),
                           {'kind': 'crash-extreme', 'file': keep, 'mode': mode})
            for r in out:
                chk.count((r['file'], mode), nontrivial=True)
                chk.dist('extreme:%s' % r['outcome'])
                if r['outcome'] != 'result':
                    import shutil
                    keep = os.path.join(common.WORK, 'replays', 'C15-' + r['file'])
                    shutil.copy(os.path.join(outdir, r['file']), keep)
                    chk.report('a battle with extreme but legal field values (%s) ends with %s (%s) after %.1f s CPU, peak memory +%.0f MB, for a %.3f MB file' % (
                        r['file'], r['outcome'], r.get('exc'), r.get('cpu_s', 0), r.get('rss_growth_mb', 0), r.get('size_mb', 0)),
                        {'kind': 'extreme', 'file': keep, 'mode': mode, 'outcome': r})
    finally:
        import shutil
        shutil.rmtree(outdir, ignore_errors=True)


def part_header_text(chk):
    """damage inside the JSON header that keeps it valid JSON: version values made of long runs (digits, separators, blanks) with a stray
    character at the end or in the middle -- the worst case for anything that matches them with a pattern"""
    outdir = os.path.join(common.WORK, 'c15h-%d' % os.getpid())
    os.makedirs(outdir, exist_ok=True)
    files = []
    try:
        runs = ['7' * 48 + 'x', '1,' * 40 + 'x', '1.' * 40 + '!', ' ' * 60 + 'x', '9' * 4000, ('12,' * 3000) + '0', '0,10,7,' + '8' * 40 + '-', ', ' * 50,
                '1' * 30 + ' ' * 30 + '#' * 30 + 'x', '((((' * 20, 'a' * 50 + '1' * 50 + 'b']
        k = 0
        for ext, field, prefix in (('wowsreplay', 'clientVersionFromXml', ''), ('wotreplay', 'clientVersionFromXml', 'World\xa0of\xa0Tanks v.'),
                                   ('wowpreplay', 'clientVersion', 'World of Warplanes ')):
            for run in runs:
                for val in (prefix + run, prefix + '0,10,7,0' + run):
                    p = os.path.join(outdir, 'h%d.%s' % (k, ext))
                    k += 1
                    with open(p, 'wb') as f:
                        f.write(container.write_container(ext, json.dumps({field: val}, ensure_ascii=False).encode('utf-8'), [], b''))
                    files.append(p)
        jobs = [(files[i:i + 11], 'lenient', 5) for i in range(0, len(files), 11)]
        for files_, mode, out, died in common.pmap(_batch, jobs):
            done = {r['file'] for r in out}
            if died:
                culprit = next((f for f in files_ if os.path.basename(f) not in done), None)
                keep = None
                if culprit:
                    import shutil
                    keep = os.path.join(common.WORK, 'replays', 'C15-header-' + os.path.basename(culprit))
                    shutil.copy(culprit, keep)
                chk.report('the parser process is killed or hangs on a file whose header carries a long version text: %s' % died,
                           {'kind': 'header-text', 'file': keep})
            for r in out:
                chk.count((r['file'], 'header-text'), nontrivial=True)
                chk.dist('header-text:%s' % r['outcome'])
                if r['outcome'] in ('timeout', 'memory', 'escape') or r.get('cpu_s', 0) > 3:
                    import shutil
                    keep = os.path.join(common.WORK, 'replays', 'C15-header-' + r['file'])
                    shutil.copy(os.path.join(outdir, r['file']), keep)
                    chk.report('a file whose header carries a long version text takes %.1f s of CPU (%s)' % (r.get('cpu_s', 0), r['outcome']),
                               {'kind': 'header-text', 'file': keep, 'outcome': r})
    finally:
        import shutil
        shutil.rmtree(outdir, ignore_errors=True)


def pickle_bombs():
    """small pickles without any global whose object graph is highly shared or deeply nested: cheap to load, expensive for code that walks
    them as trees"""
    import pickle
    out = {}
    x = [1]
    for _ in range(26):
        x = [x, x]
    out['shared-lists-26'] = pickle.dumps(x, protocol=2)
    d = {1: 2}
    for _ in range(26):
        d = {1: d, 2: d}
    out['shared-dicts-26'] = pickle.dumps(d, protocol=2)
    rows = [[(i, x) for i in range(40)]]
    out['rows-of-shared-26'] = pickle.dumps(rows, protocol=2)
    deep = []
    for _ in range(400):
        deep = [deep]
    out['nested-400'] = pickle.dumps(deep, protocol=2)
    # everything at once, in the shape of a roster message: rows of (member id, value) with ids the property maps know and ids they do
    # not (large, negative, text), the values being the shared / deep graphs above and a shared tuple
    t = (1,)
    for _ in range(30):
        t = (t, t)
    vals = [x, d, deep, t]
    row = [(i, vals[i % 4]) for i in range(0, 70)] + [(200, x), (255, d), (-1, t), (65536, deep), ('name', x)]
    out['combined-roster'] = pickle.dumps([row], protocol=2)
    return out


def tuple_hash_bomb(depth=44):
    """a dict keyed by a deeply shared tuple: CPython recomputes tuple hashes, unpickling takes time exponential in `depth` (KNOWN FINDING)"""
    out = b'\x80\x02)q\x00'
    for i in range(depth):
        out += b'h' + bytes([i]) + b'h' + bytes([i]) + b'\x86q' + bytes([i + 1])
    return out + b'}h' + bytes([depth]) + b'K\x01s.'


def part_bombs(chk, n_versions):
    """an inserted range inside the packet stream: a crafted pickle in each unpickled method argument"""
    from . import C18
    rng = chk.rng
    versions = [v for v in battlecheck.version_dirs() if v[0] == 'wows']
    if n_versions < len(versions):
        step = len(versions) / float(n_versions)
        versions = [versions[min(len(versions) - 1, int(i * step + rng.random() * step))] for i in range(n_versions)]
    bombs = pickle_bombs()
    files, meta = [], {}
    try:
        # known finding, probed once: the hash of a shared tuple used as a dict key
        g0, v0 = versions[-1]
        bombs['tuple-key'] = tuple_hash_bomb()
        p = C18.hostile_battle(g0, v0, chk.seed, 'receiveDamageStat', payload=bombs['tuple-key'], tag='c15b-tuple-key')
        if p:
            files.append(p)
            meta[os.path.basename(p)] = (v0, 'receiveDamageStat', 'tuple-key', len(bombs['tuple-key']))
        for g, v in versions:
            for meth in C18.PICKLE_METHODS:
                # quick tier: every wows version and method with the combined graph; thorough: every single graph as well
                for bname in (['combined-roster'] if n_versions < 200 else sorted(b for b in bombs if b != 'tuple-key')):
                    p = C18.hostile_battle(g, v, chk.seed, meth, payload=bombs[bname], tag='c15b-' + bname)
                    if p:
                        files.append(p)
                        meta[os.path.basename(p)] = (v, meth, bname, len(bombs[bname]))
        # the known tuple-hash probe alone, with a short limit (it is ended by the kernel); the others four to a process
        probe = [f for f in files if meta[os.path.basename(f)][2] == 'tuple-key']
        rest = [f for f in files if f not in probe]
        jobs = [(probe, 'lenient', 4)] if probe else []
        jobs += [(rest[i:i + 6], 'lenient') for i in range(0, len(rest), 6)]
        for files_, mode, out, died in common.pmap(_batch, jobs):
            done = {r['file'] for r in out}
            if died:
                culprit = next((f for f in files_ if os.path.basename(f) not in done), None)
                v, meth, bname, size = meta.get(os.path.basename(culprit or ''), ('?', '?', '?', 0))
                chk.report('the parser process is killed or hangs on a %d-byte crafted pickle (%s) in %s of wows %s: %s' % (size, bname, meth, v, died),
                           {'kind': 'bomb-crash', 'version': v, 'method': meth, 'pickle': bname, 'payload': bombs.get(bname, b'').hex()},
                           key='pickle-hash:tuple-key' if bname == 'tuple-key' else 'pickle-graph:%s' % meth)
            for r in out:
                v, meth, bname, size = meta[r['file']]
                chk.count((r['file'], mode), nontrivial=True)
                chk.dist('bombs:%s:%s' % (bname, r['outcome']))
                if r['outcome'] != 'result' or r.get('cpu_s', 0) > 10:
                    chk.report('a %d-byte crafted pickle (%s) in %s of wows %s: parse ends with %s after %.1f s CPU, peak memory +%.0f MB' % (
                        size, bname, meth, v, r['outcome'], r.get('cpu_s', 0), r.get('rss_growth_mb', 0)),
                        {'kind': 'bomb', 'version': v, 'method': meth, 'pickle': bname, 'payload': bombs[bname].hex(), 'outcome': r},
                        key='pickle-hash:tuple-key' if bname == 'tuple-key' else 'pickle-graph:%s' % meth)
    finally:
        for p in files:
            if os.path.exists(p):
                os.unlink(p)


def _adaptive_worker(cfg):
    """amplification: a run of adversarial nested slice packets against one list, each built for the state the implementation is really
    in (index widths from the current length). Whatever the indices, a slice packet carrying k elements may grow the list by at most k --
    memory stays proportional to the bytes sent."""
    import logging
    import time
    from ..impl import play as iplay
    from ..oracle import wire
    from ..gen import types as gt
    rng = random.Random(cfg['seed_key'])
    st = histcheck.Setup(cfg['seed_key'], want_nested=True)
    out = {'ops': 0, 'lists': 0, 'problem': None}
    logging.disable(logging.CRITICAL)
    try:
        for dialect in cfg['dialects']:
            h = history.History(rng, st.views, dialect)
            h.base_player()
            for _ in range(6):
                h.entity_create()
            player, ctrl = iplay.make_player(dialect, st.definitions)
            player.play(history.stream_of(h.packets), False)
            targets = []
            for eid, ent in ctrl.entities.items():
                if not (0 <= eid < 2 ** 31):
                    continue
                tinfo = h.world.get(eid)
                if tinfo is None:
                    continue
                props = st.views[tinfo['type']]['clientProps']
                for pi, (name, size, t, flags) in enumerate(props):
                    pt = history.peel(t)
                    if pt['k'] == 'array' and pt.get('size') is None and not history.zero_width_possible(pt['of']) and isinstance(ent.properties['client'].get(name), list):
                        targets.append((eid, ent, pi, len(props), name, pt['of']))
            for eid, ent, pi, nprops, name, et in targets[:3]:
                out['lists'] += 1
                sent_elems = 0
                for step in range(cfg['steps']):
                    lst = ent.properties['client'][name]
                    n = len(lst)
                    w = history.bits_required(n + 1)
                    top = (1 << w) - 1 if w else 0
                    i, j = rng.choice([(n, 0), (top, 0), (n, n), (min(n, top), 0), (rng.randint(0, top), rng.randint(0, top)), (0, 0), (max(n - 1, 0), 0)])
                    k = rng.choice([1, 1, 2, 3])
                    new = [gt.gen_value(rng, et, big_ok=False) for _ in range(k)]
                    data = b''.join(wire.encode(et, x, 1) for x in new)
                    bw = history.BitWriter()
                    bw.put(1, 1)
                    bw.put(pi, history.bits_required(nprops))
                    bw.put(0, 1)
                    bw.put(i, w)
                    bw.put(j, w)
                    body = bw.bytes() + data
                    pkt = history.net_packet(history.DIALECTS[dialect]['nested'], struct.pack('<IbI', eid, 1, len(body)) + body)
                    t0 = time.process_time()
                    try:
                        player.play(pkt, False)
                    except Exception:
                        pass
                    dt = time.process_time() - t0
                    n2 = len(ent.properties['client'][name])
                    out['ops'] += 1
                    sent_elems += k
                    if n2 > n + k or dt > 5:
                        out['problem'] = {'dialect': dialect, 'property': name, 'step': step, 'len_before': n, 'len_after': n2, 'slice': [i, j], 'elements_sent': k,
                                          'cpu_s': round(dt, 2), 'packet': pkt.hex()[:400], 'defset': st.ds, 'setup_packets': histcheck.packets_json(h.packets)}
                        return out
                    if n2 > 200000:
                        break
    finally:
        logging.disable(logging.NOTSET)
        st.cleanup()
    return out


def part_adaptive(chk, n_sets, steps):
    cfgs = [dict(seed_key='C15a-%s-%d' % (chk.seed, i), dialects=['wowsOld', 'wowsNew', 'wot'], steps=steps) for i in range(n_sets)]
    for r in common.pmap(_adaptive_worker, cfgs):
        chk.cov['evaluations'] += r['ops']
        chk.dist('adaptive:slice_ops', r['ops'])
        chk.dist('adaptive:lists', r['lists'])
        if r['problem']:
            p = r['problem']
            chk.report('a nested slice packet carrying %d elements grows a list from %d to %d elements (slice %s, step %d of an adversarial run, %.1f s CPU): '
                       'repeated, memory is not proportional to the input' % (p['elements_sent'], p['len_before'], p['len_after'], p['slice'], p['step'], p['cpu_s']),
                       {'kind': 'amplification', **p})


def _zero_width(d):
    trees = xmltree.load_dir(d)
    m = common.Driver().run([xmltree.load_request('Z', trees, brief=True)])[0]
    return d, m


def part_zero_width(chk):
    for d, m in common.pmap(_zero_width, bundled_dirs()):
        rel = os.path.relpath(d, common.REPO)
        chk.count(('zw', rel), True)
        chk.dist('zero_width:sets')
        if 'zeroWidth' in m and m['zeroWidth']:
            chk.broken.append('NoZeroWidth fails on %s: %s (a nested slice update on such a list would never terminate)' % (rel, m['zeroWidth'][:5]))


class _Hang(BaseException):
    pass


def _stream_worker(cfg):
    import signal
    drv = common.Driver()
    st = histcheck.Setup(cfg['seed_key'])
    out = {'cases': 0, 'problems': [], 'hangs': []}
    try:
        for hi in range(cfg['n_hist']):
            dialect = cfg['dialects'][hi % len(cfg['dialects'])]
            rng = random.Random('%s-%d' % (cfg['seed_key'], hi))
            heavy = any(p[1] >= 60000 and p[0] == 'huge' for v in st.views for p in v['clientProps'])
            h = history.generate(rng, st.views, dialect, 10 if heavy else 40)
            stream = history.stream_of(h.packets)
            for k in range(cfg['variants']):
                bad, kind, pos = corrupt(rng, stream, packets=True)
                # CPU-time limit around the in-process run: a stream of a few KB that keeps the player busy for 20 s is a hang
                def on_prof(signum, frame):
                    raise _Hang()
                signal.signal(signal.SIGPROF, on_prof)
                signal.setitimer(signal.ITIMER_PROF, 20)
                try:
                    model, impl, _ = histcheck.run_history(drv, st, dialect, None, strict=False, stream=bad)
                except _Hang:
                    out['hangs'].append({'dialect': dialect, 'kind': kind, 'pos': pos, 'stream': bad.hex()[:20000], 'defset': st.ds,
                                         'bytes': len(bad)})
                    drv = common.Driver()
                    continue
                finally:
                    signal.setitimer(signal.ITIMER_PROF, 0)
                out['cases'] += 1
                d = histcheck.compare_worlds(model['world'], impl['world'])
                if d is None and histcheck.norm_end(model) != histcheck.norm_end(impl):
                    d = 'ending %s vs %s' % (histcheck.norm_end(model), histcheck.norm_end(impl))
                if d:
                    out['problems'].append({'dialect': dialect, 'kind': kind, 'pos': pos, 'diff': d, 'stream': bad.hex()[:6000], 'defset': st.ds})
    finally:
        st.cleanup()
    return out


def part_streams(chk, drv, n_sets):
    if drv is None:
        return
    cfgs = [dict(seed_key='C15-%s-%d' % (chk.seed, i), dialects=['wowsOld', 'wowsNew', 'wot'], n_hist=3, variants=6) for i in range(n_sets)]
    for r in common.pmap(_stream_worker, cfgs):
        chk.cov['evaluations'] += r['cases']
        chk.dist('corrupted_streams', r['cases'])
        chk.cov['traces_validated_against_impl'] += r['cases'] - len(r['problems'])
        for hg in r['hangs']:
            chk.report('playing a corrupted stream of %d bytes (%s, %s at offset %d) does not terminate within 20 s of CPU time' % (hg['bytes'], hg['dialect'], hg['kind'], hg['pos']),
                       {'kind': 'hang-in-process', **hg})
        for p in r['problems']:
            chk.broken.append('correspondence on a corrupted stream (%s, %s at %d): %s' % (p['dialect'], p['kind'], p['pos'], p['diff']))
            histcheck.save_corpus_candidate(chk, {'kind': 'corrupted-stream', **p})


def run(chk, drv):
    quick = chk.tier == 'quick'
    chk.cov['rule'] = ('corruptions (kind x position x size; region header / ciphertext / decoded stream) of recordings and synthetic battles, each '
                       'parse under RLIMIT_AS 3 GiB and a CPU-time limit of 20 s + 60 s/MB (wall clock 8x); battles with extreme field values; crafted pickle graphs; adaptive runs of adversarial slice packets (growth bound); corrupted streams of generated histories through model and '
                       'implementation; NoZeroWidth on every bundled set. Non-trivial: all; distinct by (file, mode).')
    part_zero_width(chk)
    part_header_text(chk)
    part_campaign(chk, 16 if quick else 1500, 4 if quick else 10)
    part_extreme(chk, 16 if quick else 1000)
    part_bombs(chk, 100 if quick else 1000)
    part_adaptive(chk, 16 if quick else 200, 40)
    part_streams(chk, drv, 12 if quick else 300)
    chk.assumptions += ['wall time and memory are measured, not proved; zlib, pickle and json costs are external']


def search(chk, drv):
    pass


def replay(chk, drv, rep):
    r = rep['replay']
    print(json.dumps({k: v for k, v in r.items() if k not in ('stream', 'defset')})[:1500])
    if r.get('file') and os.path.exists(r['file']):
        print(_batch(([r['file']], r.get('mode', 'lenient')))[2])
    return 0
