# coding=utf-8
"""
XML file -> JSON tree [tag, text|null, [children]] for the model. Parsed by the harness
with its own fixed parser options (comments removed, recovering), so a change of parser
options in /repo that changes what the loader sees shows up as a disagreement.
"""
import os

from lxml import etree


def parse_file(path):
    with open(path, 'rb') as f:
        data = f.read()
    root = etree.fromstring(data, parser=etree.XMLParser(remove_comments=True, recover=True, encoding='utf8'))
    return to_tree(root)


def to_tree(el):
    kids = [to_tree(c) for c in el if isinstance(c.tag, str)]
    return [el.tag, el.text, kids]


def depth(t):
    return 1 + max([depth(c) for c in t[2]] or [0])


def load_dir(base):
    """all trees a definition loader can open below a version directory"""
    ed = os.path.join(base, 'scripts', 'entity_defs')
    out = {'alias': None, 'alias_ext': None, 'entities': None, 'defs': [], 'interfaces': []}
    p = os.path.join(ed, 'alias.xml')
    if os.path.exists(p):
        out['alias'] = parse_file(p)
    p = os.path.join(ed, 'alias_ext.xml')
    if os.path.exists(p):
        out['alias_ext'] = parse_file(p)
    p = os.path.join(base, 'scripts', 'entities.xml')
    if os.path.exists(p):
        out['entities'] = parse_file(p)
    if os.path.isdir(ed):
        for fn in sorted(os.listdir(ed)):
            if fn.endswith('.def'):
                out['defs'].append([fn[:-4], parse_file(os.path.join(ed, fn))])
        idir = os.path.join(ed, 'interfaces')
        if os.path.isdir(idir):
            for root, dirs, files in sorted(os.walk(idir)):
                dirs.sort()
                for fn in sorted(files):
                    if fn.endswith('.def'):
                        full = os.path.join(root, fn)
                        name = os.path.relpath(full, idir)[:-4].replace(os.sep, '/')
                        out['interfaces'].append([name, parse_file(full)])
    return out


def fuel_for(trees):
    n_alias = len(trees['alias'][2]) if trees['alias'] else 0
    if trees['alias_ext']:
        n_alias += len(trees['alias_ext'][2])
    d = 1
    for t in [trees['alias'], trees['alias_ext'], trees['entities']] + [x[1] for x in trees['defs']] + [x[1] for x in trees['interfaces']]:
        if t is not None:
            d = max(d, depth(t))
    return (n_alias + 2) * (d + 2) + len(trees['interfaces']) + 4


def load_request(ident, trees, masks=None, brief=False):
    req = {'op': 'defs.load', 'id': ident, 'fuel': fuel_for(trees), 'alias': trees['alias'] or ['root', None, []],
           'alias_ext': trees['alias_ext'], 'entities': trees['entities'] or ['root', None, []],
           'defs': trees['defs'], 'interfaces': trees['interfaces'], 'brief': brief}
    if masks:
        req['masks'] = masks
    return req
