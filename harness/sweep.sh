#!/bin/bash
# Development aid: every quick check on the unchanged tree for several seeds (isolated worktree of /repo, VERIF_REPO).
#   harness/sweep.sh "1 2 3" [tier]
set -u
here="$(cd "$(dirname "$0")/.." && pwd)"
seeds="${1:-1 2 3}"; tier="${2:-quick}"
wt="/tmp/wt_sweep_$$"
git -C /repo worktree add --detach "$wt" HEAD >/dev/null 2>&1 || { echo "worktree failed"; exit 3; }
trap 'git -C /repo worktree remove --force "$wt" >/dev/null 2>&1; rm -rf "$wt"' EXIT
( cd "$here/lean" && lake build ReplayModel ReplayProofs rmdriver >/dev/null 2>&1 ) || { echo "lean build failed"; exit 3; }
mkdir -p "$here/work/sweep"
for seed in $seeds; do
  bad=""
  for i in 01 02 03 04 05 06 07 08 09 10 11 12 13 14 15 16 17 18 19; do
    s=$(date +%s)
    ( cd "$here" && VERIF_SEED=$seed VERIF_REPO="$wt" ./check C$i --tier $tier ) > "$here/work/sweep/C$i.$seed.log" 2>&1
    rc=$?
    [ $rc -ne 0 ] && bad="$bad C$i(rc=$rc)"
    echo "  seed $seed C$i rc=$rc $(( $(date +%s) - s ))s"
  done
  echo "seed $seed alarms:${bad:- none}"
done
