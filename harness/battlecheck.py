# coding=utf-8
"""Shared: synthetic battle per bundled version -> container file -> real parser."""
import json
import logging
import os
import random
import traceback

from . import common
from .gen import battle
from .impl import defs as idefs

GAMES = ('wows', 'wot', 'wowp')


def version_dirs():
    """(game, version, has_controller_module) for every bundled version directory"""
    out = []
    for g in GAMES:
        base = os.path.join(common.REPO, 'replay_unpack', 'clients', g, 'versions')
        for v in sorted(os.listdir(base)):
            if os.path.isdir(os.path.join(base, v)) and v != '__pycache__':
                out.append((g, v))
    return out


def make_battle(game, version, seed, rich, ids=None):
    vdir = os.path.join(common.REPO, 'replay_unpack', 'clients', game, 'versions', version)
    loaded = idefs.load_views(vdir)
    if 'ok' not in loaded:
        return None, None, 'definitions do not load: %s' % loaded.get('exc', loaded.get('err'))
    rng = random.Random('battle-%s-%s-%s' % (game, version, seed))
    battle.FORCE_END = str(seed).endswith('-1')
    try:
        b, exp = battle.build(rng, game, version, loaded['ok'], rich=rich, ids=ids)
    finally:
        battle.FORCE_END = False
    return b, exp, None


def write_battle(b, tag=''):
    ext, data = battle.to_container(b)
    d = os.path.join(common.WORK, 'battles')
    os.makedirs(d, exist_ok=True)
    path = os.path.join(d, 'b-%d-%s.%s' % (os.getpid(), tag, ext))
    with open(path, 'wb') as f:
        f.write(data)
    return path


def parse_strict(path):
    """-> (hidden as JSON through the shipped encoder, error text)"""
    import replay_parser
    import zlib
    from .impl.play import _Discard
    # the logging configuration is part of the environment (the CLI offers --log_level DEBUG): one battle in three is parsed with the
    # root logger at DEBUG and a handler that formats and discards, the others with logging disabled
    root = logging.getLogger()
    saved = (root.level, root.handlers[:])
    if zlib.crc32(os.path.basename(path).encode()) % 3 == 0:
        logging.disable(logging.NOTSET)
        root.setLevel(logging.DEBUG)
        root.handlers = [_Discard()]
    else:
        logging.disable(logging.CRITICAL)
    try:
        info = replay_parser.ReplayParser(path, strict=True).get_info()
        txt = json.dumps(info, cls=replay_parser.DefaultEncoder, ensure_ascii=False)
        return json.loads(txt)['hidden'], None
    except Exception:
        return None, traceback.format_exc().strip().split('\n')[-1][:300]
    finally:
        logging.disable(logging.NOTSET)
        root.setLevel(saved[0])
        root.handlers = saved[1]
