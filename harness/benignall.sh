#!/bin/bash
# Development aid (not a registered check): false-alarm test. Applies every behaviour-preserving change under
# benign/<name>/patch.diff to a scratch worktree of /repo and runs all 19 quick checks against it (VERIF_REPO).
# (by default only the checks listed in benign/<name>/checks: those whose property is anchored in the touched files).
# Every check must exit 0. Meant for `vp run -- harness/benignall.sh [name-glob] [ids]`.
set -u
here="$(cd "$(dirname "$0")/.." && pwd)"
glob="${1:-*}"; ids="${2:-C01 C02 C03 C04 C05 C06 C07 C08 C09 C10 C11 C12 C13 C14 C15 C16 C17 C18 C19}"
wt="/tmp/wt_benignall_$$"
git -C /repo worktree add --detach "$wt" HEAD >/dev/null 2>&1 || { echo "worktree failed"; exit 3; }
trap 'git -C /repo worktree remove --force "$wt" >/dev/null 2>&1; rm -rf "$wt"' EXIT
( cd "$here/lean" && lake build ReplayModel ReplayProofs rmdriver >/dev/null 2>&1 ) || { echo "lean build failed"; exit 3; }
mkdir -p "$here/work/benignall"
for d in "$here"/benign/$glob/; do
  name="$(basename "$d")"
  [ -f "$d/patch.diff" ] || continue
  git -C "$wt" apply "$d/patch.diff" 2>/dev/null || { echo "$name patch-does-not-apply"; continue; }
  bad=""
  these="$ids"; [ -z "${2:-}" ] && [ -f "$d/checks" ] && these="$(cat "$d/checks")"
  for pid in $these; do
    ( cd "$here" && VERIF_REPO="$wt" ./check "$pid" --tier quick ) > "$here/work/benignall/$name.$pid.log" 2>&1
    rc=$?
    [ $rc -ne 0 ] && bad="$bad $pid(rc=$rc)"
  done
  git -C "$wt" checkout -- . ; git -C "$wt" clean -fdq
  echo "$name alarms:${bad:- none}"
done
