# coding=utf-8
"""
Stand-alone runner (no imports from /verif): parses replay files with whatever
`replay_unpack` / `replay_parser` is first on sys.path and prints one JSON line per file:
{"file":..., "digest": sha1 of the summary through the shipped encoder | null, "error": ...}
Usage: python digest_runner.py <script_dir> <forbidden_prefix> <mode> <file>...
"""
import hashlib
import json
import logging
import sys


HANDLES = {}


def main():
    script_dir, forbidden, mode = sys.argv[1], sys.argv[2], sys.argv[3]
    files = sys.argv[4:]
    if script_dir != '-':
        sys.path.insert(0, script_dir)
    if forbidden != '-':
        sys.path[:] = [p for p in sys.path if not (p.rstrip('/') == forbidden.rstrip('/'))]
    logging.disable(logging.CRITICAL)
    import replay_parser
    import replay_unpack
    origin = {'replay_unpack': replay_unpack.__file__, 'replay_parser': replay_parser.__file__}
    for item in files:
        # an item is either a path (global mode) or '<mode>=<path>'
        head = item.split('=', 1)[0] if '=' in item else ''
        m, path = (item.split('=', 1) if head.split('#')[0] in ('strict', 'lenient', 'strict2', 'lenient2') else (mode, item))
        # '<mode>#<handle>=<path>': items with the same handle share one ReplayParser object (kept across the other parses in between)
        handle = m.split('#', 1)[1] if '#' in m else None
        m = m.split('#', 1)[0]
        rec = {'file': path, 'mode': m}
        try:
            if handle is not None and (handle, path, m) in HANDLES:
                parser = HANDLES[(handle, path, m)]
            else:
                parser = replay_parser.ReplayParser(path, strict=m.startswith('strict'))
                if handle is not None:
                    HANDLES[(handle, path, m)] = parser
            info = parser.get_info()
            if m.endswith('2'):
                # the same parser object asked again: the second answer is the one reported
                info = parser.get_info()
            txt = json.dumps(info, cls=replay_parser.DefaultEncoder, sort_keys=True, ensure_ascii=False)
            rec['digest'] = hashlib.sha1(txt.encode('utf-8')).hexdigest()
            rec['hidden'] = info.get('hidden') is not None
            rec['error'] = info.get('error')
        except Exception as e:
            rec['digest'] = None
            rec['exception'] = '%s: %s' % (type(e).__name__, str(e)[:200])
        try:
            from replay_unpack.core.entity import Entity
            rec['registry'] = sorted((k, len(v)) for t in (Entity._methods_subscriptions, Entity._properties_subscriptions,
                                                          Entity._nested_properties_subscription) for k, v in t.items())
        except Exception:
            rec['registry'] = None
        sys.stdout.write(json.dumps(rec) + '\n')
    if forbidden != '-':
        leaked = sorted(set(getattr(m, '__file__', None) or '' for m in list(sys.modules.values())
                            if (getattr(m, '__file__', None) or '').startswith(forbidden.rstrip('/') + '/')))
    else:
        leaked = []
    sys.stdout.write(json.dumps({'origin': origin, 'leaked': leaked[:5]}) + '\n')


if __name__ == '__main__':
    main()
