/-
L8b — the *writer* side of nested updates: what a path of indices and a leaf operation mean
on a typed value (`reach`, `LeafOp`, `leafResult`) and the bytes an encoder writes for them
(`natBits`, `packBits`, `encodeNested`, `encodeNestedPacket`).

There is no writer for nested updates in `replays_unpack`; this is the specification of the
wire format the reader (`core/packets/NestedProperty.py`, modelled by `applyNested`) has to
invert, and C06 proves that it does. The harness's own Python encoder is compared with
`encodeNested` byte for byte on every generated nested operation, so the theorem is about
the bytes the implementation is actually fed.
-/
import ReplayModel.World
namespace ReplayModel

/-- the `w`-bit big-endian representation of `n` (most significant bit first) -/
def natBits : Nat → Nat → List Bool
  | 0, _ => []
  | w+1, n => decide (2 ^ w ≤ n) :: natBits w (n % 2 ^ w)

/-- a byte from (up to) 8 bits, most significant first -/
def byteOfBits (bs : List Bool) : UInt8 := UInt8.ofNat (bitsVal bs)

/-- pack bits MSB-first into bytes, padding the last byte with zero bits -/
def packBits : List Bool → Bytes
  | b0 :: b1 :: b2 :: b3 :: b4 :: b5 :: b6 :: b7 :: rest =>
    byteOfBits [b0, b1, b2, b3, b4, b5, b6, b7] :: packBits rest
  | [] => []
  | short => [byteOfBits (short ++ List.replicate (8 - short.length) false)]

/-- what a path of indices means on a typed value: the bits that spell it, the container it
ends at, the path items reported, and how an updated container is put back — ordinary
`List.set` / dict assignment at every level -/
structure Reach where
  bits : List Bool
  ty : Ty
  val : Val
  names : List String
  rebuild : Val → Val

def reach : Ty → Val → List Nat → Option Reach
  | t, v, [] => some ⟨[], t, v, [], id⟩
  | t, v, i :: rest =>
    match t.peel, v with
    | .array et _, .list xs =>
      match xs[i]? with
      | none => none
      | some child =>
        (reach et child rest).map fun r =>
          ⟨true :: (natBits (bitsRequired xs.length) i ++ r.bits), r.ty, r.val, natStr i :: r.names,
            fun nv => .list (xs.set i (r.rebuild nv))⟩
    | .fixedDict fs _, .dict vs =>
      if i < vs.length then
        match fs[i]? with
        | none => none
        | some (name, ft) =>
          match dictGet? vs name with
          | none => none
          | some child =>
            (reach ft child rest).map fun r =>
              ⟨true :: (natBits (bitsRequired vs.length) i ++ r.bits), r.ty, r.val, name :: r.names,
                fun nv => .dict (dictSet vs name (r.rebuild nv))⟩
      else none
    | _, _ => none

/-- the leaf operations an encoder can write -/
inductive LeafOp where
  | dictSet (i : Nat) (nv : Val)
  | listSet (i : Nat) (nv : Val)
  | listClear (i : Nat)
  | slice (i j : Nat) (new : List Val)

def LeafOp.isSlice : LeafOp → Bool
  | .slice .. => true
  | _ => false

/-- index fields of the leaf operation on container `v` -/
def leafBits (v : Val) : LeafOp → List Bool
  | .dictSet i _ => (match v with | .dict vs => natBits (bitsRequired vs.length) i | _ => [])
  | .listSet i _ => (match v with | .list xs => natBits (bitsRequired xs.length) i | _ => [])
  | .listClear i => (match v with | .list xs => natBits (bitsRequired xs.length) i | _ => [])
  | .slice i j _ => (match v with
      | .list xs => natBits (bitsRequired (xs.length + 1)) i ++ natBits (bitsRequired (xs.length + 1)) j
      | _ => [])

/-- element data following the (byte-aligned) bit fields -/
def leafData (t : Ty) : LeafOp → Bytes
  | .dictSet i nv => (match t with | .fixedDict fs _ => (match fs[i]? with | some (_, ft) => encodeWire 1 ft nv | none => []) | _ => [])
  | .listSet _ nv => (match t with | .array et _ => encodeWire 1 et nv | _ => [])
  | .listClear _ => []
  | .slice _ _ new => (match t with | .array et _ => new.flatMap (encodeWire 1 et) | _ => [])

/-- the meaning of a leaf operation: ordinary dict / list operations (Python slice assignment) -/
def leafResult (t : Ty) (v : Val) : LeafOp → Option NestedOut
  | .dictSet i nv => (match t, v with
      | .fixedDict fs _, .dict vs => (fs[i]?).map fun nf => ⟨.dict (dictSet vs nf.1 nv), [nf.1], some (.dict (dictSet vs nf.1 nv))⟩
      | _, _ => none)
  | .listSet i nv => (match v with
      | .list xs => some ⟨.list (xs.set i nv), [natStr i], some (.list (xs.set i nv))⟩
      | _ => none)
  | .listClear i => (match v with
      | .list xs => some ⟨.list (xs.set i .none), [natStr i], none⟩
      | _ => none)
  | .slice i j new => (match v with
      | .list xs =>
        some ⟨.list (sliceAssign xs i j new), [natStr i ++ ":" ++ natStr j], if new.isEmpty then none else some (.list (sliceAssign xs i j new))⟩
      | _ => none)

/-- what an encoder must respect (decidable form): indices representable in their field and,
for element access, in range; values of the element type; element encodings non-empty -/
def leafOKb (t : Ty) (v : Val) : LeafOp → Bool
  | .dictSet i nv => (match t, v with
      | .fixedDict fs _, .dict vs =>
        decide (i < vs.length) &&
          (match fs[i]? with | some (_, ft) => hasTy ft nv && userOK 1 ft nv | none => false)
      | _, _ => false)
  | .listSet i nv => (match t, v with
      | .array et _, .list xs =>
        decide (i < xs.length) && hasTy et nv && userOK 1 et nv && !(encodeWire 1 et nv).isEmpty
      | _, _ => false)
  | .listClear i => (match t, v with
      | .array _ _, .list xs => decide (i < xs.length)
      | _, _ => false)
  | .slice i j new => (match t, v with
      | .array et _, .list xs =>
        decide (i < 2 ^ bitsRequired (xs.length + 1)) && decide (j < 2 ^ bitsRequired (xs.length + 1)) &&
          new.all (fun x => hasTy et x && userOK 1 et x && !(encodeWire 1 et x).isEmpty)
      | _, _ => false)

/-- header bits of a nested update: `1, property index, (1, child index)*, 0, leaf index fields` -/
def nestedBits (nprops pi : Nat) (R : Reach) (op : LeafOp) : List Bool :=
  true :: (natBits (bitsRequired nprops) pi ++ (R.bits ++ false :: leafBits R.val op))

/-- the body of a nested-update packet for entity `e`: property `pi`, index path `path`
below it, leaf operation `op`. `none` when the path does not exist in the entity's current
value or the operation is not one an encoder may write. -/
def encodeNested (e : Entity) (pi : Nat) (path : List Nat) (op : LeafOp) : Option Bytes :=
  match e.view.clientProps[pi]? with
  | none => none
  | some p =>
    match dictGet? e.client p.name with
    | none => none
    | some v =>
      match reach p.ty v path with
      | none => none
      | some R =>
        if leafOKb R.ty.peel R.val op then
          some (packBits (nestedBits e.view.clientProps.length pi R op) ++ leafData R.ty.peel op)
        else none

/-- payload of the packet: entity id (u32), slice flag (i8), body length (u32), body -/
def nestedPayload (id : Nat) (isSlice : Bool) (body : Bytes) : Bytes :=
  toLE 4 id ++ [if isSlice then 1 else 0] ++ toLE 4 body.length ++ body

end ReplayModel
