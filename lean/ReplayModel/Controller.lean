/-
L12 — the aggregation core of the per-version battle controllers
(`versions/*/battle_controller.py`, `players_info.py`): how decoded events are folded into
the summary. Version differences that only change *where an event's fields come from*
(argument shapes, key mapping, pickle encodings) are resolved by the harness when it turns a
battle into `Event`s; what is modelled — and proved — is the fold every variant shares.
-/
import ReplayModel.Bytes
namespace ReplayModel

/-- association list with integer keys, dict semantics (first position kept) -/
def isetD {α : Type} (d : List (Int × α)) (k : Int) (f : Option α → α) : List (Int × α) :=
  if d.any (·.1 == k) then d.map (fun p => if p.1 == k then (k, f (some p.2)) else p)
  else d ++ [(k, f none)]

def iget? {α : Type} (d : List (Int × α)) (k : Int) : Option α := (d.find? (·.1 == k)).map (·.2)

/-- `d.setdefault(k, 0); d[k] += n` -/
def bump (d : List (Int × Int)) (k : Int) (n : Int) : List (Int × Int) :=
  isetD d k (fun o => o.getD 0 + n)

/-- two-level counter `m.setdefault(a, {}).setdefault(b, 0); m[a][b] += n` -/
def bump2 (m : List (Int × List (Int × Int))) (a b : Int) (n : Int) : List (Int × List (Int × Int)) :=
  isetD m a (fun o => bump (o.getD []) b n)

/-- right-biased merge of one roster row into a player record (`dict.update`) -/
def mergeRow (old : List (String × String)) (row : List (String × String)) : List (String × String) :=
  row.foldl (fun acc kv =>
    if acc.any (·.1 == kv.1) then acc.map (fun p => if p.1 == kv.1 then kv else p) else acc ++ [kv]) old

inductive Event where
  | death (victim killer typ : Int)
  | achievement (avatar id : Int)
  | ribbon (owner id : Int)
  | shot (vehicle attacker : Int) (amount : Int)
  | damageStat (entries : List (Int × Int × String))     -- (type, flag, value); flag 0 = enemy
  | planeDeath (attacker : Int) (count : Nat)
  | roster (player : Int) (row : List (String × String))
  | battleEnd (team reason : Int)
  | map (name : Bytes)
  | arena (id : Int)
  | player (id : Int)
  deriving Repr, Inhabited

structure Summary where
  deaths : List (Int × Int × Int) := []
  achievements : List (Int × List (Int × Int)) := []
  ribbons : List (Int × List (Int × Int)) := []
  shots : List (Int × List (Int × Int)) := []
  damage : List (Int × String) := []
  planes : List (Int × Int) := []
  players : List (Int × List (String × String)) := []
  battleResult : Option (Int × Int) := none
  map : Option Bytes := none
  arenaId : Option Int := none
  playerId : Option Int := none
  deriving Repr, Inhabited

def spacesPrefix : Bytes := "spaces/".toUTF8.toList

/-- the arena name without the literal prefix `spaces/` (removed once, only at the start) -/
def stripSpaces (name : Bytes) : Bytes :=
  if spacesPrefix.isPrefixOf name then name.drop spacesPrefix.length else name

def Summary.apply (s : Summary) : Event → Summary
  | .death v k t => { s with deaths := s.deaths ++ [(v, k, t)] }
  | .achievement a i => { s with achievements := bump2 s.achievements a i 1 }
  | .ribbon o i => { s with ribbons := bump2 s.ribbons o i 1 }
  | .shot v a n => { s with shots := bump2 s.shots v a n }
  | .damageStat es =>
    { s with damage := es.foldl (fun acc e =>
        if e.2.1 == 0 then isetD acc e.1 (fun _ => e.2.2) else acc) s.damage }
  | .planeDeath a n => { s with planes := bump s.planes a n }
  | .roster p row => { s with players := isetD s.players p (fun o => mergeRow (o.getD []) row) }
  | .battleEnd t r => { s with battleResult := some (t, r) }
  | .map n => { s with map := some (stripSpaces n) }
  | .arena i => { s with arenaId := some i }
  | .player i => { s with playerId := some i }

def summarize (es : List Event) : Summary := es.foldl Summary.apply {}

end ReplayModel
