/-
L1 — `bit_reader.py`: `bits_required`, `BitReader.get`, `get_rest`.
-/
import ReplayModel.Bytes
namespace ReplayModel

/-- Integer specification of `BitReader.bits_required`: 0 for n ≤ 1, else ⌈log₂ n⌉. -/
def bitsRequired (n : Nat) : Nat :=
  if n ≤ 1 then 0 else (n - 1).log2 + 1

/-- the 8 bits of a byte, most significant first -/
def bitsOfByte (b : UInt8) : List Bool :=
  [7, 6, 5, 4, 3, 2, 1, 0].map fun i => (b.toNat / 2 ^ i) % 2 = 1

/-- big-endian value of a bit list -/
def bitsVal (bs : List Bool) : Nat :=
  bs.foldl (fun acc b => 2 * acc + (if b then 1 else 0)) 0

structure BitReader where
  stream : Bytes
  cache : List Bool
  deriving Repr, DecidableEq

def BitReader.ofBytes (bs : Bytes) : BitReader := ⟨bs, []⟩

/-- all bits still to be delivered, in delivery order -/
def BitReader.pending (r : BitReader) : List Bool :=
  r.cache ++ r.stream.flatMap bitsOfByte

/-- `_get_next_bit`: refill the cache from the next byte when empty; `Exception` when
the stream is exhausted (the `IndexError` of `pop(0)` on the empty cache). -/
def BitReader.nextBit (r : BitReader) : R (Bool × BitReader) :=
  match r.cache with
  | c :: cs => .ok (c, { r with cache := cs })
  | [] =>
    match r.stream with
    | [] => .error .other
    | b :: bs =>
      match bitsOfByte b with
      | c :: cs => .ok (c, ⟨bs, cs⟩)
      | [] => .error .other

/-- accumulate `n` bits onto `acc` -/
def BitReader.getAcc : Nat → Nat → BitReader → R (Nat × BitReader)
  | 0, acc, r => .ok (acc, r)
  | n+1, acc, r => do
    let (b, r') ← r.nextBit
    getAcc n (2 * acc + (if b then 1 else 0)) r'

/-- `BitReader.get(nbits)` -/
def BitReader.get (n : Nat) (r : BitReader) : R (Nat × BitReader) := r.getAcc n 0

/-- `BitReader.get_rest()`: whatever bytes have not been pulled into the cache -/
def BitReader.getRest (r : BitReader) : Bytes := r.stream

end ReplayModel
