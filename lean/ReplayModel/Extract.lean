/-
L12b — from the played stream to the controller's events: what the callbacks every bundled
wows controller registers (`Avatar.receiveVehicleDeath`, `Avatar.onAchievementEarned`,
`Avatar.onBattleEnd`, the arena id of `Avatar.onArenaStateReceived`) make of the decoded arguments, and what the player itself records
(recording player's id, map name). Together with `Controller.lean` this gives the
summary as a function of the *bytes* of the stream (`summaryOfStream`), not of a trace somebody
else extracted. Calls whose arguments are pickled blobs (rosters, damage statistics) are outside:
unpickling is external.
-/
import ReplayModel.Play
import ReplayModel.Controller
namespace ReplayModel

def keyDeath : String := "Avatar_receiveVehicleDeath"
def keyAchievement : String := "Avatar_onAchievementEarned"
def keyBattleEnd : String := "Avatar_onBattleEnd"
def keyArenaState : String := "Avatar_onArenaStateReceived"

/-- what the controller's callback for `key` makes of the decoded arguments -/
def eventOfCall (key : String) (args : List Val) : Option Event :=
  if key == keyDeath then
    match args with
    | [.int v, .int k, .int t] => some (.death v k t)
    | _ => none
  else if key == keyAchievement then
    match args with
    | [.int a, .int i] => some (.achievement a i)
    | _ => none
  else if key == keyBattleEnd then
    match args with
    | [.int t, .int r] => some (.battleEnd t r)
    | _ => none                                   -- newer versions: no arguments, result read from a property
  else if key == keyArenaState then
    match args with
    | .int a :: _ => some (.arena a)              -- arenaUniqueId; the other arguments are pickled blobs (external)
    | _ => none
  else none

/-- the callbacks are invoked as `func(entity, *args, **kwargs)`: unnamed arguments arrive
positionally, named ones (newer definitions) by keyword, in declaration order -/
def eventOfEntry : LogEntry → Option Event
  | .method key _ _ args kwargs => eventOfCall key (args ++ kwargs.map (·.2))
  | _ => none

/-- what the player records outside the callbacks -/
def eventsOfWorld (w : World) : List Event :=
  (match w.playerId with | some i => [Event.player i] | none => []) ++
  (match w.map with | some n => [Event.map n] | none => [])

def eventsOfLog (log : List LogEntry) : List Event := log.filterMap eventOfEntry

/-- one recording subscriber (tag 0) on each of the three keys -/
def summaryRegistry : Registry :=
  { methods := [(keyDeath, [⟨0, false⟩]), (keyAchievement, [⟨0, false⟩]), (keyBattleEnd, [⟨0, false⟩]),
      (keyArenaState, [⟨0, false⟩])] }

/-- the summary fields that are functions of typed (non-pickled) data, from the bytes of the stream -/
def summaryOfStream (jsonOk : Bytes → Bool) (defs : Defs) (masks : Masks) (dialect : Dialect) (strict : Bool) (stream : Bytes) : Summary :=
  let r := play jsonOk { defs := defs, masks := masks, dialect := dialect, reg := summaryRegistry } strict {} stream
  summarize (eventsOfLog r.world.log ++ eventsOfWorld r.world)

end ReplayModel
