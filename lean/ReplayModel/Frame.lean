/-
L4 — packet framing (`core/network/net_packet.py`, `PlayerBase.play` loop skeleton).
-/
import ReplayModel.Bytes
namespace ReplayModel

structure NetPacket where
  type : Nat
  time : Nat          -- float32 bit pattern
  payload : Bytes     -- exactly what `stream.read(size)` returned (may be short)
  size : Nat          -- declared size
  deriving Repr, DecidableEq, Inhabited

/-- `NetPacket(stream)`: 12-byte header (size, type, time; little-endian), then
`stream.read(size)`. A header cut short raises `struct.error`. -/
def readNetPacket (bs : Bytes) : Except Err (NetPacket × Bytes) :=
  if (bs.drop 11).isEmpty then .error .short      -- fewer than 12 bytes left (O(1) test)
  else
    let size := leNat (bs.take 4)
    let ty := leNat ((bs.drop 4).take 4)
    let tm := leNat ((bs.drop 8).take 4)
    let body := bs.drop 12
    .ok ({ type := ty, time := tm, payload := body.take size, size := size }, body.drop size)

theorem readNetPacket_shorter {bs : Bytes} {p : NetPacket} {rest : Bytes}
    (h : readNetPacket bs = .ok (p, rest)) : rest.length < bs.length := by
  unfold readNetPacket at h
  split at h
  · cases h
  · rename_i hne
    have hlen : 11 < bs.length := by
      rcases Nat.lt_or_ge 11 bs.length with h1 | h1
      · exact h1
      · exact absurd (by simp [List.drop_eq_nil_of_le h1]) hne
    simp only [Except.ok.injEq, Prod.mk.injEq] at h
    rw [← h.2]
    simp only [List.length_drop]
    omega

/-- how the frame loop ended -/
inductive FrameEnd where
  | exhausted        -- `io.tell() == len(data)`
  | headerShort      -- fewer than 12 bytes left: `struct.error` escapes `play`
  deriving Repr, DecidableEq

/-- all packets of a stream, in order (the `while io.tell() != len(data)` loop) -/
def parsePackets (bs : Bytes) : List NetPacket × FrameEnd :=
  if hb : bs = [] then ([], .exhausted)
  else
    match h : readNetPacket bs with
    | .error _ => ([], .headerShort)
    | .ok (p, rest) =>
      have : rest.length < bs.length := readNetPacket_shorter h
      let (ps, e) := parsePackets rest
      (p :: ps, e)
termination_by bs.length

/-- encoder used to build synthetic streams: header + payload -/
def encodeNetPacket (ty tm : Nat) (payload : Bytes) : Bytes :=
  toLE 4 payload.length ++ toLE 4 ty ++ toLE 4 tm ++ payload

end ReplayModel
