/-
L11 — version selection (`replay_parser.py:_get_hidden_data`, `clients/*/player.py`,
`clients/*/helper.py`): the three version-string normalisations, the 4-then-3 component
resolution against the bundled sets (separately for definitions and controller), the
`>= 12.6.0` packet-table switch and the refusal outcome.
-/
namespace ReplayModel

/-- `str.split(sep)` on a character list -/
def splitOnChar (sep : Char) (cs : List Char) : List (List Char) :=
  let rec go (cur : List Char) (acc : List (List Char)) : List Char → List (List Char)
    | [] => (cur.reverse :: acc).reverse
    | c :: rest => if c == sep then go [] (cur.reverse :: acc) rest else go (c :: cur) acc rest
  go [] [] cs

def joinWith (sep : String) (parts : List String) : String := sep.intercalate parts

/-- wows: `clientVersionFromXml.replace(' ', '').split(',')` -/
def normWows (s : String) : List String :=
  (splitOnChar ',' (s.toList.filter (· != ' '))).map String.ofList

/-- wowp: `clientVersion[len('World of Warplanes '):].replace(' ', '').split('.')` -/
def normWowp (s : String) : List String :=
  (splitOnChar '.' ((s.toList.drop 19).filter (· != ' '))).map String.ofList

/-- `str.replace(old, new)` for a non-empty `old` -/
def replaceAll (old new : List Char) : Nat → List Char → List Char
  | 0, cs => cs
  | _, [] => []
  | fuel+1, c :: rest =>
    if old.isPrefixOf (c :: rest) && !old.isEmpty then new ++ replaceAll old new fuel ((c :: rest).drop old.length)
    else c :: replaceAll old new fuel rest

/-- the literal the wot branch strips (its blanks are U+00A0 in the source) -/
def wotPrefix : List Char := "World of Tanks v.".toList

/-- wot: `.replace(prefix, '').replace(' ', '.').replace('#', '').split('.')[:3]` joined by '.' -/
def normWot (s : String) : String :=
  let cs := s.toList
  let a := replaceAll wotPrefix [] (cs.length + 1) cs
  let b := a.map (fun c => if c == ' ' then '.' else c)
  let c := b.filter (· != '#')
  joinWith "." (((splitOnChar '.' c).take 3).map String.ofList)

/-- what is bundled for one game -/
structure Bundled where
  defs : List String        -- directories with scripts/entity_defs/alias.xml
  modules : List String     -- importable `versions.<name>` (packages, incl. namespace packages)
  controllers : List String -- modules that export BattleController
  deriving Repr

inductive Refusal where
  | notSupportedController (v : String)   -- RuntimeError("version %s is not supported currently")
  | notSupportedDefs                      -- RuntimeError("Not supported version")
  | importError                           -- wot: ImportError re-raised
  | noControllerClass                     -- AssertionError: module without BattleController
  | invalidVersion                        -- packaging.version.InvalidVersion
  deriving Repr, DecidableEq

structure Selection where
  controller : String
  defs : String
  newTable : Bool
  deriving Repr, DecidableEq

def underscored (comps : List String) (n : Nat) : String := joinWith "_" (comps.take n)

/-- 4-component name if bundled, else the 3-component name, else none -/
def resolve (bundled : List String) (comps : List String) : Option String :=
  if bundled.contains (underscored comps 4) then some (underscored comps 4)
  else if bundled.contains (underscored comps 3) then some (underscored comps 3)
  else none

def natOf? (s : String) : Option Nat :=
  if s.isEmpty || !s.toList.all Char.isDigit then none
  else some (s.toList.foldl (fun acc c => 10 * acc + (c.toNat - 48)) 0)

/-- lexicographic comparison of release tuples, missing components counting as 0 -/
def releaseGE : List Nat → List Nat → Bool
  | [], ys => ys.all (· == 0)
  | _ :: _, [] => true
  | x :: xs, y :: ys => if x > y then true else if x < y then false else releaseGE xs ys

/-- `Version('.'.join(version)) >= Version('12.6.0')` for plain numeric components -/
def usesNewTable (comps : List String) : Option Bool :=
  match comps.mapM natOf? with
  | some ns => some (releaseGE ns [12, 6, 0])
  | none => none

/-- wows / wowp: controller first (the player base class creates it first), then the
definitions, then (wows) the packet table -/
def selectWows (b : Bundled) (comps : List String) : Except Refusal Selection :=
  match resolve b.modules comps with
  | none => .error (.notSupportedController (underscored comps 3))
  | some c =>
    if !b.controllers.contains c then .error .noControllerClass
    else
      match resolve b.defs comps with
      | none => .error .notSupportedDefs
      | some d =>
        match usesNewTable comps with
        | none => .error .invalidVersion
        | some t => .ok ⟨c, d, t⟩

def selectWowp (b : Bundled) (comps : List String) : Except Refusal Selection :=
  match resolve b.modules comps with
  | none => .error (.notSupportedController (underscored comps 3))
  | some c =>
    if !b.controllers.contains c then .error .noControllerClass
    else
      match resolve b.defs comps with
      | none => .error .notSupportedDefs
      | some d => .ok ⟨c, d, false⟩

/-- wot: one three-component name for both, no fallback -/
def selectWot (b : Bundled) (version : String) : Except Refusal Selection :=
  let name := String.ofList (version.toList.map (fun c => if c == '.' then '_' else c))
  if !b.modules.contains name then .error .importError
  else if !b.controllers.contains name then .error .noControllerClass
  else if !b.defs.contains name then .error .notSupportedDefs
  else .ok ⟨name, name, false⟩

end ReplayModel
