/-
L14 — the fragment of the pickle virtual machine that reaches `find_class`
(GLOBAL, STACK_GLOBAL, INST and the opcodes needed to get strings onto the stack and to
skip over data). The model produces the list of `find_class(module, name)` events of a
payload; with an allow-list it stops at the first event outside it (a restricted Unpickler).
What the located callables do when REDUCE / NEWOBJ call them is outside the model.
-/
import ReplayModel.Bytes
namespace ReplayModel

inductive PVal where
  | str (b : Bytes)
  | glob (m n : Bytes)
  | mark
  | other
  deriving Repr, DecidableEq

structure PState where
  stack : List PVal := []
  events : List (Bytes × Bytes) := []
  deriving Repr

/-- read up to (excluding) the next newline; `none` when there is none -/
def readLine : Bytes → Option (Bytes × Bytes)
  | [] => none
  | b :: bs => if b == 10 then some ([], bs) else (readLine bs).map fun (l, r) => (b :: l, r)

def popToMark : List PVal → List PVal
  | [] => []
  | .mark :: rest => rest
  | _ :: rest => popToMark rest

inductive PEnd where
  | stop (events : List (Bytes × Bytes))
  | refused (events : List (Bytes × Bytes)) (m n : Bytes)    -- restricted: class outside the allow-list
  | error (events : List (Bytes × Bytes))                    -- truncated / unsupported opcode
  deriving Repr, DecidableEq

def allowed (allow : Option (List (Bytes × Bytes))) (m n : Bytes) : Bool :=
  match allow with
  | none => true
  | some a => a.contains (m, n)

def skipN (n : Nat) (bs : Bytes) : Option Bytes := if bs.length < n then none else some (bs.drop n)

/-- length-prefixed data: `k` little-endian length bytes, then that many bytes -/
def readCounted (k : Nat) (bs : Bytes) : Option (Bytes × Bytes) :=
  if bs.length < k then none
  else
    let n := leNat (bs.take k)
    let r := bs.drop k
    if r.length < n then none else some (r.take n, r.drop n)

def pickleRun (allow : Option (List (Bytes × Bytes))) : Nat → Bytes → PState → PEnd
  | 0, _, st => .error st.events
  | _, [], st => .error st.events
  | fuel+1, op :: rest, st =>
    let go := pickleRun allow fuel
    let push (v : PVal) (r : Bytes) := go r { st with stack := v :: st.stack }
    let cls (m n : Bytes) (r : Bytes) (stack : List PVal) :=
      if allowed allow m n then go r { stack := .glob m n :: stack, events := st.events ++ [(m, n)] }
      else .refused st.events m n
    let skip (n : Nat) (v : Option PVal) :=
      match skipN n rest with
      | none => .error st.events
      | some r => match v with
        | some x => push x r
        | none => go r st
    let line (k : Bytes → Bytes → PEnd) :=
      match readLine rest with
      | none => .error st.events
      | some (l, r) => k l r
    match op.toNat with
    | 0x2e => .stop st.events                                        -- STOP
    | 0x80 => skip 1 none                                            -- PROTO
    | 0x95 => skip 8 none                                            -- FRAME
    | 0x63 => line fun m r1 =>                                       -- GLOBAL
        match readLine r1 with
        | none => .error st.events
        | some (n, r2) => cls m n r2 st.stack
    | 0x69 => line fun m r1 =>                                       -- INST
        match readLine r1 with
        | none => .error st.events
        | some (n, r2) => cls m n r2 (popToMark st.stack)
    | 0x93 =>                                                        -- STACK_GLOBAL
        match st.stack with
        | .str n :: .str m :: below => cls m n rest below
        | _ => .error st.events
    | 0x8c => match readCounted 1 rest with                          -- SHORT_BINUNICODE
        | some (s, r) => push (.str s) r | none => .error st.events
    | 0x58 => match readCounted 4 rest with                          -- BINUNICODE
        | some (s, r) => push (.str s) r | none => .error st.events
    | 0x55 => match readCounted 1 rest with                          -- SHORT_BINSTRING
        | some (s, r) => push (.str s) r | none => .error st.events
    | 0x54 => match readCounted 4 rest with                          -- BINSTRING
        | some (s, r) => push (.str s) r | none => .error st.events
    | 0x56 => line fun l r => push (.str l) r                        -- UNICODE
    | 0x43 => match readCounted 1 rest with                          -- SHORT_BINBYTES
        | some (_, r) => push .other r | none => .error st.events
    | 0x42 => match readCounted 4 rest with                          -- BINBYTES
        | some (_, r) => push .other r | none => .error st.events
    | 0x8a => match readCounted 1 rest with                          -- LONG1
        | some (_, r) => push .other r | none => .error st.events
    | 0x28 => push .mark rest                                        -- MARK
    | 0x74 => go rest { st with stack := .other :: popToMark st.stack }   -- TUPLE
    | 0x6c => go rest { st with stack := .other :: popToMark st.stack }   -- LIST
    | 0x64 => go rest { st with stack := .other :: popToMark st.stack }   -- DICT
    | 0x6f => go rest { st with stack := .other :: popToMark st.stack }   -- OBJ
    | 0x65 => go rest { st with stack := popToMark st.stack }        -- APPENDS
    | 0x75 => go rest { st with stack := popToMark st.stack }        -- SETITEMS
    | 0x31 => go rest { st with stack := popToMark st.stack }        -- POP_MARK
    | 0x29 => push .other rest                                       -- EMPTY_TUPLE
    | 0x7d => push .other rest                                       -- EMPTY_DICT
    | 0x5d => push .other rest                                       -- EMPTY_LIST
    | 0x8f => push .other rest                                       -- EMPTY_SET
    | 0x4e => push .other rest                                       -- NONE
    | 0x88 => push .other rest                                       -- NEWTRUE
    | 0x89 => push .other rest                                       -- NEWFALSE
    | 0x4b => skip 1 (some .other)                                   -- BININT1
    | 0x4d => skip 2 (some .other)                                   -- BININT2
    | 0x4a => skip 4 (some .other)                                   -- BININT
    | 0x47 => skip 8 (some .other)                                   -- BINFLOAT
    | 0x49 => line fun _ r => push .other r                          -- INT
    | 0x4c => line fun _ r => push .other r                          -- LONG
    | 0x46 => line fun _ r => push .other r                          -- FLOAT
    | 0x53 => line fun _ r => push .other r                          -- STRING
    | 0x94 => go rest st                                             -- MEMOIZE
    | 0x71 => skip 1 none                                            -- BINPUT
    | 0x72 => skip 4 none                                            -- LONG_BINPUT
    | 0x70 => line fun _ r => go r st                                -- PUT
    | 0x68 => skip 1 (some .other)                                   -- BINGET
    | 0x6a => skip 4 (some .other)                                   -- LONG_BINGET
    | 0x67 => line fun _ r => push .other r                          -- GET
    | 0x85 => go rest { st with stack := .other :: st.stack.drop 1 } -- TUPLE1
    | 0x86 => go rest { st with stack := .other :: st.stack.drop 2 } -- TUPLE2
    | 0x87 => go rest { st with stack := .other :: st.stack.drop 3 } -- TUPLE3
    | 0x52 => go rest { st with stack := .other :: st.stack.drop 2 } -- REDUCE
    | 0x81 => go rest { st with stack := .other :: st.stack.drop 2 } -- NEWOBJ
    | 0x92 => go rest { st with stack := .other :: st.stack.drop 3 } -- NEWOBJ_EX
    | 0x62 => go rest { st with stack := st.stack.drop 1 }           -- BUILD
    | 0x61 => go rest { st with stack := st.stack.drop 1 }           -- APPEND
    | 0x73 => go rest { st with stack := st.stack.drop 2 }           -- SETITEM
    | 0x30 => go rest { st with stack := st.stack.drop 1 }           -- POP
    | 0x32 => match st.stack with                                    -- DUP
        | v :: _ => push v rest | [] => .error st.events
    | _ => .error st.events

def PEnd.events : PEnd → List (Bytes × Bytes)
  | .stop e => e | .refused e _ _ => e | .error e => e

end ReplayModel
