/-
L14 — what a built distribution contains (`setup.py`: find_packages + package_data globs +
scripts) versus what parsing can need, over a file listing of the tree.
Paths are '/'-separated and relative to the project root.
-/
namespace ReplayModel

def splitPath (p : String) : List String := p.splitOn "/"

def dirOf (p : String) : String := "/".intercalate (splitPath p).dropLast
def baseOf (p : String) : String := (splitPath p).getLast?.getD ""

/-- all suffixes of a list, longest first -/
def tailsOf {α : Type} : List α → List (List α)
  | [] => [[]]
  | x :: xs => (x :: xs) :: tailsOf xs

/-- `fnmatch` of one path segment against a pattern with `*` (any run of characters) -/
def segMatch : List Char → List Char → Bool
  | [], s => s.isEmpty
  | p :: ps, s =>
    if p == '*' then (tailsOf s).any (fun t => segMatch ps t)
    else match s with
      | [] => false
      | c :: cs => p == c && segMatch ps cs

/-- `glob(pattern, recursive=True)` on segments: `**` matches zero or more directories -/
def globMatch : List String → List String → Bool
  | [], ss => ss.isEmpty
  | p :: ps, ss =>
    if p == "**" then (tailsOf ss).any (fun t => globMatch ps t)
    else match ss with
      | [] => false
      | s :: rest => segMatch p.toList s.toList && globMatch ps rest

/-- every proper prefix directory of `d` below (and including) its top-level directory, plus `d` -/
def ancestors (d : String) : List String :=
  let segs := splitPath d
  (List.range segs.length).map fun i => "/".intercalate (segs.take (i + 1))

/-- `find_packages()`: a directory is a package iff it and all its ancestors contain `__init__.py` -/
def isPackage (files : List String) (d : String) : Bool :=
  d != "" && (ancestors d).all fun a => files.contains (a ++ "/__init__.py")

def allDirs (files : List String) : List String := (files.map dirOf).eraseDups

def packagesOf (files : List String) : List String := (allDirs files).filter (isPackage files)

structure SetupCfg where
  dataPatterns : List String      -- package_data[''] patterns, relative to each package
  scripts : List String
  deriving Repr

/-- path of `f` relative to directory `d`, if `f` lies below `d` -/
def relTo (d f : String) : Option (List String) :=
  let ds := splitPath d
  let fs := splitPath f
  if ds.isPrefixOf fs && ds.length < fs.length then some (fs.drop ds.length) else none

/-- is the file part of the built distribution? -/
def shippedFile (files : List String) (pkgs : List String) (cfg : SetupCfg) (f : String) : Bool :=
  cfg.scripts.contains f ||
  -- a module of a package
  (pkgs.contains (dirOf f) && segMatch "*.py".toList (baseOf f).toList) ||
  -- package data: some package above it and some pattern matching the relative path
  pkgs.any (fun p => match relTo p f with
    | some rel => cfg.dataPatterns.any (fun pat => globMatch (splitPath pat) rel)
    | none => false)

def shipped (files : List String) (cfg : SetupCfg) : List String :=
  let pkgs := packagesOf files
  files.filter (shippedFile files pkgs cfg)

/-- files parsing can need: every Python module of the package, every definition file the
loader can open, the command-line script -/
def neededFile (root : String) (script : String) (f : String) : Bool :=
  f == script ||
  (match relTo root f with
   | some rel =>
     let b := rel.getLast?.getD ""
     segMatch "*.py".toList b.toList ||
       (rel.contains "scripts" && (segMatch "*.def".toList b.toList || segMatch "*.xml".toList b.toList))
   | none => false)

def missing (files : List String) (cfg : SetupCfg) (root script : String) : List String :=
  let pkgs := packagesOf files
  files.filter fun f => neededFile root script f && !shippedFile files pkgs cfg f

end ReplayModel
