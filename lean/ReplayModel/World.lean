/-
L5–L8 — packet payload layouts, the entity world, nested updates, subscriptions and the
per-dialect `_process_packet` (`core/packets/*`, `clients/*/network/packets/*`,
`core/entity.py`, `clients/*/player.py`, `core/packets/NestedProperty.py`).
-/
import ReplayModel.Bits
import ReplayModel.Defs
import ReplayModel.Frame
namespace ReplayModel

/-! ### Packet kinds and dialect tables -/

inductive Kind where
  | basePlayerCreate | cellPlayerCreateWows | cellPlayerCreateWot | entityControl | entityEnter
  | entityLeave | entityCreateWows | entityCreateWot | entityProperty | entityMethod | position
  | version | nestedProperty | mapWows | mapWot | playerPosition | battleStats
  deriving Repr, DecidableEq, Inhabited

inductive Game where
  | wows | wot | wowp
  deriving Repr, DecidableEq, Inhabited

structure Dialect where
  game : Game
  table : List (Nat × Kind)
  deriving Repr

def wowsGeneric : List (Nat × Kind) := [
  (0x0, .basePlayerCreate), (0x1, .cellPlayerCreateWows), (0x2, .entityControl), (0x3, .entityEnter),
  (0x4, .entityLeave), (0x5, .entityCreateWows), (0x7, .entityProperty), (0x8, .entityMethod),
  (0x0a, .position), (0x16, .version), (0x2b, .playerPosition)]

def wowsOld : Dialect := ⟨.wows, wowsGeneric ++ [(0x27, .mapWows), (0x22, .nestedProperty)]⟩
def wowsNew : Dialect :=
  ⟨.wows, wowsGeneric ++ [(0x22, .battleStats), (0x23, .nestedProperty), (0x28, .mapWows)]⟩
def wotDialect : Dialect := ⟨.wot, [
  (0x0, .basePlayerCreate), (0x1, .cellPlayerCreateWot), (0x2, .entityControl), (0x3, .entityEnter),
  (0x4, .entityLeave), (0x5, .entityCreateWot), (0x7, .entityProperty), (0x8, .entityMethod),
  (0xf, .mapWot), (0x24, .nestedProperty), (0x0a, .position)]⟩
def wowpDialect : Dialect := ⟨.wowp, [
  (0x0, .basePlayerCreate), (0x2, .entityControl), (0x3, .entityEnter), (0x4, .entityLeave),
  (0x7, .entityProperty), (0x8, .entityMethod), (0x22, .nestedProperty), (0x0a, .position),
  (0x16, .version)]⟩

def Dialect.kindOf (d : Dialect) (ty : Nat) : Option Kind :=
  (d.table.find? (·.1 == ty)).map (·.2)

/-! ### Packet payloads -/

structure Pose where
  pos : List Nat        -- three float32 bit patterns
  yaw : Nat
  pitch : Nat
  roll : Nat
  deriving Repr, DecidableEq, Inhabited

inductive Packet where
  | basePlayerCreate (id : Int) (type : Int) (value : Bytes)
  | cellPlayerCreate (id : Int) (value : Bytes)
  | entityControl (id : Int) (flag : Int)
  | entityEnter (id : Int)
  | entityLeave (id : Int)
  | entityCreate (id : Int) (type : Int) (state : Bytes)
  | entityProperty (id : Nat) (idx : Nat) (data : Bytes)
  | entityMethod (id : Nat) (idx : Nat) (data : Bytes)
  | position (id : Int) (pose : Pose)
  | playerPosition (id1 id2 : Int) (pose : Pose)
  | version (raw : Bytes)
  | nested (id : Nat) (isSlice : Bool) (payload : Bytes)
  | map (arenaId : Int) (name : Bytes)
  | battleStats (raw : Bytes)
  deriving Repr, Inhabited

/-- `BinaryStream(stream)`: u32 length, then `read(length)` (short allowed) -/
def readBinaryStream (bs : Bytes) : Except Err (Bytes × Bytes) := do
  let (n, r) ← readUIntLE 4 bs
  pure (r.take n, r.drop n)

def readVec3 (bs : Bytes) : Except Err (List Nat × Bytes) := do
  let (x, r) ← readUIntLE 4 bs
  let (y, r) ← readUIntLE 4 r
  let (z, r) ← readUIntLE 4 r
  pure ([x, y, z], r)

/-- `stream.read(n)` for a possibly negative `n` (negative reads everything) -/
def readSigned (n : Int) (bs : Bytes) : Bytes × Bytes :=
  if n < 0 then (bs, []) else (bs.take n.toNat, bs.drop n.toNat)

/-- `bytes.decode('utf-8')` outcome -/
def decodeUtf8 (b : Bytes) : R Bytes := if utf8Valid b then .ok b else .error .unicode

/-- `mapping[packet.type](packet.raw_data)`: the constructor of the packet class.
`jsonOk` stands for `json.loads` succeeding (external). -/
def deserialize (jsonOk : Bytes → Bool) : Kind → Bytes → R Packet
  | .basePlayerCreate, bs => do
    let (id, r) ← readIntLE 4 bs
    let (ty, r) ← readIntLE 2 r
    let (v, _) ← readBinaryStream r
    pure (.basePlayerCreate id ty v)
  | .cellPlayerCreateWows, bs => do
    let (id, r) ← readIntLE 4 bs
    let (_, r) ← readIntLE 4 r
    let (_, r) ← readIntLE 4 r
    let (_, r) ← readVec3 r
    let (_, r) ← readVec3 r
    let (v, _) ← readBinaryStream r
    pure (.cellPlayerCreate id v)
  | .cellPlayerCreateWot, bs => do
    let (id, r) ← readIntLE 4 bs
    let (_, r) ← readIntLE 4 r
    let (_, r) ← readIntLE 2 r
    let (_, r) ← readIntLE 4 r
    let (_, r) ← readVec3 r
    let (_, r) ← readVec3 r
    let (v, _) ← readBinaryStream r
    pure (.cellPlayerCreate id v)
  | .entityControl, bs => do
    let (b, _) ← readN 5 bs
    pure (.entityControl (toSigned 4 (leNat (b.take 4))) (toSigned 1 (leNat (b.drop 4))))
  | .entityEnter, bs => do
    let (b, _) ← readN 12 bs
    pure (.entityEnter (toSigned 4 (leNat (b.take 4))))
  | .entityLeave, bs => do
    let (id, _) ← readIntLE 4 bs
    pure (.entityLeave id)
  | .entityCreateWows, bs => do
    let (id, r) ← readIntLE 4 bs
    let (ty, r) ← readIntLE 2 r
    let (_, r) ← readIntLE 4 r
    let (_, r) ← readIntLE 4 r
    let (_, r) ← readVec3 r
    let (_, r) ← readVec3 r
    let (v, _) ← readBinaryStream r
    pure (.entityCreate id ty v)
  | .entityCreateWot, bs => do
    let (id, r) ← readIntLE 4 bs
    let (ty, r) ← readIntLE 2 r
    let (_, r) ← readIntLE 4 r
    let (_, r) ← readIntLE 4 r
    let (_, r) ← readVec3 r
    let (_, r) ← readVec3 r
    let (_, r) ← readIntLE 4 r
    let (v, _) ← readBinaryStream r
    pure (.entityCreate id ty v)
  | .entityProperty, bs => do
    let (id, r) ← readUIntLE 4 bs
    let (idx, r) ← readUIntLE 4 r
    let (v, _) ← readBinaryStream r
    pure (.entityProperty id idx v)
  | .entityMethod, bs => do
    let (id, r) ← readUIntLE 4 bs
    let (idx, r) ← readUIntLE 4 r
    let (v, _) ← readBinaryStream r
    pure (.entityMethod id idx v)
  | .position, bs => do
    let (id, r) ← readIntLE 4 bs
    let (_, r) ← readIntLE 4 r
    let (p, r) ← readVec3 r
    let (_, r) ← readVec3 r
    let (yaw, r) ← readUIntLE 4 r
    let (pitch, r) ← readUIntLE 4 r
    let (roll, r) ← readUIntLE 4 r
    let (_, _) ← readIntLE 1 r
    pure (.position id ⟨p, yaw, pitch, roll⟩)
  | .playerPosition, bs => do
    let (id1, r) ← readIntLE 4 bs
    let (id2, r) ← readIntLE 4 r
    let (p, r) ← readVec3 r
    let (yaw, r) ← readUIntLE 4 r
    let (pitch, r) ← readUIntLE 4 r
    let (roll, _) ← readUIntLE 4 r
    pure (.playerPosition id1 id2 ⟨p, yaw, pitch, roll⟩)
  | .version, bs => do
    let (n, r) ← readIntLE 4 bs
    let raw ← decodeUtf8 (readSigned n r).1
    pure (.version raw)
  | .nestedProperty, bs => do
    let (id, r) ← readUIntLE 4 bs
    let (sl, r) ← readIntLE 1 r
    let (n, r) ← readUIntLE 4 r
    if r.length = n then pure (.nested id (sl == 1) r) else .error .assertion
  | .mapWows, bs => do
    let (_, r) ← readIntLE 4 bs
    let (arena, r) ← readIntLE 8 r
    let (n, r) ← readIntLE 4 r
    -- pos = 16; s_len = len(payload)
    if (16 : Int) + n + 64 != (bs.length : Int) - 1 then
      let r := r.drop (16 * 8 + 4)
      let (n2, r) ← readIntLE 4 r
      let name ← decodeUtf8 (readSigned n2 r).1
      pure (.map arena name)
    else
      let name ← decodeUtf8 (readSigned n r).1
      pure (.map arena name)
  | .mapWot, bs => do
    let (_, r) ← readIntLE 4 bs
    let (arena, r) ← readIntLE 4 r
    let (n, r) ← readIntLE 1 r
    let name ← decodeUtf8 (readSigned n r).1
    pure (.map arena name)
  | .battleStats, bs => do
    let (n, r) ← readIntLE 4 bs
    let raw := (readSigned n r).1
    if jsonOk raw then pure (.battleStats raw) else .error .value

/-! ### Entities and the world -/

structure Entity where
  id : Int
  view : EntityView
  client : List (String × Val) := []
  cell : List (String × Val) := []
  base : List (String × Val) := []
  volatile : List (String × Val) := []
  deriving Repr, Inhabited

/-- `copy(spec.volatiles())`: position (0, 0, 0), yaw/pitch/roll 0.0 -/
def defaultVolatile (names : List String) : List (String × Val) :=
  names.map fun n => if n == "position" then (n, .vec [0, 0, 0]) else (n, .f32 0)

def Entity.new (m : Masks) (id : Int) (d : EntityDef) : Entity :=
  { id := id, view := d.view m, volatile := defaultVolatile d.volatile }

/-- a registered callback: `raises` says whether it raises when invoked -/
structure Sub where
  tag : Nat
  raises : Bool := false
  deriving Repr, DecidableEq, Inhabited

structure Registry where
  methods : List (String × List Sub) := []
  props : List (String × List Sub) := []
  nested : List (String × List Sub) := []
  deriving Repr, Inhabited

/-- `subscribe_*`: append to the key's list (created on first use) -/
def subscribe (table : List (String × List Sub)) (key : String) (s : Sub) : List (String × List Sub) :=
  match dictGet? table key with
  | some l => dictSet table key (l ++ [s])
  | none => table ++ [(key, [s])]

inductive LogEntry where
  | method (key : String) (sub : Nat) (entity : Int) (args : List Val) (kwargs : List (String × Val))
  | prop (key : String) (sub : Nat) (entity : Int) (value : Val)
  | nested (key : String) (sub : Nat) (entity : Int) (path : String) (obj : Val)
  deriving Repr, Inhabited

structure World where
  entities : List (Int × Entity) := []
  playerId : Option Int := none
  map : Option Bytes := none
  arenaId : Option Int := none
  log : List LogEntry := []          -- newest last
  stdout : List String := []
  deriving Repr, Inhabited

def World.get? (w : World) (id : Int) : Option Entity := (w.entities.find? (·.1 == id)).map (·.2)

/-- `controller.create_entity`: `entities[id] = entity` (dict assignment) -/
def World.put (w : World) (e : Entity) : World :=
  { w with entities :=
      if w.entities.any (·.1 == e.id) then w.entities.map (fun p => if p.1 == e.id then (e.id, e) else p)
      else w.entities ++ [(e.id, e)] }

/-- result of a step: the world after it (partial effects included) and the exception, if any -/
structure StepResult where
  world : World
  err : Option Err := none
  deriving Repr, Inhabited

/-- run subscribers in order until one raises; returns log entries and whether one raised -/
def runSubs (subs : List Sub) (mk : Nat → LogEntry) : List LogEntry × Bool :=
  match subs with
  | [] => ([], false)
  | s :: rest =>
    if s.raises then ([mk s.tag], true)
    else let (l, r) := runSubs rest mk; (mk s.tag :: l, r)

/-- `Entity.set_client_property(exposed_index, payload)`: returns the entity, what is left
of the stream, the log entries and an error -/
def setClientProperty (reg : Registry) (e : Entity) (idx : Nat) (bs : Bytes) :
    Entity × Bytes × List LogEntry × Option Err :=
  match e.view.clientProps[idx]? with
  | none => (e, bs, [], some .badIndex)
  | some p =>
    match decode 1 p.ty bs with
    | .error er => (e, bs, [], some er)
    | .ok (v, rest) =>
      let e' := { e with client := dictSet e.client p.name v }
      let key := e.view.name ++ "_" ++ p.name
      let (l, raised) := runSubs ((dictGet? reg.props key).getD []) (fun t => .prop key t e.id v)
      (e', rest, l, if raised then some .type else none)

/-- sequential decode of a list of properties from one stream into a bucket; stops at the
first error keeping what was set before -/
def setInternal (props : List PropDef) (bucket : List (String × Val)) (bs : Bytes) :
    List (String × Val) × Option Err :=
  match props with
  | [] => (bucket, none)
  | p :: ps =>
    match decode 1 p.ty bs with
    | .error er => (bucket, some er)
    | .ok (v, rest) => setInternal ps (dictSet bucket p.name v) rest

/-! ### Nested updates -/

def pyTruthy : Val → Bool
  | .none => false
  | .int i => i != 0
  | .f32 b => b % 2147483648 != 0
  | .f64 b => b % 9223372036854775808 != 0
  | .vec xs => !xs.isEmpty
  | .bytes b => !b.isEmpty
  | .str b => !b.isEmpty
  | .list xs => !xs.isEmpty
  | .dict fs => !fs.isEmpty
  | .mailbox _ _ => true

/-- decode elements until the stream is exhausted; a zero-width element would spin forever
(`Err.other` tagged `hang` in `NestedOut`) -/
def decodeAll (t : Ty) : Nat → Bytes → Except (Err ⊕ Unit) (List Val)
  | 0, _ => .error (.inr ())
  | fuel+1, bs =>
    if bs.isEmpty then .ok []
    else
      match decode 1 t bs with
      | .error e => .error (.inl e)
      | .ok (v, rest) =>
        if rest.length = bs.length then .error (.inr ())      -- no progress: the Python loop never ends
        else do
          let vs ← decodeAll t fuel rest
          pure (v :: vs)

/-- Python slice assignment `obj[i:j] = xs` -/
def sliceAssign (l : List Val) (i j : Nat) (xs : List Val) : List Val :=
  let lo := min i l.length
  let hi := max lo (min j l.length)
  l.take lo ++ xs ++ l.drop hi

structure NestedOut where
  val : Val                         -- the updated value at this level
  path : List String                -- path items from this level down
  notify : Option Val               -- container handed to the nested subscribers (none: no call)
  deriving Repr, Inhabited

inductive NErr where
  | err (e : Err)
  | hang
  deriving Repr, Inhabited

def natStr (n : Nat) : String := toString n

/-- the leaf operation on the container reached by the walk -/
def nestedLeaf (isSlice : Bool) (t : Ty) (v : Val) (r : BitReader) : Except NErr NestedOut :=
  match t, v with
  | .fixedDict fs _, .dict vs =>
    if isSlice then .error (.err .assertion)
    else
      match r.get (bitsRequired vs.length) with
      | .error e => .error (.err e)
      | .ok (i, r') =>
        match fs[i]? with
        | none => .error (.err .badIndex)
        | some (name, ft) =>
          match decode 1 ft r'.getRest with
          | .error e => .error (.err e)
          | .ok (nv, _) =>
            let vs' := dictSet vs name nv
            .ok ⟨.dict vs', [name], some (.dict vs')⟩
  | .array et _, .list xs =>
    let width := if isSlice then bitsRequired (xs.length + 1) else bitsRequired xs.length
    match r.get width with
    | .error e => .error (.err e)
    | .ok (i1, r1) =>
      if isSlice then
        match r1.get width with
        | .error e => .error (.err e)
        | .ok (i2, r2) =>
          let rest := r2.getRest
          let item := natStr i1 ++ ":" ++ natStr i2
          if rest.isEmpty then .ok ⟨.list (sliceAssign xs i1 i2 []), [item], none⟩
          else
            match decodeAll et (rest.length + 1) rest with
            | .error (.inl e) => .error (.err e)
            | .error (.inr _) => .error .hang
            | .ok new =>
              let xs' := sliceAssign xs i1 i2 new
              .ok ⟨.list xs', [item], some (.list xs')⟩
      else
        let rest := r1.getRest
        if rest.isEmpty then
          if i1 < xs.length then .ok ⟨.list (xs.set i1 .none), [natStr i1], none⟩
          else .error (.err .badIndex)
        else
          match decodeAll et (rest.length + 1) rest with
          | .error (.inl e) => .error (.err e)
          | .error (.inr _) => .error .hang
          | .ok new =>
            match new with
            | [] => .error (.err .badIndex)
            | nv :: _ =>
              if i1 < xs.length then
                let xs' := xs.set i1 nv
                .ok ⟨.list xs', [natStr i1], some (.list xs')⟩
              else .error (.err .badIndex)
  | _, _ => .error (.err .notImplemented)

/-- USER_TYPE values are the values of their inner type -/
def Ty.peel : Ty → Ty
  | .userType t => t.peel
  | t => t

/-- the walk below the entity level: `while bit_reader.get(1) and obj:` over typed values.
`fuel` = number of pending bits + 1 is always enough (every descent consumes a bit). -/
def nestedWalk (isSlice : Bool) : Nat → Ty → Val → BitReader → Except NErr NestedOut
  | 0, _, _, _ => .error (.err .other)
  | fuel+1, t, v, r =>
    match r.get 1 with
    | .error e => .error (.err e)
    | .ok (bit, r1) =>
      if bit = 1 && pyTruthy v then
        match t.peel, v with
        | .fixedDict fs _, .dict vs =>
          match r1.get (bitsRequired vs.length) with
          | .error e => .error (.err e)
          | .ok (i, r2) =>
            match fs[i]? with
            | none => .error (.err .badIndex)
            | some (name, ft) =>
              match dictGet? vs name with
              | none => .error (.err .badIndex)
              | some child => do
                let out ← nestedWalk isSlice fuel ft child r2
                pure ⟨.dict (dictSet vs name out.val), name :: out.path, out.notify⟩
        | .array et _, .list xs =>
          match r1.get (bitsRequired xs.length) with
          | .error e => .error (.err e)
          | .ok (i, r2) =>
            match xs[i]? with
            | none => .error (.err .badIndex)
            | some child => do
              let out ← nestedWalk isSlice fuel et child r2
              pure ⟨.list (xs.set i out.val), natStr i :: out.path, out.notify⟩
        | _, .int _ => .error (.err .type)
        | _, .f32 _ => .error (.err .type)
        | _, .f64 _ => .error (.err .type)
        | _, _ => .error (.err .notImplemented)
      else nestedLeaf isSlice t.peel v r1

/-- `NestedProperty.read_and_apply(entity)` -/
def applyNested (reg : Registry) (e : Entity) (isSlice : Bool) (payload : Bytes) :
    Except NErr (Entity × List LogEntry × Bool) :=
  let r := BitReader.ofBytes payload
  match r.get 1 with
  | .error er => .error (.err er)
  | .ok (bit, r1) =>
    if bit = 0 then .error (.err .notImplemented)      -- obj is the Entity itself
    else
      match r1.get (bitsRequired e.view.clientProps.length) with
      | .error er => .error (.err er)
      | .ok (i, r2) =>
        match e.view.clientProps[i]? with
        | none => .error (.err .badIndex)
        | some p =>
          match dictGet? e.client p.name with
          | none => .error (.err .badIndex)             -- KeyError: property never set
          | some v =>
            match nestedWalk isSlice (8 * payload.length + 2) p.ty v r2 with
            | .error er => .error er
            | .ok out =>
              let e' := { e with client := dictSet e.client p.name out.val }
              match out.notify with
              | none => .ok (e', [], false)
              | some obj =>
                let path := ".".intercalate (p.name :: out.path)
                let full := e.view.name ++ "_" ++ path
                -- every table entry whose key is a substring of the full hash, in table order
                let hits := reg.nested.filter (fun kv => (full.splitOn kv.1).length > 1)
                let rec runAll (hs : List (String × List Sub)) : List LogEntry × Bool :=
                  match hs with
                  | [] => ([], false)
                  | (k, subs) :: rest =>
                    let (l, raised) := runSubs subs (fun t => .nested k t e.id path obj)
                    if raised then (l, true)
                    else let (l2, r2) := runAll rest; (l ++ l2, r2)
                let (l, raised) := runAll hits
                .ok (e', l, raised)

/-! ### Pose -/

def Entity.withVol (e : Entity) (kvs : List (String × Val)) : Entity :=
  { e with volatile := kvs.foldl (fun acc kv => dictSet acc kv.1 kv.2) e.volatile }

def setPose (e : Entity) (p : Pose) : Entity :=
  e.withVol [("position", .vec p.pos), ("yaw", .f32 p.yaw), ("pitch", .f32 p.pitch), ("roll", .f32 p.roll)]

/-! ### `_process_packet` -/

structure Config where
  defs : Defs
  masks : Masks := {}
  dialect : Dialect
  reg : Registry := {}

@[reducible] def ok (w : World) : StepResult := ⟨w, none⟩
@[reducible] def fail (w : World) (e : Err) : StepResult := ⟨w, some e⟩

/-- fill the base (or internal client) bucket of the player entity from the packet's stream -/
def fillPlayer (ent : Entity) (value : Bytes) (base withProps : Bool) : Entity × Option Err :=
  if !withProps then (ent, none)
  else if base then
    let r := setInternal ent.view.baseProps ent.base value
    ({ ent with base := r.1 }, r.2)
  else
    let r := setInternal ent.view.clientPropsInternal ent.client value
    ({ ent with client := r.1 }, r.2)

def finishPlayer (w : World) (id : Int) (setPlayer : Bool) : World :=
  if setPlayer then { w with playerId := some id } else w

/-- player creation through one of the internal lists -/
def playerCreate (cfg : Config) (w : World) (id : Int) (value : Bytes) (base : Bool) (setPlayer : Bool)
    (withProps : Bool) : StepResult :=
  match w.get? id with
  | some ent =>
    let r := fillPlayer ent value base withProps
    match r.2 with
    | some e => fail (w.put r.1) e          -- a known entity was mutated in place before the failure
    | none => ok (finishPlayer (w.put r.1) id setPlayer)
  | none =>
    match cfg.defs.byName "Avatar" with
    | .error e => fail w e
    | .ok d =>
      let r := fillPlayer (Entity.new cfg.masks id d) value base withProps
      match r.2 with
      | some e => fail w e                  -- the new entity was never registered
      | none => ok (finishPlayer (w.put r.1) id setPlayer)

/-- the `(idx, value)*` loop of EntityCreate -/
def createLoop (reg : Registry) : Nat → Entity → Bytes → List LogEntry → Entity × Bytes × List LogEntry × Option Err
  | 0, e, bs, log => (e, bs, log, none)
  | n+1, e, bs, log =>
    match bs with
    | [] => (e, bs, log, some .short)
    | k :: rest =>
      let (e', rest', l, err) := setClientProperty reg e k.toNat rest
      match err with
      | some er => (e', rest', log ++ l, some er)
      | none => createLoop reg n e' rest' (log ++ l)

def stepEntityCreate (cfg : Config) (w : World) (id : Int) (ty : Int) (state : Bytes) : StepResult :=
  match cfg.defs.byIndex ty with
  | .error e => fail w e
  | .ok d =>
    match state with
    | [] => fail w .short
    | c :: rest =>
      let r := createLoop cfg.reg c.toNat (Entity.new cfg.masks id d) rest []
      let w1 := { w with log := w.log ++ r.2.2.1 }
      match r.2.2.2 with
      | some e => fail w1 e
      | none => if r.2.1.isEmpty then ok (w1.put r.1) else fail w1 .assertion

def stepEntityProperty (cfg : Config) (w : World) (id : Int) (idx : Nat) (data : Bytes) : StepResult :=
  match w.get? id with
  | none => fail w .unknownEntity
  | some e =>
    let r := setClientProperty cfg.reg e idx data
    let w0 := w.put r.1
    let w1 := { w0 with log := w.log ++ r.2.2.1 }
    match r.2.2.2 with
    | some er => fail w1 er
    | none => ok w1

/-- `Entity.call_client_method(exposed_index, payload)`: the callbacks invoked and the
exception, if any. Nobody subscribed: nothing is decoded, nothing happens. -/
def methodCall (reg : Registry) (e : Entity) (idx : Nat) (data : Bytes) : List LogEntry × Option Err :=
  match e.view.methods[idx]? with
  | none => ([], some .badIndex)
  | some m =>
    let key := e.view.name ++ "_" ++ m.name
    match (dictGet? reg.methods key).getD [] with
    | [] => ([], none)
    | subs =>
      match decodeArgs m.header (m.args.map (·.2)) data with
      | .error er => ([], some er)
      | .ok (vals, _) =>
        let named := (m.args.zip vals).filterMap fun ((n, _), v) => n.map (fun s => (s, v))
        let pos := (m.args.zip vals).filterMap fun ((n, _), v) => if n.isNone then some v else none
        -- keyword arguments form a dict: a repeated name keeps the last value
        let kwargs := named.foldl (fun acc kv => dictSet acc kv.1 kv.2) []
        let r := runSubs subs (fun t => .method key t e.id pos kwargs)
        (r.1, if r.2 then some .type else none)

def stepEntityMethod (cfg : Config) (w : World) (id : Int) (idx : Nat) (data : Bytes) : StepResult :=
  match w.get? id with
  | none => fail w .unknownEntity
  | some e =>
    let r := methodCall cfg.reg e idx data
    ⟨{ w with log := w.log ++ r.1 }, r.2⟩

def stepNested (cfg : Config) (w : World) (id : Int) (isSlice : Bool) (payload : Bytes) : StepResult :=
  match w.get? id with
  | none => fail w .unknownEntity
  | some e =>
    match applyNested cfg.reg e isSlice payload with
    | .error (.err er) => fail w er
    | .error .hang => fail w .other
    | .ok (e', l, raised) =>
      let w0 := w.put e'
      let w1 := { w0 with log := w.log ++ l }
      if raised then fail w1 .type else ok w1

def stepPosition (w : World) (id : Int) (pose : Pose) : StepResult :=
  match w.get? id with
  | none => fail w .unknownEntity
  | some e => ok (w.put (setPose e pose))

/-- copy the pose of `master` to `slave` through the property getters: a volatile the
master's type does not declare is a RuntimeError, after the earlier ones were copied -/
def copyPose (master slave : Entity) : Entity × Option Err :=
  match dictGet? master.volatile "position", dictGet? master.volatile "yaw",
        dictGet? master.volatile "pitch", dictGet? master.volatile "roll" with
  | some p, some y, some pt, some r =>
    (slave.withVol [("position", p), ("yaw", y), ("pitch", pt), ("roll", r)], none)
  | some p, some y, some pt, none => (slave.withVol [("position", p), ("yaw", y), ("pitch", pt)], some .other)
  | some p, some y, none, _ => (slave.withVol [("position", p), ("yaw", y)], some .other)
  | some p, none, _, _ => (slave.withVol [("position", p)], some .other)
  | none, _, _, _ => (slave, some .other)

def stepPlayerPosition (w : World) (id1 id2 : Int) (pose : Pose) : StepResult :=
  if id2 != 0 then
    match w.get? id2, w.get? id1 with
    | some master, some slave =>
      let r := copyPose master slave
      match r.2 with
      | none => ok (w.put r.1)
      | some e => fail (w.put r.1) e
    | _, _ => ok w                                   -- KeyError swallowed
  else if id1 != 0 then
    match w.get? id1 with
    | some e => ok (w.put (setPose e pose))
    | none => ok w                                   -- KeyError swallowed
  else ok w

def stepLookup (w : World) (id : Int) : StepResult :=
  match w.get? id with | some _ => ok w | none => fail w .unknownEntity

def step (cfg : Config) (w : World) (p : Packet) : StepResult :=
  match cfg.dialect.game, p with
  | .wowp, .basePlayerCreate id _ value => playerCreate cfg w id value true true true
  | .wowp, _ => ok w
  | .wot, .basePlayerCreate id _ value => playerCreate cfg w id value true true false
  | _, .basePlayerCreate id _ value => playerCreate cfg w id value true true true
  | _, .cellPlayerCreate id value => playerCreate cfg w id value false false true
  | _, .map arena name => ok { w with map := some name, arenaId := some arena }
  | _, .version _ => ok w
  | _, .entityControl _ _ => ok w
  | _, .battleStats _ => ok w
  | _, .entityEnter id => stepLookup w id
  | _, .entityLeave id => stepLookup w id
  | _, .entityCreate id ty state => stepEntityCreate cfg w id ty state
  | _, .entityProperty id idx data => stepEntityProperty cfg w id idx data
  | _, .entityMethod id idx data => stepEntityMethod cfg w id idx data
  | _, .nested id isSlice payload => stepNested cfg w id isSlice payload
  | _, .position id pose => stepPosition w id pose
  | .wot, .playerPosition _ _ _ => ok w
  | _, .playerPosition id1 id2 pose => stepPlayerPosition w id1 id2 pose

/-- deserialise + process one framed packet, as the body of the `try` in `PlayerBase.play` -/
def stepNet (jsonOk : Bytes → Bool) (cfg : Config) (w : World) (np : NetPacket) : StepResult :=
  match cfg.dialect.kindOf np.type with
  | none => ok w                                        -- unmapped type: `None` packet, no branch matches
  | some k =>
    match deserialize jsonOk k np.payload with
    | .error e => fail w e
    | .ok p => step cfg w p

end ReplayModel
