/-
L9 — `PlayerBase.play`: fold of `stepNet` over the framed packets with the `try/except`
(strict: re-raise; lenient: continue), and the outcome seen by `ReplayParser.get_info`.
-/
import ReplayModel.World
namespace ReplayModel

inductive PlayEnd where
  | finished
  | raised (index : Nat) (e : Err)     -- strict mode: the exception of packet `index`
  | headerShort                        -- `struct.error` from a truncated 12-byte header
  deriving Repr, DecidableEq, Inhabited

structure PlayResult where
  world : World
  ending : PlayEnd
  failed : List (Nat × Err) := []      -- packets whose handling raised (lenient: all of them)
  deriving Repr, Inhabited

/-- the loop over already framed packets -/
def playPackets (jsonOk : Bytes → Bool) (cfg : Config) (strict : Bool) :
    World → Nat → List NetPacket → List (Nat × Err) → World × Option (Nat × Err) × List (Nat × Err)
  | w, _, [], failed => (w, none, failed)
  | w, i, np :: rest, failed =>
    let r := stepNet jsonOk cfg w np
    match r.err with
    | none => playPackets jsonOk cfg strict r.world (i + 1) rest failed
    | some e =>
      if strict then (r.world, some (i, e), failed ++ [(i, e)])
      else playPackets jsonOk cfg strict r.world (i + 1) rest (failed ++ [(i, e)])

def endingOf : Option (Nat × Err) → FrameEnd → PlayEnd
  | some (i, e), _ => .raised i e
  | none, .exhausted => .finished
  | none, .headerShort => .headerShort

def play (jsonOk : Bytes → Bool) (cfg : Config) (strict : Bool) (w : World) (stream : Bytes) : PlayResult :=
  let pf := parsePackets stream
  let r := playPackets jsonOk cfg strict w 0 pf.1 []
  { world := r.1, ending := endingOf r.2.1 pf.2, failed := r.2.2 }

end ReplayModel
