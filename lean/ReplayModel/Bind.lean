/-
Python's binding of a call `func(entity, *args, **kwargs)` against a signature
(`core/entity.py:Entity.call_client_method` calling a controller callback).
-/
namespace ReplayModel

inductive ParamKind where
  | pos | pk | var | kw | varkw
  deriving Repr, DecidableEq

structure Param where
  name : String
  kind : ParamKind
  hasDefault : Bool := false
  deriving Repr, DecidableEq

def Param.positional (p : Param) : Bool := p.kind == .pos || p.kind == .pk
def Param.byKeyword (p : Param) : Bool := p.kind == .pk || p.kind == .kw

def filledNames (ps : List Param) (npos : Nat) : List String :=
  ((ps.filter Param.positional).take npos).map (·.name)

/-- not too many positional values (unless `*args`) -/
def bindPos (ps : List Param) (npos : Nat) : Bool :=
  decide (npos ≤ (ps.filter Param.positional).length) || ps.any (·.kind == .var)

/-- every keyword names a parameter that takes keywords and is still free, or goes to `**kwargs` -/
def bindKw (ps : List Param) (npos : Nat) (ks : List String) : Bool :=
  ks.all (fun k =>
    match ps.find? (fun p => p.name == k && p.byKeyword) with
    | some _ => !(filledNames ps npos).contains k
    | none => ps.any (·.kind == .varkw))

/-- nothing required is left unbound -/
def bindReq (ps : List Param) (npos : Nat) (ks : List String) : Bool :=
  ps.all (fun p =>
    p.kind == .var || p.kind == .varkw || p.hasDefault || (filledNames ps npos).contains p.name ||
      (p.byKeyword && ks.contains p.name))

/-- `inspect.Signature.bind(*npos positional values, **{k: ... for k in ks})` succeeds.
`ks` are the keys of a dict, hence pairwise different. -/
def bind (ps : List Param) (npos : Nat) (ks : List String) : Bool :=
  bindPos ps npos && bindKw ps npos ks && bindReq ps npos ks

end ReplayModel
