/-
L0 — bytes, little-endian integers, `BytesIO.read(n)` semantics, packed lengths.
Model of the primitives used throughout `replay_unpack` (struct.unpack on
`stream.read(n)`).  No imports outside core Lean.
-/
namespace ReplayModel

abbrev Bytes := List UInt8

/-- Error classes (a small enum the Python exceptions are mapped to). -/
inductive Err where
  | short          -- struct.error / short read that the code turns into an exception
  | badIndex       -- IndexError / KeyError on a definition index
  | unknownEntity  -- KeyError on the entity table
  | assertion      -- AssertionError
  | notImplemented -- NotImplementedError
  | type           -- TypeError
  | value          -- ValueError
  | unicode        -- UnicodeDecodeError
  | other
  deriving Repr, DecidableEq, Inhabited

def Err.name : Err → String
  | .short => "short" | .badIndex => "badIndex" | .unknownEntity => "unknownEntity"
  | .assertion => "assertion" | .notImplemented => "notImplemented" | .type => "type"
  | .value => "value" | .unicode => "unicode" | .other => "other"

abbrev R (α : Type) := Except Err α

/-- Result of a reader: value and the remaining bytes. -/
abbrev Rd (α : Type) := Except Err (α × Bytes)

/-- little-endian natural number of a byte list -/
def leNat : Bytes → Nat
  | [] => 0
  | b :: bs => b.toNat + 256 * leNat bs

/-- `k` little-endian bytes of `n` (i.e. of `n mod 256^k`) -/
def toLE : Nat → Nat → Bytes
  | 0, _ => []
  | k+1, n => UInt8.ofNat (n % 256) :: toLE k (n / 256)

/-- big-endian natural number -/
def beNat (bs : Bytes) : Nat := leNat bs.reverse

def toBE (k n : Nat) : Bytes := (toLE k n).reverse

/-- two's complement interpretation of an unsigned `k`-byte value -/
def toSigned (k : Nat) (n : Nat) : Int :=
  if n < 2 ^ (8 * k - 1) then (n : Int) else (n : Int) - (2 ^ (8 * k) : Nat)

/-- unsigned representative of a signed value -/
def ofSigned (k : Nat) (i : Int) : Nat :=
  (i % ((2 ^ (8 * k) : Nat) : Int)).toNat

/-- `struct.unpack(fmt, stream.read(n))` for an `n`-byte format: fails on a short read -/
def readN (n : Nat) (bs : Bytes) : Except Err (Bytes × Bytes) :=
  if bs.length < n then .error .short else .ok (bs.take n, bs.drop n)

/-- `stream.read(n)` alone: short reads are allowed -/
def readUpTo (n : Nat) (bs : Bytes) : Bytes × Bytes := (bs.take n, bs.drop n)

def readUIntLE (k : Nat) (bs : Bytes) : Except Err (Nat × Bytes) := do
  let (b, rest) ← readN k bs
  pure (leNat b, rest)

def readIntLE (k : Nat) (bs : Bytes) : Except Err (Int × Bytes) := do
  let (b, rest) ← readN k bs
  pure (toSigned k (leNat b), rest)

/-- Packed length as the fixed code reads it (`Blob._get_size_from_stream`):
one byte, or `0xFF` followed by three little-endian bytes. -/
def readPackedLen (bs : Bytes) : Except Err (Nat × Bytes) := do
  let (n, rest) ← readUIntLE 1 bs
  if n = 255 then readUIntLE 3 rest else pure (n, rest)

/-- The BigWorld packed length (specification writer). -/
def writePackedLen (n : Nat) : Bytes :=
  if n < 255 then [UInt8.ofNat n] else 255 :: toLE 3 n

end ReplayModel
