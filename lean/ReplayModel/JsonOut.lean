/-
L13 — can a result be serialised by `json.dumps(..., cls=DefaultEncoder)`?
Python values as an inductive term (no cycles by construction); the encoder's `default`
turns objects into their `__dict__` and everything else into `str(o)`, so the only way to
fail is a dict key that is not str / int / float / bool / None.
-/
namespace ReplayModel

inductive PyTerm where
  | none
  | bool (b : Bool)
  | int (i : Int)
  | float (repr : String)
  | str (s : String)
  | bytes (hex : String)
  | list (xs : List PyTerm)
  | tuple (xs : List PyTerm)
  | dict (kvs : List (PyTerm × PyTerm))
  | obj (cls : String) (fields : List (String × PyTerm))     -- serialised through `__dict__`
  | other (repr : String)                                    -- serialised through `str(o)`
  deriving Repr, Inhabited

/-- keys `json.dumps` accepts -/
def PyTerm.keyOK : PyTerm → Bool
  | .none | .bool _ | .int _ | .float _ | .str _ => true
  | _ => false

mutual
/-- `json.dumps(t, cls=DefaultEncoder)` does not raise -/
def encodable : PyTerm → Bool
  | .list xs => encodableList xs
  | .tuple xs => encodableList xs
  | .dict kvs => encodableKVs kvs
  | .obj _ fs => encodableFields fs
  | _ => true
def encodableList : List PyTerm → Bool
  | [] => true
  | x :: xs => encodable x && encodableList xs
def encodableKVs : List (PyTerm × PyTerm) → Bool
  | [] => true
  | (k, v) :: rest => k.keyOK && encodable v && encodableKVs rest
def encodableFields : List (String × PyTerm) → Bool
  | [] => true
  | (_, v) :: rest => encodable v && encodableFields rest
end

mutual
/-- every dict key anywhere inside the term is of an accepted kind -/
def keysOK : PyTerm → Bool
  | .list xs => keysOKList xs
  | .tuple xs => keysOKList xs
  | .dict kvs => keysOKKVs kvs
  | .obj _ fs => keysOKFields fs
  | _ => true
def keysOKList : List PyTerm → Bool
  | [] => true
  | x :: xs => keysOK x && keysOKList xs
def keysOKKVs : List (PyTerm × PyTerm) → Bool
  | [] => true
  | (k, v) :: rest => k.keyOK && keysOK v && keysOKKVs rest
def keysOKFields : List (String × PyTerm) → Bool
  | [] => true
  | (_, v) :: rest => keysOK v && keysOKFields rest
end

end ReplayModel
