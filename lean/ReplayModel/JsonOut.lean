/-
L13 — can a result be serialised by `json.dumps(..., cls=DefaultEncoder)`?
Python values as an inductive term (no cycles by construction); the encoder's `default`
turns objects into their `__dict__` and everything else into `str(o)`, so the only way to
fail is a dict key that is not str / int / float / bool / None.
-/
namespace ReplayModel

inductive PyTerm where
  | none
  | bool (b : Bool)
  | int (i : Int)
  | float (repr : String)
  | str (s : String)
  | bytes (hex : String)
  | list (xs : List PyTerm)
  | tuple (xs : List PyTerm)
  | dict (kvs : List (PyTerm × PyTerm))
  | obj (cls : String) (fields : List (String × PyTerm))     -- serialised through `__dict__`
  | other (repr : String)                                    -- serialised through `str(o)`
  deriving Repr, Inhabited

/-- keys `json.dumps` accepts -/
def PyTerm.keyOK : PyTerm → Bool
  | .none | .bool _ | .int _ | .float _ | .str _ => true
  | _ => false

mutual
/-- `json.dumps(t, cls=DefaultEncoder)` does not raise -/
def encodable : PyTerm → Bool
  | .list xs => encodableList xs
  | .tuple xs => encodableList xs
  | .dict kvs => encodableKVs kvs
  | .obj _ fs => encodableFields fs
  | _ => true
def encodableList : List PyTerm → Bool
  | [] => true
  | x :: xs => encodable x && encodableList xs
def encodableKVs : List (PyTerm × PyTerm) → Bool
  | [] => true
  | (k, v) :: rest => k.keyOK && encodable v && encodableKVs rest
def encodableFields : List (String × PyTerm) → Bool
  | [] => true
  | (_, v) :: rest => encodable v && encodableFields rest
end

mutual
/-- every dict key anywhere inside the term is of an accepted kind -/
def keysOK : PyTerm → Bool
  | .list xs => keysOKList xs
  | .tuple xs => keysOKList xs
  | .dict kvs => keysOKKVs kvs
  | .obj _ fs => keysOKFields fs
  | _ => true
def keysOKList : List PyTerm → Bool
  | [] => true
  | x :: xs => keysOK x && keysOKList xs
def keysOKKVs : List (PyTerm × PyTerm) → Bool
  | [] => true
  | (k, v) :: rest => k.keyOK && keysOK v && keysOKKVs rest
def keysOKFields : List (String × PyTerm) → Bool
  | [] => true
  | (_, v) :: rest => keysOK v && keysOKFields rest
end

end ReplayModel

namespace ReplayModel

/-! ### the document `json.dumps` writes, as tokens -/

inductive JTok where
  | lbrace | rbrace | lbrack | rbrack | comma | colon
  | str (s : String)        -- a string literal (escaping is the encoder's business)
  | atom (s : String)       -- number / true / false / null / NaN / Infinity
  deriving Repr, DecidableEq, Inhabited

/-- how a dict key is written: always as a string literal -/
def keyText : PyTerm → String
  | .none => "null"
  | .bool b => if b then "true" else "false"
  | .int i => toString i
  | .float r => r
  | .str s => s
  | _ => ""

mutual
/-- the tokens of `json.dumps(t, cls=DefaultEncoder)` for a term the encoder accepts: objects
through `__dict__`, bytes and anything else through `str(o)`, tuples as arrays -/
def toks : PyTerm → List JTok
  | .none => [.atom "null"]
  | .bool b => [.atom (if b then "true" else "false")]
  | .int i => [.atom (toString i)]
  | .float r => [.atom r]
  | .str s => [.str s]
  | .bytes h => [.str h]
  | .other r => [.str r]
  | .list xs => .lbrack :: (toksList xs ++ [.rbrack])
  | .tuple xs => .lbrack :: (toksList xs ++ [.rbrack])
  | .dict kvs => .lbrace :: (toksKVs kvs ++ [.rbrace])
  | .obj _ fs => .lbrace :: (toksFields fs ++ [.rbrace])
def toksList : List PyTerm → List JTok
  | [] => []
  | x :: xs => (toks x ++ (match xs with | [] => [] | _ :: _ => [.comma])) ++ toksList xs
def toksKVs : List (PyTerm × PyTerm) → List JTok
  | [] => []
  | (k, v) :: rest => (.str (keyText k) :: .colon :: toks v ++ (match rest with | [] => [] | _ :: _ => [.comma])) ++ toksKVs rest
def toksFields : List (String × PyTerm) → List JTok
  | [] => []
  | (n, v) :: rest => (.str n :: .colon :: toks v ++ (match rest with | [] => [] | _ :: _ => [.comma])) ++ toksFields rest
end

mutual
/-- the JSON grammar on tokens: exactly one value -/
inductive JValue : List JTok → Prop where
  | atom (s : String) : JValue [.atom s]
  | str (s : String) : JValue [.str s]
  | arr (es : List JTok) : JElems es → JValue (.lbrack :: (es ++ [.rbrack]))
  | obj (ms : List JTok) : JMembers ms → JValue (.lbrace :: (ms ++ [.rbrace]))
/-- zero or more values separated by commas -/
inductive JElems : List JTok → Prop where
  | nil : JElems []
  | one (v : List JTok) : JValue v → JElems v
  | cons (v es : List JTok) : JValue v → JElems es → es ≠ [] → JElems (v ++ .comma :: es)
/-- zero or more `"key": value` members separated by commas -/
inductive JMembers : List JTok → Prop where
  | nil : JMembers []
  | one (k : String) (v : List JTok) : JValue v → JMembers (.str k :: .colon :: v)
  | cons (k : String) (v ms : List JTok) : JValue v → JMembers ms → ms ≠ [] → JMembers (.str k :: .colon :: (v ++ .comma :: ms))
end

end ReplayModel
