/-
L10 — the replay container (`replay_reader.py`): magic, block count, length-prefixed
blocks, game by extension, then the encrypted + compressed packet stream:
8-byte prefix skipped, every later 8-byte chunk ECB-decrypted and XORed with the previous
plaintext (when that is non-zero), then inflated.
External code is a parameter: the block permutation `D` (Blowfish under the game key),
`inflate` (zlib); JSON blocks stay raw bytes.
-/
import ReplayModel.Bytes
namespace ReplayModel

def magic : Bytes := [0x12, 0x32, 0x34, 0x11]

inductive GameId where | wows | wot | wowp
  deriving Repr, DecidableEq

/-- extension whitelist of `ReplayReader.__init__` / game selection in `get_replay_data` -/
def gameOfExt (ext : String) : Option GameId :=
  if ext == "wowsreplay" then some .wows
  else if ext == "wotreplay" then some .wot
  else if ext == "wowpreplay" then some .wowp
  else none

def xor8 (a b : Bytes) : Bytes := List.zipWith (· ^^^ ·) a b

def isZero (b : Bytes) : Bool := b.all (· == 0)

/-- split into 8-byte chunks (the last may be shorter) -/
def chunks8 : Nat → Bytes → List Bytes
  | 0, _ => []
  | fuel+1, bs => if bs.isEmpty then [] else bs.take 8 :: chunks8 fuel (bs.drop 8)

/-- the XOR chain over already ECB-decrypted blocks `xs`: plaintext = x ⊕ previous plaintext,
the XOR being skipped when the previous plaintext is all zero (`if previous_block:`) -/
def unchain : Option Bytes → List Bytes → List Bytes
  | _, [] => []
  | prev, x :: xs =>
    let p := match prev with
      | some q => if isZero q then x else xor8 x q
      | none => x
    p :: unchain (some p) xs

/-- `__decrypt_data`: chunk 0 skipped; a trailing partial chunk makes the cipher raise -/
def decryptData (D : Bytes → Bytes) (data : Bytes) : R Bytes :=
  let cs := (chunks8 (data.length + 1) data).drop 1
  if cs.all (·.length == 8) then .ok (unchain none (cs.map D)).flatten
  else .error .value

structure ReplayInfo where
  game : GameId
  engine : Bytes                 -- first block (JSON text, parsed by the caller)
  extra : List (Option Bytes)    -- further blocks; an empty block is `None`
  stream : Bytes                 -- decrypted, decompressed packet stream
  deriving Repr

/-- `f.read(n)` for a signed `n` -/
def readSigned32 (n : Int) (bs : Bytes) : Bytes × Bytes :=
  if n < 0 then (bs, []) else (bs.take n.toNat, bs.drop n.toNat)

/-- the `range(blocks_count - 1)` loop -/
def readBlocks : Nat → Bytes → R (List (Option Bytes) × Bytes)
  | 0, bs => .ok ([], bs)
  | n+1, bs => do
    let (sz, r) ← readIntLE 4 bs
    let (blk, r) := readSigned32 sz r
    let (rest, r') ← readBlocks n r
    pure ((if blk.isEmpty then none else some blk) :: rest, r')

/-- `ReplayReader(path).get_replay_data()` on the file content -/
def readContainer (D : Bytes → Bytes) (inflate : Bytes → Option Bytes) (ext : String) (file : Bytes) :
    R ReplayInfo :=
  match gameOfExt ext with
  | none => .error .value                       -- ValueError in the constructor: nothing is read
  | some game =>
    if file.take 4 != magic then .error .value  -- ValueError: nothing after the magic is read
    else do
      let (count, r) ← readIntLE 4 (file.drop 4)
      let (sz, r) ← readIntLE 4 r
      let (engine, r) := readSigned32 sz r
      let (extra, r) ← readBlocks (count - 1).toNat r
      let plain ← decryptData D r
      match inflate plain with
      | some s => pure ⟨game, engine, extra, s⟩
      | none => .error .other

/-! ### the writer (specification) -/

/-- chain-encrypt plaintext blocks: c = E(p ⊕ previous plaintext) (no XOR for the first) -/
def chain (E : Bytes → Bytes) : Option Bytes → List Bytes → List Bytes
  | _, [] => []
  | prev, p :: ps =>
    let x := match prev with
      | some q => xor8 p q
      | none => p
    E x :: chain E (some p) ps

def encodeBlock (b : Option Bytes) : Bytes :=
  match b with
  | some d => toLE 4 d.length ++ d
  | none => toLE 4 0

/-- a well-formed file: magic, count, blocks, 8-byte prefix, chained blocks -/
def writeContainer (E : Bytes → Bytes) (engine : Bytes) (extra : List (Option Bytes)) (pre : Bytes)
    (blocks : List Bytes) : Bytes :=
  magic ++ toLE 4 (1 + extra.length) ++ (toLE 4 engine.length ++ engine) ++
    (extra.map encodeBlock).flatten ++ pre ++ (chain E none blocks).flatten

end ReplayModel
