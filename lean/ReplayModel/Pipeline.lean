/-
L12 — the top of the pipeline: `replay_parser.py:ReplayParser.get_info`.

  read the container (outside the `try`: its exceptions escape in both modes)
  → version string of the game's field in the first block (json: external, a parameter)
  → normalise, resolve controller / definitions / packet table (`Version.lean`)
  → `player.play(stream, strict)` on an empty world with the controller's subscriptions
  → result dict `{open, extra_data, hidden, error}`; any exception below the reader is caught,
    `error` is its text iff it is a `RuntimeError`, and it is re-raised iff strict.

External, as parameters of `Env`: the block cipher and zlib (as in `Container.lean`), json
(`jsonOk`, `versionOf`), what is bundled, and the two loaders (definitions directory → `Defs`,
controller module → the registry its `__init__` leaves).
-/
import ReplayModel.Container
import ReplayModel.Version
import ReplayModel.Play
namespace ReplayModel

structure Env where
  D : Bytes → Bytes
  inflate : Bytes → Option Bytes
  jsonOk : Bytes → Bool
  /-- `engine_data.get(<the game's version field>)`; `none`: field absent (`None.replace` → AttributeError) -/
  versionOf : GameId → Bytes → Option String
  bundled : GameId → Bundled
  defsOf : GameId → String → Defs
  regOf : GameId → String → Registry
  masks : Masks := {}

/-- the three branches of `_get_hidden_data` -/
def selectVersion (b : GameId → Bundled) (g : GameId) (s : String) : Except Refusal Selection :=
  match g with
  | .wows => selectWows (b .wows) (normWows s)
  | .wowp => selectWowp (b .wowp) (normWowp s)
  | .wot => selectWot (b .wot) (normWot s)

/-- `_get_packets_mapping`: only wows switches tables -/
def dialectOf (g : GameId) (sel : Selection) : Dialect :=
  match g with
  | .wows => if sel.newTable then wowsNew else wowsOld
  | .wot => wotDialect
  | .wowp => wowpDialect

/-- `str(e)` for the refusals that are `RuntimeError`s; the other exception classes leave `error = None` -/
def Refusal.message : Refusal → Option String
  | .notSupportedController v => some ("version " ++ v ++ " is not supported currently")
  | .notSupportedDefs => some "Not supported version"
  | _ => none

inductive GetInfo where
  | raises                                    -- an exception leaves `get_info`
  | returns (info : ReplayInfo) (hidden : Option PlayResult) (error : Option String)

def configOf (env : Env) (g : GameId) (sel : Selection) : Config :=
  { defs := env.defsOf g sel.defs, masks := env.masks, dialect := dialectOf g sel, reg := env.regOf g sel.controller }

/-- `ReplayParser(path, strict).get_info()` -/
def getInfo (env : Env) (strict : Bool) (ext : String) (file : Bytes) : GetInfo :=
  match readContainer env.D env.inflate ext file with
  | .error _ => .raises
  | .ok info =>
    let caught (error : Option String) : GetInfo := if strict then .raises else .returns info none error
    match env.versionOf info.game info.engine with
    | none => caught none
    | some vs =>
      match selectVersion env.bundled info.game vs with
      | .error r => caught r.message
      | .ok sel =>
        let r := play env.jsonOk (configOf env info.game sel) strict {} info.stream
        match r.ending with
        | .finished => .returns info (some r) none
        | .headerShort => caught none             -- struct.error escapes `play` in both modes
        | .raised _ _ => caught none              -- strict only (C12.lenient_no_raise)

end ReplayModel

namespace ReplayModel

/-- `--raw_data_output` / `ReplayParser(raw_data_output=...)`: the file is written inside
`_get_hidden_data`, after the player for the resolved version has been built and *before* the
stream is played — so it does not depend on the mode or on how playing ends. `none`: no file. -/
def rawDump (env : Env) (ext : String) (file : Bytes) : Option Bytes :=
  match readContainer env.D env.inflate ext file with
  | .error _ => none
  | .ok info =>
    match env.versionOf info.game info.engine with
    | none => none
    | some vs =>
      match selectVersion env.bundled info.game vs with
      | .error _ => none
      | .ok _ => some info.stream

end ReplayModel
