/-
L2 — `.def`-driven type codecs (`core/entity_def/data_types/*.py`).

`decode`      mirrors `_get_value_from_stream` (threaded `header_size`).
`encodeWire`  is the BigWorld wire encoding, used as *specification*.
`writeImpl`   mirrors the library's own writer `_add_value_to_stream`.
-/
import ReplayModel.Bytes
namespace ReplayModel

/-- Types expressible in the alias/.def language. -/
inductive Ty where
  | int (size : Nat) (signed : Bool)     -- INT8..UINT64; size in bytes
  | f32 | f64
  | vec (n : Nat)                         -- VECTOR2/3/4: n float32
  | blob | string | python | mailbox
  | array (elem : Ty) (size : Option Nat) -- ARRAY / TUPLE, optional fixed <size>
  | fixedDict (fields : List (String × Ty)) (allowNone : Bool)
  | userType (inner : Ty)
  deriving Repr, Inhabited

/-- Decoded values. Floats are bit patterns; strings are their UTF-8 bytes. -/
inductive Val where
  | int (i : Int)
  | f32 (bits : Nat) | f64 (bits : Nat)
  | vec (xs : List Nat)
  | bytes (b : Bytes)
  | str (b : Bytes)
  | none
  | list (xs : List Val)
  | dict (fs : List (String × Val))
  | mailbox (ip : Bytes) (port : Nat)
  deriving Repr, Inhabited

def INFINITY : Nat := 0xFFFF

/-! ### UTF-8 validation (CPython's strict decoder: no overlongs, no surrogates, ≤ U+10FFFF) -/

def isCont (b : UInt8) : Bool := 0x80 ≤ b.toNat && b.toNat ≤ 0xBF

def utf8Valid : Bytes → Bool
  | [] => true
  | b0 :: rest =>
    let n := b0.toNat
    if n < 0x80 then utf8Valid rest
    else if 0xC2 ≤ n && n ≤ 0xDF then
      match rest with
      | b1 :: r => isCont b1 && utf8Valid r
      | _ => false
    else if 0xE0 ≤ n && n ≤ 0xEF then
      match rest with
      | b1 :: b2 :: r =>
        let lo := if n = 0xE0 then 0xA0 else 0x80
        let hi := if n = 0xED then 0x9F else 0xBF
        (lo ≤ b1.toNat && b1.toNat ≤ hi) && isCont b2 && utf8Valid r
      | _ => false
    else if 0xF0 ≤ n && n ≤ 0xF4 then
      match rest with
      | b1 :: b2 :: b3 :: r =>
        let lo := if n = 0xF0 then 0x90 else 0x80
        let hi := if n = 0xF4 then 0x8F else 0xBF
        (lo ≤ b1.toNat && b1.toNat ≤ hi) && isCont b2 && isCont b3 && utf8Valid r
      | _ => false
    else false

/-- `_str.decode('utf-8')` with the `except UnicodeDecodeError: return _str` fallback -/
def strOrBytes (b : Bytes) : Val := if utf8Valid b then .str b else .bytes b

/-! ### Sizes (`get_size_in_bytes`) -/

mutual
def Ty.sizeInBytes : Ty → Nat
  | .int k _ => k
  | .f32 => 4 | .f64 => 8
  | .vec n => 4 * n
  | .blob | .string | .python | .mailbox => INFINITY
  | .array e (some n) => e.sizeInBytes * n
  | .array _ none => INFINITY
  | .fixedDict fs an => if an then INFINITY else Ty.fieldsSize fs
  | .userType _ => INFINITY
def Ty.fieldsSize : List (String × Ty) → Nat
  | [] => 0
  | (_, t) :: fs => t.sizeInBytes + Ty.fieldsSize fs
end

def Ty.isBlob : Ty → Bool
  | .blob => true
  | _ => false

/-! ### The reader -/

/-- `n` float32 bit patterns -/
def readF32s : Nat → Bytes → Except Err ((List Nat) × Bytes)
  | 0, bs => .ok ([], bs)
  | n+1, bs => do
    let (x, r) ← readUIntLE 4 bs
    let (xs, r') ← readF32s n r
    pure (x :: xs, r')

/-- run a reader `n` times -/
def repeatRd (f : Bytes → Except Err (Val × Bytes)) : Nat → Bytes → Except Err ((List Val) × Bytes)
  | 0, bs => .ok ([], bs)
  | n+1, bs => do
    let (v, r) ← f bs
    let (vs, r') ← repeatRd f n r
    pure (v :: vs, r')

mutual
/-- `DataType.create_from_stream(stream, header_size)` -/
def decode (h : Nat) : Ty → Bytes → Except Err (Val × Bytes)
  | .int k s, bs => do
    let (n, r) ← readUIntLE k bs
    pure (.int (if s then toSigned k n else n), r)
  | .f32, bs => do let (n, r) ← readUIntLE 4 bs; pure (.f32 n, r)
  | .f64, bs => do let (n, r) ← readUIntLE 8 bs; pure (.f64 n, r)
  | .vec n, bs => do
    -- one struct.unpack over `read(4n)`
    if bs.length < 4 * n then .error .short
    else do let (xs, r) ← readF32s n bs; pure (.vec xs, r)
  | .blob, bs => do
    let (n, r) ← readPackedLen bs
    if r.length < n then .error .assertion else pure (.bytes (r.take n), r.drop n)
  | .string, bs => do
    let (n, r) ← readPackedLen bs
    pure (strOrBytes (r.take n), r.drop n)          -- short read tolerated
  | .python, bs => do
    let (n, r) ← readPackedLen bs
    pure (.bytes (r.take n), r.drop n)              -- short read tolerated
  | .mailbox, bs =>
    if bs.length < 4 then .error .other              -- inet_ntoa: OSError
    else do
      let (p, r) ← readN 2 (bs.drop 4)
      pure (.mailbox (bs.take 4) (beNat p), r)
  | .array e (some n), bs => do
    let (vs, r) ← repeatRd (decode h e) n bs
    pure (.list vs, r)
  | .array e none, bs => do
    let (n, r) ← readUIntLE 1 bs
    let (vs, r') ← repeatRd (decode h e) n r
    pure (.list vs, r')
  | .fixedDict fs an, bs =>
    if an then
      match bs with
      | 0 :: r => .ok (.none, r)
      | 1 :: r => do let (vs, r') ← decodeFields h fs r; pure (.dict vs, r')
      | _ => do let (vs, r') ← decodeFields h fs bs; pure (.dict vs, r')  -- seek back
    else do let (vs, r') ← decodeFields h fs bs; pure (.dict vs, r')
  | .userType t, bs =>
    -- the header is skipped unless the inner type is a Blob
    decode h t (if t.isBlob then bs else bs.drop h)
def decodeFields (h : Nat) : List (String × Ty) → Bytes → Except Err ((List (String × Val)) × Bytes)
  | [], bs => .ok ([], bs)
  | (k, t) :: fs, bs => do
    let (v, r) ← decode h t bs
    let (vs, r') ← decodeFields h fs r
    pure ((k, v) :: vs, r')
end

/-! ### The wire encoding (specification) -/

mutual
def encodeWire (h : Nat) : Ty → Val → Bytes
  | .int k _, .int i => toLE k (ofSigned k i)
  | .f32, .f32 b => toLE 4 b
  | .f64, .f64 b => toLE 8 b
  | .vec _, .vec xs => xs.flatMap (toLE 4)
  | .blob, .bytes b => writePackedLen b.length ++ b
  | .string, .str b => writePackedLen b.length ++ b
  | .string, .bytes b => writePackedLen b.length ++ b
  | .python, .bytes b => writePackedLen b.length ++ b
  | .mailbox, .mailbox ip p => ip ++ toBE 2 p
  | .array e (some _), .list vs => vs.flatMap (encodeWire h e)
  | .array e none, .list vs => UInt8.ofNat vs.length :: vs.flatMap (encodeWire h e)
  | .fixedDict _ true, .none => [0]
  | .fixedDict fs an, .dict vs => (if an then [1] else []) ++ encodeFields h fs vs
  | .userType t, v =>
    if t.isBlob then encodeWire h t v
    else let body := encodeWire h t v; writePackedLen body.length ++ body
  | _, _ => []
def encodeFields (h : Nat) : List (String × Ty) → List (String × Val) → Bytes
  | (_, t) :: fs, (_, v) :: vs => encodeWire h t v ++ encodeFields h fs vs
  | _, _ => []
end

/-! ### Typing of values (`HasTy`), a decidable predicate -/

def ipOK (ip : Bytes) : Bool := ip.length = 4

mutual
def hasTy : Ty → Val → Bool
  | .int k s, .int i =>
    decide (0 < k) &&
    (if s then decide (-(2 ^ (8 * k - 1) : Nat) ≤ i ∧ i < (2 ^ (8 * k - 1) : Nat))
     else decide (0 ≤ i ∧ i < (2 ^ (8 * k) : Nat)))
  | .f32, .f32 b => decide (b < 2 ^ 32)
  | .f64, .f64 b => decide (b < 2 ^ 64)
  | .vec n, .vec xs => decide (xs.length = n) && xs.all (fun x => decide (x < 2 ^ 32))
  | .blob, .bytes b => decide (b.length < 2 ^ 24)
  | .string, .str b => decide (b.length < 2 ^ 24) && utf8Valid b
  | .string, .bytes b => decide (b.length < 2 ^ 24) && !utf8Valid b
  | .python, .bytes b => decide (b.length < 2 ^ 24)
  | .mailbox, .mailbox ip p => ipOK ip && decide (p < 65536)
  | .array e (some n), .list vs => decide (vs.length = n) && vs.all (hasTy e)
  | .array e none, .list vs => decide (vs.length < 256) && vs.all (hasTy e)
  | .fixedDict _ true, .none => true
  | .fixedDict fs _, .dict vs => hasTyFields fs vs
  | .userType t, v => hasTy t v
  | _, _ => false
def hasTyFields : List (String × Ty) → List (String × Val) → Bool
  | [], [] => true
  | (k, t) :: fs, (k', v) :: vs => (k == k') && hasTy t v && hasTyFields fs vs
  | _, _ => false
end

/-- integer sizes the format language has -/
def okIntSize (k : Nat) : Bool := k = 1 || k = 2 || k = 4 || k = 8

mutual
/-- Type trees the alias/.def language can produce. -/
def Ty.wf : Ty → Bool
  | .int k _ => okIntSize k
  | .vec n => n = 2 || n = 3 || n = 4
  | .array e _ => e.wf
  | .fixedDict fs _ => Ty.wfFields fs
  | .userType t => t.wf
  | _ => true
def Ty.wfFields : List (String × Ty) → Bool
  | [] => true
  | (_, t) :: fs => t.wf && Ty.wfFields fs
end

mutual
/-- No USER_TYPE node with a non-blob inner type (the nodes whose length header the
code skips by the *method's* header size instead of reading it; DESIGN §6 D7). -/
def Ty.noUser : Ty → Bool
  | .array e _ => e.noUser
  | .fixedDict fs _ => Ty.noUserFields fs
  | .userType t => t.isBlob
  | _ => true
def Ty.noUserFields : List (String × Ty) → Bool
  | [] => true
  | (_, t) :: fs => t.noUser && Ty.noUserFields fs
end

mutual
/-- The domain on which the code's reading of USER_TYPE coincides with the wire format:
at every user type with a non-blob inner type the header size in force is 1 and the
inner encoding is shorter than 255 bytes (so the packed length is one byte). -/
def userOK (h : Nat) : Ty → Val → Bool
  | .array e _, .list vs => vs.all (userOK h e)
  | .fixedDict fs _, .dict vs => userOKFields h fs vs
  | .userType t, v =>
    if t.isBlob then true
    else decide (h = 1) && decide ((encodeWire h t v).length < 255) && userOK h t v
  | _, _ => true
def userOKFields (h : Nat) : List (String × Ty) → List (String × Val) → Bool
  | (_, t) :: fs, (_, v) :: vs => userOK h t v && userOKFields h fs vs
  | _, _ => true
end

/-! ### The library's writer (`_add_value_to_stream`) -/

/-- `Blob/String._add_value_to_stream` length prefix: 1 byte below 255, else
`0xFF` + 3 little-endian bytes; lengths ≥ 2^24 are refused (struct.error). -/
def writeLenImpl (n : Nat) : R Bytes :=
  if n < 255 then .ok [UInt8.ofNat n]
  else if n < 2 ^ 24 then .ok (255 :: toLE 3 n)
  else .error .short

def writeInt (k : Nat) (s : Bool) (i : Int) : R Bytes :=
  if s then
    if -(2 ^ (8 * k - 1) : Nat) ≤ i ∧ i < (2 ^ (8 * k - 1) : Nat) then .ok (toLE k (ofSigned k i))
    else .error .short
  else
    if 0 ≤ i ∧ i < (2 ^ (8 * k) : Nat) then .ok (toLE k (ofSigned k i)) else .error .short

def writeF32s : List Nat → R Bytes
  | [] => .ok []
  | x :: xs => do
    if x < 2 ^ 32 then
      let r ← writeF32s xs
      pure (toLE 4 x ++ r)
    else .error .short

mutual
def writeImpl (h : Nat) : Ty → Val → R Bytes
  | .int k s, .int i => writeInt k s i
  | .f32, .f32 b => if b < 2 ^ 32 then .ok (toLE 4 b) else .error .short
  | .f64, .f64 b => if b < 2 ^ 64 then .ok (toLE 8 b) else .error .short
  | .vec n, .vec xs => if xs.length = n then writeF32s xs else .error .short
  | .blob, .bytes b => do let l ← writeLenImpl b.length; pure (l ++ b)
  | .string, .str b =>
    -- a `str` always encodes to valid UTF-8 (lone surrogates raise UnicodeEncodeError)
    if utf8Valid b then do let l ← writeLenImpl b.length; pure (l ++ b) else .error .unicode
  | .string, .bytes b => do let l ← writeLenImpl b.length; pure (l ++ b)
  | .mailbox, .mailbox ip p =>
    if ipOK ip && decide (p < 65536) then .ok (ip ++ toBE 2 p) else .error .other
  | .array e (some n), .list vs =>
    if vs.length = n then writeList h e vs else .error .value
  | .array e none, .list vs =>
    if vs.length < 256 then do
      let r ← writeList h e vs
      pure (UInt8.ofNat vs.length :: r)
    else .error .short
  | .fixedDict _ an, .none => if an then .ok [0] else .error .type
  | .fixedDict fs an, .dict vs => do
    let r ← writeFields h fs vs
    pure ((if an then [1] else []) ++ r)
  | .python, _ => .error .notImplemented
  | .userType _, _ => .error .notImplemented
  | _, _ => .error .type
def writeList (h : Nat) (e : Ty) : List Val → R Bytes
  | [] => .ok []
  | v :: vs => do
    let a ← writeImpl h e v
    let b ← writeList h e vs
    pure (a ++ b)
def writeFields (h : Nat) : List (String × Ty) → List (String × Val) → R Bytes
  | [], [] => .ok []
  | (k, t) :: fs, (k', v) :: vs =>
    if k == k' then do
      let a ← writeImpl h t v
      let b ← writeFields h fs vs
      pure (a ++ b)
    else .error .badIndex
  | _, _ => .error .value
end

mutual
/-- Types the library can write (no PYTHON, no USER_TYPE anywhere). -/
def Ty.writable : Ty → Bool
  | .python => false
  | .userType _ => false
  | .array e _ => e.writable
  | .fixedDict fs _ => Ty.writableFields fs
  | _ => true
def Ty.writableFields : List (String × Ty) → Bool
  | [] => true
  | (_, t) :: fs => t.writable && Ty.writableFields fs
end

mutual
/-- least number of bytes a successful decode of `t` consumes -/
def minBytes : Ty → Nat
  | .int k _ => k
  | .f32 => 4 | .f64 => 8
  | .vec n => 4 * n
  | .blob | .string | .python => 1
  | .mailbox => 6
  | .array e (some n) => n * minBytes e
  | .array _ none => 1
  | .fixedDict fs an => if an then min 1 (minBytesFields fs) else minBytesFields fs
  | .userType t => minBytes t
def minBytesFields : List (String × Ty) → Nat
  | [] => 0
  | (_, t) :: fs => minBytes t + minBytesFields fs
end

mutual
/-- every element type of every (nested) array can never decode from zero bytes: the
element loop of nested slice updates then always makes progress -/
def Ty.elemsNonEmpty : Ty → Bool
  | .array e _ => decide (1 ≤ minBytes e) && e.elemsNonEmpty
  | .fixedDict fs _ => Ty.elemsNonEmptyFields fs
  | .userType t => t.elemsNonEmpty
  | _ => true
def Ty.elemsNonEmptyFields : List (String × Ty) → Bool
  | [] => true
  | (_, t) :: fs => t.elemsNonEmpty && Ty.elemsNonEmptyFields fs
end

mutual
/-- What a written value reads back as: the reader turns a STRING payload that happens to
be valid UTF-8 into text, whatever the writer was given. Identity on well-typed values. -/
def norm : Ty → Val → Val
  | .string, .bytes b => strOrBytes b
  | .array e _, .list vs => .list (vs.map (norm e))
  | .fixedDict fs _, .dict vs => .dict (normFields fs vs)
  | .userType t, v => norm t v
  | _, v => v
def normFields : List (String × Ty) → List (String × Val) → List (String × Val)
  | (_, t) :: fs, (k, v) :: vs => (k, norm t v) :: normFields fs vs
  | _, vs => vs
end

/-! ### Method argument lists (`EntityMethod.create_from_stream / write_to_stream`) -/

/-- `EntityMethod.write_to_stream`: arity check, then each argument in order -/
def writeArgsAux (h : Nat) : List Ty → List Val → R Bytes
  | t :: ts, v :: vs => do
    let a ← writeImpl h t v
    let b ← writeArgsAux h ts vs
    pure (a ++ b)
  | _, _ => .ok []

def writeArgs (h : Nat) (ts : List Ty) (vs : List Val) : R Bytes :=
  if ts.length = vs.length then writeArgsAux h ts vs else .error .other   -- RuntimeError

/-- `EntityMethod.create_from_stream`: each argument in order with the method's header size -/
def decodeArgs (h : Nat) : List Ty → Bytes → Except Err (List Val × Bytes)
  | [], bs => .ok ([], bs)
  | t :: ts, bs => do
    let (v, r) ← decode h t bs
    let (vs, r') ← decodeArgs h ts r
    pure (v :: vs, r')

end ReplayModel

namespace ReplayModel

/-! ### dict payloads as Python sees them -/

/-- `payload[key]` on an association list (first entry with that key) -/
def payloadGet? (payload : List (String × Val)) (k : String) : Option Val :=
  (payload.find? (·.1 == k)).map (·.2)

/-- what `FixedDict._add_value_to_stream` reads from a dict payload: the number of entries must
be that of the definition, then `payload[key]` for every field **in definition order** —
the order in which the keys were inserted into the payload plays no part -/
def orderDict (fs : List (String × Ty)) (payload : List (String × Val)) : Option (List (String × Val)) :=
  if payload.length ≠ fs.length then none
  else fs.mapM (fun f => (payloadGet? payload f.1).map (fun v => (f.1, v)))

/-- the writer on a dict payload given in any key order -/
def writeDictPayload (h : Nat) (fs : List (String × Ty)) (an : Bool) (payload : List (String × Val)) : R Bytes :=
  match orderDict fs payload with
  | none => .error .value
  | some vs => writeImpl h (.fixedDict fs an) (.dict vs)

end ReplayModel
