/-
L3 — definition loading: generic XML tree → alias table → `Ty`; interface recursion;
property override; method first-wins; sizes; stable sort → exposed index; flag-filtered
internal lists; entity list by position.
(`definitions.py`, `base_definition.py`, `entity_description.py`,
 `data_types/__init__.py`, `entity.py:__init__`)
-/
import ReplayModel.Codec
namespace ReplayModel

/-- An XML element as lxml presents it: tag, `.text` (text before the first child) and
the element children in document order (comments removed). -/
inductive Xml where
  | node (tag : String) (text : Option String) (children : List Xml)
  deriving Repr, Inhabited

def Xml.tag : Xml → String | .node t _ _ => t
def Xml.text : Xml → Option String | .node _ t _ => t
def Xml.children : Xml → List Xml | .node _ _ c => c

/-- `section.find(tag)`: first child with that tag -/
def Xml.find (x : Xml) (tag : String) : Option Xml := x.children.find? (·.tag == tag)

/-- `section.findall(tag)` -/
def Xml.findall (x : Xml) (tag : String) : List Xml := x.children.filter (·.tag == tag)

/-- characters `str.strip()` removes -/
def pyIsSpace (c : Char) : Bool :=
  let n := c.toNat
  (0x09 ≤ n && n ≤ 0x0d) || (0x1c ≤ n && n ≤ 0x20) || n == 0x85 || n == 0xa0 || n == 0x1680 ||
  (0x2000 ≤ n && n ≤ 0x200a) || n == 0x2028 || n == 0x2029 || n == 0x202f || n == 0x205f || n == 0x3000

def pyStrip (s : String) : String :=
  String.ofList ((s.toList.dropWhile pyIsSpace).reverse.dropWhile pyIsSpace).reverse

/-- `section.text.strip()`; `AttributeError` when the element has no text -/
def Xml.stripped (x : Xml) : R String :=
  match x.text with
  | some t => .ok (pyStrip t)
  | none => .error .other

/-- `int(s)` for the plain decimal literals definition files use -/
def pyInt? (s : String) : Option Int :=
  let cs := s.toList
  let (neg, ds) := match cs with
    | '-' :: r => (true, r)
    | '+' :: r => (false, r)
    | r => (false, r)
  if ds.isEmpty || !ds.all Char.isDigit then none
  else
    let n : Nat := ds.foldl (fun (acc : Nat) c => 10 * acc + (c.toNat - 48)) 0
    some (if neg then -(n : Int) else (n : Int))

/-- association-list update keeping the first position (Python dict assignment) -/
def dictSet {α : Type} (d : List (String × α)) (k : String) (v : α) : List (String × α) :=
  if d.any (·.1 == k) then d.map (fun p => if p.1 == k then (k, v) else p) else d ++ [(k, v)]

def dictGet? {α : Type} (d : List (String × α)) (k : String) : Option α :=
  (d.find? (·.1 == k)).map (·.2)

abbrev Aliases := List (String × Xml)

inductive SimpleKind where
  | leaf (t : Ty) | fixedDict | array | userType
  deriving Repr

/-- `Alias.SIMPLE_TYPES` -/
def simpleTypes : List (String × SimpleKind) := [
  ("BLOB", .leaf .blob), ("STRING", .leaf .string), ("UNICODE_STRING", .leaf .string),
  ("FLOAT", .leaf .f32), ("FLOAT32", .leaf .f32), ("FLOAT64", .leaf .f64),
  ("INT8", .leaf (.int 1 true)), ("INT16", .leaf (.int 2 true)), ("INT32", .leaf (.int 4 true)),
  ("INT64", .leaf (.int 8 true)), ("UINT8", .leaf (.int 1 false)), ("UINT16", .leaf (.int 2 false)),
  ("UINT32", .leaf (.int 4 false)), ("UINT64", .leaf (.int 8 false)),
  ("VECTOR2", .leaf (.vec 2)), ("VECTOR3", .leaf (.vec 3)), ("VECTOR4", .leaf (.vec 4)),
  ("MAILBOX", .leaf .mailbox), ("PYTHON", .leaf .python),
  ("FIXED_DICT", .fixedDict), ("ARRAY", .array), ("TUPLE", .array), ("USER_TYPE", .userType)]

/-- `AllowNone` child: `none_section is not None and none_section.text.strip() == 'true'` -/
def allowNoneOf (x : Xml) : R Bool :=
  match x.find "AllowNone" with
  | none => .ok false
  | some s => do let t ← s.stripped; pure (t == "true")

/-- `Alias.get_data_type_from_section`. `fuel` bounds the resolution depth (alias jumps and
structural descents); it runs out exactly when Python would hit `RecursionError` on an
alias cycle, provided it is at least (#aliases + 1) · (max XML depth + 1). -/
def getType (al : Aliases) : Nat → Xml → R Ty
  | 0, _ => .error .other
  | fuel+1, x => do
    let name ← x.stripped
    match dictGet? al name with
    | some sec => getType al fuel sec
    | none =>
      match dictGet? simpleTypes name with
      | none => .error .other                         -- RuntimeError("%s is unknown")
      | some (.leaf t) => .ok t
      | some .fixedDict =>
        match x.find "Properties" with
        | none => .error .type                         -- iterating None
        | some props => do
          let fields ← props.children.foldlM (fun (acc : List (String × Ty)) p =>
            match p.find "Type" with
            | none => .error .other
            | some ts => do
              let t ← getType al fuel ts
              pure (dictSet acc p.tag t)) []
          let an ← allowNoneOf x
          pure (.fixedDict fields an)
      | some .array =>
        match x.find "of" with
        | none => .error .other
        | some o => do
          let e ← getType al fuel o
          let _ ← allowNoneOf x
          match x.find "size" with
          | none => pure (.array e none)
          | some s => do
            let t ← s.stripped
            match pyInt? t with
            | some (.ofNat n) => pure (.array e (some n))
            | _ => .error .value
      | some .userType =>
        match x.find "Type" with
        | none => .ok (.userType .blob)
        | some ts => do
          let t ← getType al fuel ts
          pure (.userType t)

/-- `Alias._initialize`: alias.xml, then alias_ext.xml overriding by tag; every alias must
resolve (the `_mapping` loop). -/
def loadAliases (fuel : Nat) (alias : Xml) (aliasExt : Option Xml) : R Aliases := do
  let al := alias.children.foldl (fun acc c => dictSet acc c.tag c) ([] : Aliases)
  let al := match aliasExt with
    | some e => e.children.foldl (fun acc c => dictSet acc c.tag c) al
    | none => al
  for (_, sec) in al do
    let _ ← getType al fuel sec
  pure al

/-! ### Flags -/

def flagValues : List (String × Nat) := [
  ("CELL_PRIVATE", 0), ("CELL_PUBLIC", 1), ("OTHER_CLIENTS", 2), ("OWN_CLIENT", 4), ("BASE", 8),
  ("BASE_AND_CLIENT", 16), ("CELL_PUBLIC_AND_OWN", 32), ("ALL_CLIENTS", 64), ("EDITOR_ONLY", 128)]

/-- the masks `Entity.__init__` passes to `get_properties_by_flags` -/
structure Masks where
  client : Nat := 118      -- ALL_CLIENTS|BASE_AND_CLIENT|OTHER_CLIENTS|OWN_CLIENT|CELL_PUBLIC_AND_OWN
  internal : Nat := 102    -- the same without BASE_AND_CLIENT
  cell : Nat := 33         -- CELL_PUBLIC_AND_OWN|CELL_PUBLIC
  base : Nat := 16         -- BASE_AND_CLIENT
  deriving Repr, DecidableEq

/-! ### Properties and methods -/

structure PropDef where
  name : String
  ty : Ty
  flags : Nat
  deriving Repr, Inhabited

def PropDef.size (p : PropDef) : Nat := min p.ty.sizeInBytes INFINITY

structure MethodDef where
  name : String
  args : List (Option String × Ty)
  exposed : Bool
  header : Nat
  deriving Repr, Inhabited

/-- `EntityMethod.get_size_in_bytes` -/
def MethodDef.size (m : MethodDef) : Nat :=
  let s := (m.args.map (·.2.sizeInBytes)).sum
  if s ≥ INFINITY then INFINITY + m.header else s + m.header

/-- ok/fail of `get_default_value(<Default>)` — the value itself is never read -/
def pyFloatOk (s : String) : Bool :=
  let cs := s.toList
  let cs := match cs with | '-' :: r => r | '+' :: r => r | r => r
  let lower := String.ofList (cs.map Char.toLower)
  if lower == "inf" || lower == "infinity" || lower == "nan" then true
  else
    let (mant, exp) := (cs.takeWhile (fun c => c != 'e' && c != 'E'), cs.dropWhile (fun c => c != 'e' && c != 'E'))
    let ip := mant.takeWhile (· != '.')
    let fp := (mant.dropWhile (· != '.')).drop 1
    let mantOk := (ip.all Char.isDigit) && (fp.all Char.isDigit) && !(ip.isEmpty && fp.isEmpty) &&
      ((mant.filter (· == '.')).length ≤ 1)
    let expOk := match exp with
      | [] => true
      | _ :: r =>
        let r := match r with | '-' :: q => q | '+' :: q => q | q => q
        !r.isEmpty && r.all Char.isDigit
    mantOk && expOk

def defaultOk : Nat → Ty → Xml → Bool
  | 0, _, _ => false
  | fuel+1, t, d =>
    match t with
    | .int k s =>
      match d.text with
      | none => false
      | some tx =>
        let st := pyStrip tx
        if k == 1 && !s && (st.toLower == "true" || st.toLower == "false") then true
        else (pyInt? st).isSome
    | .f32 | .f64 =>
      match d.text with
      | none => false
      | some tx => pyFloatOk (pyStrip tx)
    | .vec 2 =>
      match d.text with
      | none => false
      | some tx => ((pyStrip tx).splitOn " ").all pyFloatOk
    | .string => d.text.isSome
    | .array e _ => (d.findall "item").all (defaultOk fuel e)
    | _ => false

def parseProperty (al : Aliases) (fuel : Nat) (x : Xml) : R PropDef := do
  let ts ← match x.find "Type" with | some t => pure t | none => .error .other
  let t ← getType al fuel ts
  let fl ← match x.find "Flags" with | some f => f.stripped | none => .error .other
  match x.find "Default" with
  | some d => if defaultOk fuel t d then pure () else .error .value
  | none => pure ()
  match dictGet? flagValues fl with
  | some v => pure { name := x.tag, ty := t, flags := v }
  | none => .error .other                              -- AttributeError on EntityFlags

/-- `PropertiesDescriptions.parse` on already parsed sections: a redefinition removes the
earlier entry and appends -/
def mergeLastWins (props new : List PropDef) : List PropDef :=
  new.foldl (fun acc p => acc.filter (·.name != p.name) ++ [p]) props

def addProps (al : Aliases) (fuel : Nat) (props : List PropDef) (sec : Xml) : R (List PropDef) := do
  let parsed ← sec.children.mapM (parseProperty al fuel)
  pure (mergeLastWins props parsed)

/-- header size: `int(text.strip())`, 1 on ValueError / AttributeError -/
def headerSizeOf (x : Xml) : Nat :=
  match x.find "VariableLengthHeaderSize" with
  | none => 1
  | some h =>
    match h.text with
    | none => 1
    | some t =>
      match pyInt? (pyStrip t) with
      | some (.ofNat n) => n
      | _ => 1

def parseMethod (al : Aliases) (fuel : Nat) (exposedDefault : Bool) (x : Xml) : R MethodDef := do
  let args ← match x.find "Args" with
    | some a => a.children.mapM (fun it => do
        let t ← getType al fuel it
        pure (some it.tag, t))
    | none => (x.findall "Arg").mapM (fun it => do
        let t ← getType al fuel it
        pure ((none : Option String), t))
  pure { name := x.tag, args := args,
         exposed := (x.find "Exposed").isSome || exposedDefault, header := headerSizeOf x }

/-- `MethodDescriptions.parse` on already parsed sections: the first definition of a name wins -/
def mergeFirstWins (ms new : List MethodDef) : List MethodDef :=
  new.foldl (fun acc m => if acc.any (·.name == m.name) then acc else acc ++ [m]) ms

def addMethods (al : Aliases) (fuel : Nat) (exposedDefault : Bool) (ms : List MethodDef) (sec : Xml) :
    R (List MethodDef) := do
  let parsed ← sec.children.mapM (parseMethod al fuel exposedDefault)
  pure (mergeFirstWins ms parsed)

structure EntityDef where
  name : String
  props : List PropDef := []
  client : List MethodDef := []
  cell : List MethodDef := []
  base : List MethodDef := []
  volatile : List String := []
  deriving Repr, Inhabited

def addVolatile (vol : List String) (sec : Xml) : List String :=
  sec.children.foldl (fun acc it =>
    if it.tag == "position" || it.tag == "yaw" || it.tag == "pitch" || it.tag == "roll" then
      (if acc.contains it.tag then acc else acc ++ [it.tag])
    else acc) vol

/-- `EntityDef._parse_section`: interfaces (depth first, in declaration order), then the
section's own Properties, Volatile, ClientMethods, CellMethods, BaseMethods. -/
def parseSection (al : Aliases) (ifaces : List (String × Xml)) (tyFuel : Nat) :
    Nat → EntityDef → Xml → R EntityDef
  | 0, _, _ => .error .other
  | fuel+1, d, sec => do
    let d ← match sec.find "Implements" with
      | none => pure d
      | some impl => impl.children.foldlM (fun acc it => do
          let nm ← it.stripped
          match dictGet? ifaces nm with
          | none => .error .other                      -- OSError: interface file missing
          | some root => parseSection al ifaces tyFuel fuel acc root) d
    let props ← match sec.find "Properties" with
      | some p => addProps al tyFuel d.props p | none => pure d.props
    let vol := match sec.find "Volatile" with | some v => addVolatile d.volatile v | none => d.volatile
    let client ← match sec.find "ClientMethods" with
      | some m => addMethods al tyFuel true d.client m | none => pure d.client
    let cell ← match sec.find "CellMethods" with
      | some m => addMethods al tyFuel false d.cell m | none => pure d.cell
    let base ← match sec.find "BaseMethods" with
      | some m => addMethods al tyFuel false d.base m | none => pure d.base
    pure { d with props := props, volatile := vol, client := client, cell := cell, base := base }

structure Defs where
  entities : List EntityDef
  deriving Repr, Inhabited

/-- `Definitions._parse`: `<ClientServerEntities>` if present, else the root's children;
entity k (1-based) is the k-th child. -/
def loadDefs (fuel : Nat) (alias : Xml) (aliasExt : Option Xml) (entities : Xml)
    (defs : List (String × Xml)) (ifaces : List (String × Xml)) : R Defs := do
  let al ← loadAliases fuel alias aliasExt
  let lst := match entities.find "ClientServerEntities" with
    | some c => c.children
    | none => entities.children
  let ents ← lst.mapM (fun e =>
    match dictGet? defs e.tag with
    | none => .error .other
    | some root => parseSection al ifaces fuel fuel { name := e.tag } root)
  pure { entities := ents }

/-- `get_entity_def_by_index(index)`: `_entity_defs_by_index[index - 1]` — a dict lookup, so
index 0 (key −1) and indices past the end raise KeyError -/
def Defs.byIndex (d : Defs) (idx : Int) : R EntityDef :=
  if 1 ≤ idx then
    match d.entities[(idx - 1).toNat]? with
    | some e => .ok e
    | none => .error .badIndex
  else .error .badIndex

/-- `get_entity_def_by_name`: the last entity with that tag -/
def Defs.byName (d : Defs) (name : String) : R EntityDef :=
  match d.entities.reverse.find? (·.name == name) with
  | some e => .ok e
  | none => .error .badIndex

/-! ### The views `Entity.__init__` builds -/

def stableSortBy {α : Type} (key : α → Nat) (xs : List α) : List α :=
  xs.mergeSort (fun a b => key a ≤ key b)

/-- `get_properties_by_flags(mask)` (declaration order) -/
def propsByFlags (ps : List PropDef) (mask : Nat) : List PropDef :=
  ps.filter (fun p => p.flags &&& mask != 0)

/-- exposed property list: filtered, then stably sorted by wire size -/
def exposedProps (ps : List PropDef) (mask : Nat) : List PropDef :=
  stableSortBy PropDef.size (propsByFlags ps mask)

/-- `get_exposed_index_map()`: exposed methods, stably sorted by size -/
def exposedMethods (ms : List MethodDef) : List MethodDef :=
  stableSortBy MethodDef.size (ms.filter (·.exposed))

structure EntityView where
  name : String
  methods : List MethodDef
  clientProps : List PropDef
  clientPropsInternal : List PropDef
  cellProps : List PropDef
  baseProps : List PropDef
  volatile : List String
  deriving Repr, Inhabited

def EntityDef.view (m : Masks) (d : EntityDef) : EntityView :=
  { name := d.name
    methods := exposedMethods d.client
    clientProps := exposedProps d.props m.client
    clientPropsInternal := propsByFlags d.props m.internal
    cellProps := propsByFlags d.props m.cell
    baseProps := propsByFlags d.props m.base
    volatile := d.volatile }

end ReplayModel
