import ReplayProofs.Lemmas.Bytes
import ReplayProofs.Lemmas.Codec
import ReplayProofs.C03
