import ReplayProofs.Lemmas.Bytes
import ReplayProofs.Lemmas.Bits
import ReplayProofs.Lemmas.Codec
import ReplayProofs.C03
import ReplayProofs.C17
import ReplayProofs.C16
import ReplayProofs.C04
