/-
C16 — the library's own writers and readers are mutual inverses.
-/
import ReplayModel.Codec
import ReplayProofs.Lemmas.Codec
import ReplayProofs.C03
namespace ReplayModel.C16
open ReplayModel

theorem writeF32s_ok (xs : List Nat) (hx : ∀ x ∈ xs, x < 2 ^ 32) :
    writeF32s xs = .ok (xs.flatMap (toLE 4)) := by
  induction xs with
  | nil => rfl
  | cons x xs ih =>
    have h1 := hx x (List.mem_cons_self ..)
    simp only [writeF32s, h1, if_true, ih (fun w hw => hx w (List.mem_cons_of_mem _ hw)), bind,
      Except.bind, pure, Except.pure, List.flatMap_cons]

theorem writeF32s_sound (xs : List Nat) (bs : Bytes) (h : writeF32s xs = .ok bs) :
    (∀ x ∈ xs, x < 2 ^ 32) ∧ bs = xs.flatMap (toLE 4) := by
  induction xs generalizing bs with
  | nil => simp [writeF32s] at h; simp [h]
  | cons x xs ih =>
    simp only [writeF32s] at h
    split at h
    · rename_i hx
      cases hr : writeF32s xs with
      | error e => simp [hr, bind, Except.bind] at h
      | ok r =>
        simp only [hr, bind, Except.bind, pure, Except.pure, Except.ok.injEq] at h
        obtain ⟨h1, h2⟩ := ih r hr
        refine ⟨?_, by rw [← h, h2]; simp⟩
        intro y hy
        cases hy with
        | head => exact hx
        | tail _ hy => exact h1 y hy
    · cases h

theorem writeLenImpl_ok (n : Nat) (h : n < 2 ^ 24) : writeLenImpl n = .ok (writePackedLen n) := by
  unfold writeLenImpl writePackedLen
  split <;> simp_all

theorem writeLenImpl_sound (n : Nat) (bs : Bytes) (h : writeLenImpl n = .ok bs) :
    n < 2 ^ 24 ∧ bs = writePackedLen n := by
  unfold writeLenImpl at h
  unfold writePackedLen
  split at h
  · simp_all; omega
  · rename_i h1
    split at h
    · rename_i h2
      simp only [Except.ok.injEq] at h
      simp [h1, h2, h]
    · cases h

/-- list part of totality -/
theorem writeList_ok (h : Nat) (e : Ty) (vs : List Val)
    (ih : ∀ v ∈ vs, writeImpl h e v = .ok (encodeWire h e v)) :
    writeList h e vs = .ok (vs.flatMap (encodeWire h e)) := by
  induction vs with
  | nil => simp [writeList]
  | cons v vs ihl =>
    simp only [writeList, ih v (List.mem_cons_self ..),
      ihl (fun w hw => ih w (List.mem_cons_of_mem _ hw)), bind, Except.bind, pure, Except.pure,
      List.flatMap_cons]

/-- **Totality on representable values**: every well-typed value of a writable type is
written, and what is written is exactly the wire encoding. -/
theorem write_total (h : Nat) (t : Ty) : ∀ (v : Val), t.writable = true → hasTy t v = true →
    writeImpl h t v = .ok (encodeWire h t v) := by
  induction t using Ty.ind with
  | int k s =>
    intro v _ hv
    cases v <;> simp [hasTy] at hv
    rename_i i
    obtain ⟨_, hv⟩ := hv
    cases s <;> simp_all [writeImpl, writeInt, encodeWire]
  | f32 => intro v _ hv; cases v <;> simp_all [hasTy, writeImpl, encodeWire]
  | f64 => intro v _ hv; cases v <;> simp_all [hasTy, writeImpl, encodeWire]
  | vec n =>
    intro v _ hv
    cases v <;> simp [hasTy] at hv
    rename_i xs
    simp only [writeImpl, encodeWire, hv.1, if_true]
    exact writeF32s_ok xs hv.2
  | blob =>
    intro v _ hv
    cases v <;> simp [hasTy] at hv
    simp [writeImpl, encodeWire, writeLenImpl_ok _ hv, bind, Except.bind, pure, Except.pure]
  | string =>
    intro v _ hv
    cases v <;> simp [hasTy] at hv <;>
      simp [writeImpl, encodeWire, writeLenImpl_ok _ hv.1, hv.2, bind, Except.bind, pure, Except.pure]
  | python => intro v hw _; simp [Ty.writable] at hw
  | mailbox =>
    intro v _ hv
    cases v <;> simp [hasTy] at hv
    simp [writeImpl, encodeWire, hv]
  | array e sz ih =>
    intro v hw hv
    simp only [Ty.writable] at hw
    cases sz with
    | some n =>
      cases v <;> simp [hasTy] at hv
      rename_i vs
      simp only [writeImpl, encodeWire, hv.1, if_true]
      exact writeList_ok h e vs (fun v hm => ih v hw (hv.2 v hm))
    | none =>
      cases v <;> simp [hasTy] at hv
      rename_i vs
      simp only [writeImpl, encodeWire, hv.1, if_true,
        writeList_ok h e vs (fun v hm => ih v hw (hv.2 v hm)), bind, Except.bind, pure, Except.pure]
  | fixedDict fs an ih =>
    intro v hw hv
    simp only [Ty.writable] at hw
    cases v <;> try (simp [hasTy] at hv; done)
    · cases an <;> simp [hasTy] at hv
      simp [writeImpl, encodeWire]
    · rename_i vs
      have hv' : hasTyFields fs vs = true := by cases an <;> simpa [hasTy] using hv
      have key : writeFields h fs vs = .ok (encodeFields h fs vs) := by
        clear hv
        induction fs generalizing vs with
        | nil =>
          cases vs with
          | nil => simp [writeFields, encodeFields]
          | cons v vs => simp [hasTyFields] at hv'
        | cons f fs ihf =>
          obtain ⟨k, t⟩ := f
          cases vs with
          | nil => simp [hasTyFields] at hv'
          | cons v vs =>
            obtain ⟨k', v⟩ := v
            simp only [hasTyFields, Bool.and_eq_true, beq_iff_eq] at hv'
            simp only [Ty.writableFields, Bool.and_eq_true] at hw
            obtain ⟨⟨hk, hv1⟩, hv2⟩ := hv'
            subst hk
            simp only [writeFields, encodeFields, beq_self_eq_true, if_true,
              ih (k, t) (List.mem_cons_self ..) v hw.1 hv1,
              ihf (fun p hp => ih p (List.mem_cons_of_mem _ hp)) hw.2 vs hv2,
              bind, Except.bind, pure, Except.pure]
      simp only [writeImpl, encodeWire, key, bind, Except.bind, pure, Except.pure]
  | userType t _ => intro v hw _; simp [Ty.writable] at hw

/-- writable types contain no USER_TYPE at all -/
theorem noUser_of_writable (t : Ty) : t.writable = true → t.noUser = true := by
  induction t using Ty.ind with
  | array e sz ih => intro h; simpa [Ty.noUser] using ih (by simpa [Ty.writable] using h)
  | fixedDict fs an ih =>
    intro h
    simp only [Ty.writable] at h
    simp only [Ty.noUser]
    induction fs with
    | nil => rfl
    | cons f fs ihf =>
      obtain ⟨k, t⟩ := f
      simp only [Ty.writableFields, Bool.and_eq_true] at h
      simp only [Ty.noUserFields, Bool.and_eq_true]
      exact ⟨ih (k, t) (List.mem_cons_self ..) h.1,
        ihf (fun p hp => ih p (List.mem_cons_of_mem _ hp)) h.2⟩
  | userType t _ => intro h; simp [Ty.writable] at h
  | _ => intro _; simp [Ty.noUser]

/-- **Write then read.** For every writable type, every value of that type and every
continuation: the writer succeeds, and reading back what was written yields exactly that
value and consumes exactly what was written. -/
theorem read_write (h : Nat) (t : Ty) (v : Val) (rest : Bytes)
    (hw : t.writable = true) (hv : hasTy t v = true) :
    ∃ bs, writeImpl h t v = .ok bs ∧ decode h t (bs ++ rest) = .ok (v, rest) :=
  ⟨encodeWire h t v, write_total h t v hw hv,
    C03.decode_encode_noUser h t v rest hv (noUser_of_writable t hw)⟩

theorem strOrBytes_hasTy (b : Bytes) (hb : b.length < 2 ^ 24) :
    hasTy .string (strOrBytes b) = true ∧ encodeWire 0 .string (strOrBytes b) = writePackedLen b.length ++ b := by
  unfold strOrBytes
  split <;> simp_all [hasTy, encodeWire]

theorem encodeWire_string_h (h : Nat) (v : Val) : encodeWire h .string v = encodeWire 0 .string v := by
  cases v <;> simp [encodeWire]

/-- list part of soundness -/
theorem writeList_sound (h : Nat) (e : Ty) (vs : List Val) (bs : Bytes)
    (ih : ∀ v ∈ vs, ∀ b, writeImpl h e v = .ok b →
      hasTy e (norm e v) = true ∧ userOK h e (norm e v) = true ∧ b = encodeWire h e (norm e v))
    (hw : writeList h e vs = .ok bs) :
    (∀ v ∈ vs.map (norm e), hasTy e v = true) ∧ (∀ v ∈ vs.map (norm e), userOK h e v = true) ∧
      bs = (vs.map (norm e)).flatMap (encodeWire h e) := by
  induction vs generalizing bs with
  | nil => simp [writeList] at hw; simp [hw]
  | cons v vs ihl =>
    simp only [writeList] at hw
    cases ha : writeImpl h e v with
    | error _ => simp [ha, bind, Except.bind] at hw
    | ok a =>
      cases hb : writeList h e vs with
      | error _ => simp [ha, hb, bind, Except.bind] at hw
      | ok b =>
        simp only [ha, hb, bind, Except.bind, pure, Except.pure, Except.ok.injEq] at hw
        obtain ⟨h1, h2, h3⟩ := ih v (List.mem_cons_self ..) a ha
        obtain ⟨g1, g2, g3⟩ := ihl b (fun w hw' => ih w (List.mem_cons_of_mem _ hw')) hb
        refine ⟨?_, ?_, ?_⟩
        · intro w hw'
          simp only [List.map_cons, List.mem_cons] at hw'
          rcases hw' with rfl | hw'
          · exact h1
          · exact g1 w hw'
        · intro w hw'
          simp only [List.map_cons, List.mem_cons] at hw'
          rcases hw' with rfl | hw'
          · exact h2
          · exact g2 w hw'
        · simp [← hw, h3, g3]

/-- **Soundness of the writer (refusal).** Whenever the writer succeeds, the bytes it
produced are the wire encoding of `norm t v`, a well-typed value: nothing that is not
representable is ever written, and what is read back is `norm t v` (`write_read_norm`). -/
theorem write_sound (h : Nat) (t : Ty) : ∀ (v : Val) (bs : Bytes), t.wf = true →
    writeImpl h t v = .ok bs →
    hasTy t (norm t v) = true ∧ userOK h t (norm t v) = true ∧ bs = encodeWire h t (norm t v) := by
  induction t using Ty.ind with
  | int k s =>
    intro v bs hwf hw
    have hk : 0 < k := by
      simp only [Ty.wf, okIntSize, Bool.or_eq_true, decide_eq_true_eq] at hwf; omega
    cases v <;> simp [writeImpl] at hw
    rename_i i
    unfold writeInt at hw
    cases s
    · simp only [Bool.false_eq_true, if_false] at hw
      split at hw
      · rename_i hr
        simp only [Except.ok.injEq] at hw
        have := hr.2
        simp [norm, hasTy, userOK, encodeWire, hk, hr.1, hw]
        simpa using this
      · cases hw
    · simp only [if_true] at hw
      split at hw
      · rename_i hr
        simp only [Except.ok.injEq] at hw
        have h1 := hr.1
        have h2 := hr.2
        simp [norm, hasTy, userOK, encodeWire, hk, hw]
        constructor
        · simpa using h1
        · simpa using h2
      · cases hw
  | f32 =>
    intro v bs _ hw
    cases v <;> simp [writeImpl, if_ok] at hw
    simp [norm, hasTy, userOK, encodeWire, hw.1, hw.2]
  | f64 =>
    intro v bs _ hw
    cases v <;> simp [writeImpl, if_ok] at hw
    simp [norm, hasTy, userOK, encodeWire, hw.1, hw.2]
  | vec n =>
    intro v bs _ hw
    cases v <;> simp [writeImpl, if_ok] at hw
    rename_i xs
    obtain ⟨hl, hw⟩ := hw
    obtain ⟨h1, h2⟩ := writeF32s_sound xs bs hw
    simp only [norm, hasTy, userOK, encodeWire, hl, decide_true, Bool.true_and, List.all_eq_true,
      decide_eq_true_eq, true_and]
    exact ⟨h1, h2⟩
  | blob =>
    intro v bs _ hw
    cases v <;> simp [writeImpl, map_ok] at hw
    rename_i b
    obtain ⟨l, hl, hw⟩ := hw
    obtain ⟨g1, g2⟩ := writeLenImpl_sound _ _ hl
    simp [norm, hasTy, userOK, encodeWire, g1, ← hw, g2]
  | string =>
    intro v bs _ hw
    cases v <;> simp [writeImpl, map_ok, if_ok] at hw <;> rename_i b
    · obtain ⟨l, hl, hw⟩ := hw
      obtain ⟨g1, g2⟩ := writeLenImpl_sound _ _ hl
      obtain ⟨s1, s2⟩ := strOrBytes_hasTy b g1
      simp only [norm]
      refine ⟨s1, by unfold strOrBytes; split <;> simp [userOK], ?_⟩
      rw [encodeWire_string_h, s2, ← hw, g2]
    · obtain ⟨hu, l, hl, hw⟩ := hw
      obtain ⟨g1, g2⟩ := writeLenImpl_sound _ _ hl
      simp [norm, hasTy, userOK, encodeWire, g1, hu, ← hw, g2]
  | python => intro v bs _ hw; cases v <;> simp [writeImpl] at hw
  | mailbox =>
    intro v bs _ hw
    cases v <;> simp [writeImpl, if_ok] at hw
    simp [norm, hasTy, userOK, encodeWire, hw.1.1, hw.1.2, hw.2]
  | array e sz ih =>
    intro v bs hwf hw
    simp only [Ty.wf] at hwf
    cases sz with
    | some n =>
      cases v <;> simp [writeImpl, if_ok] at hw
      rename_i vs
      obtain ⟨hl, hw⟩ := hw
      obtain ⟨g1, g2, g3⟩ := writeList_sound h e vs bs (fun v _ b hb => ih v b hwf hb) hw
      simp only [norm, hasTy, userOK, encodeWire, List.length_map, hl, decide_true, Bool.true_and,
        List.all_eq_true]
      exact ⟨g1, g2, g3⟩
    | none =>
      cases v <;> simp [writeImpl, if_ok, map_ok] at hw
      rename_i vs
      obtain ⟨hl, b, hb, hw⟩ := hw
      · obtain ⟨g1, g2, g3⟩ := writeList_sound h e vs b (fun v _ b hb => ih v b hwf hb) hb
        simp only [norm, hasTy, userOK, encodeWire, List.length_map, hl, decide_true, Bool.true_and,
          List.all_eq_true]
        exact ⟨g1, g2, by rw [← hw, g3]⟩
  | fixedDict fs an ih =>
    intro v bs hwf hw
    simp only [Ty.wf] at hwf
    cases v <;> try (simp [writeImpl] at hw; done)
    · cases an <;> simp [writeImpl] at hw
      simp [norm, hasTy, userOK, encodeWire, hw]
    · rename_i vs
      simp only [writeImpl] at hw
      cases hb : writeFields h fs vs with
      | error _ => simp [hb, bind, Except.bind] at hw
      | ok b =>
        simp only [hb, bind, Except.bind, pure, Except.pure, Except.ok.injEq] at hw
        have key : hasTyFields fs (normFields fs vs) = true ∧
            userOKFields h fs (normFields fs vs) = true ∧ b = encodeFields h fs (normFields fs vs) := by
          clear hw
          induction fs generalizing vs b with
          | nil =>
            cases vs with
            | nil => simp [writeFields] at hb; simp [normFields, hasTyFields, userOKFields, encodeFields, hb]
            | cons v vs => simp [writeFields] at hb
          | cons f fs ihf =>
            obtain ⟨k, t⟩ := f
            cases vs with
            | nil => simp [writeFields] at hb
            | cons v vs =>
              obtain ⟨k', v⟩ := v
              simp only [writeFields] at hb
              split at hb
              · rename_i hk
                simp only [beq_iff_eq] at hk
                subst hk
                cases ha : writeImpl h t v with
                | error _ => simp [ha, bind, Except.bind] at hb
                | ok a =>
                  cases hc : writeFields h fs vs with
                  | error _ => simp [ha, hc, bind, Except.bind] at hb
                  | ok c =>
                    simp only [ha, hc, bind, Except.bind, pure, Except.pure, Except.ok.injEq] at hb
                    simp only [Ty.wfFields, Bool.and_eq_true] at hwf
                    obtain ⟨h1, h2, h3⟩ := ih (k, t) (List.mem_cons_self ..) v a hwf.1 ha
                    obtain ⟨g1, g2, g3⟩ := ihf (fun p hp => ih p (List.mem_cons_of_mem _ hp)) hwf.2 vs c hc
                    simp only [normFields, hasTyFields, userOKFields, encodeFields, beq_self_eq_true,
                      Bool.true_and, Bool.and_eq_true]
                    exact ⟨⟨h1, g1⟩, ⟨h2, g2⟩, by rw [← hb, h3, g3]⟩
              · cases hb
        obtain ⟨k1, k2, k3⟩ := key
        simp only [norm, userOK, encodeWire, k2, true_and]
        refine ⟨by cases an <;> simp [hasTy, k1], by rw [← hw, k3]⟩
  | userType t _ => intro v bs _ hw; cases v <;> simp [writeImpl] at hw

/-- **Write then read, in general**: whatever the writer accepts reads back as `norm t v`
and consumes exactly what was written. -/
theorem write_read_norm (h : Nat) (t : Ty) (v : Val) (bs rest : Bytes) (hwf : t.wf = true)
    (hw : writeImpl h t v = .ok bs) : decode h t (bs ++ rest) = .ok (norm t v, rest) := by
  obtain ⟨h1, h2, h3⟩ := write_sound h t v bs hwf hw
  rw [h3]
  exact C03.decode_encode h t (norm t v) rest h1 h2

/-- `norm` is the identity on well-typed values: there the writer and the reader are exact
mutual inverses (`read_write`). -/
theorem norm_id (t : Ty) : ∀ v, hasTy t v = true → norm t v = v := by
  induction t using Ty.ind with
  | string =>
    intro v hv
    cases v <;> simp [hasTy] at hv <;> simp [norm, strOrBytes, hv.2]
  | array e sz ih =>
    intro v hv
    cases v <;> try (cases sz <;> simp [hasTy] at hv; done)
    rename_i vs
    have : ∀ x ∈ vs, hasTy e x = true := by cases sz <;> simp [hasTy] at hv <;> exact hv.2
    simp only [norm, Val.list.injEq]
    have hm : vs.map (norm e) = vs.map id := List.map_congr_left (fun x hx => ih x (this x hx))
    rw [hm, List.map_id]
  | fixedDict fs an ih =>
    intro v hv
    cases v <;> try (simp [norm]; done)
    rename_i vs
    have hv' : hasTyFields fs vs = true := by cases an <;> simpa [hasTy] using hv
    simp only [norm, Val.dict.injEq]
    clear hv
    induction fs generalizing vs with
    | nil => simp [normFields]
    | cons f fs ihf =>
      obtain ⟨k, t⟩ := f
      cases vs with
      | nil => simp [normFields]
      | cons v vs =>
        obtain ⟨k', v⟩ := v
        simp only [hasTyFields, Bool.and_eq_true] at hv'
        simp only [normFields, ih (k, t) (List.mem_cons_self ..) v hv'.1.2,
          ihf (fun p hp => ih p (List.mem_cons_of_mem _ hp)) vs hv'.2]
  | userType t ih => intro v hv; simp only [hasTy] at hv; simp only [norm]; exact ih v hv
  | _ => intro v _; cases v <;> simp [norm]

/-- The one place where the writer accepts a value that reads back as something else
(known finding C16 `string-bytes-valid-utf8`): a `bytes` payload of a STRING that
happens to be valid UTF-8 is read back as text. -/
theorem string_bytes_counterexample :
    writeImpl 1 .string (.bytes [0x61]) = .ok [1, 0x61] ∧
    decode 1 .string [1, 0x61] = .ok (.str [0x61], []) := by
  constructor <;> rfl

/-- argument lists: every argument writable and well-typed, same arity -/
def hasTyArgs : List Ty → List Val → Bool
  | [], [] => true
  | t :: ts, v :: vs => t.writable && hasTy t v && hasTyArgs ts vs
  | _, _ => false

theorem hasTyArgs_length (ts : List Ty) (vs : List Val) (h : hasTyArgs ts vs = true) :
    ts.length = vs.length := by
  induction ts generalizing vs with
  | nil => cases vs <;> simp_all [hasTyArgs]
  | cons t ts ih =>
    cases vs with
    | nil => simp [hasTyArgs] at h
    | cons v vs => simp only [hasTyArgs, Bool.and_eq_true] at h; simp [ih vs h.2]

/-- **Method argument lists**: `write_to_stream(*args)` followed by `create_from_stream`
returns the arguments and consumes exactly what was written (any arity, any header size). -/
theorem method_write_read (h : Nat) (ts : List Ty) (vs : List Val) (rest : Bytes)
    (hv : hasTyArgs ts vs = true) :
    ∃ bs, writeArgs h ts vs = .ok bs ∧ decodeArgs h ts (bs ++ rest) = .ok (vs, rest) := by
  unfold writeArgs
  rw [if_pos (hasTyArgs_length ts vs hv)]
  induction ts generalizing vs with
  | nil =>
    cases vs with
    | nil => exact ⟨[], rfl, rfl⟩
    | cons v vs => simp [hasTyArgs] at hv
  | cons t ts ih =>
    cases vs with
    | nil => simp [hasTyArgs] at hv
    | cons v vs =>
      simp only [hasTyArgs, Bool.and_eq_true] at hv
      obtain ⟨⟨hw, h1⟩, h2⟩ := hv
      obtain ⟨bs2, g1, g2⟩ := ih vs h2
      obtain ⟨bs1, f1, f2⟩ := read_write h t v (bs2 ++ rest) hw h1
      refine ⟨bs1 ++ bs2, ?_, ?_⟩
      · simp only [writeArgsAux, f1, g1, bind, Except.bind, pure, Except.pure]
      · simp only [decodeArgs, List.append_assoc, f2, g2, bind, Except.bind, pure, Except.pure]

/-- a wrong number of arguments is refused before anything is written -/
theorem method_arity (h : Nat) (ts : List Ty) (vs : List Val) (hl : ts.length ≠ vs.length) :
    writeArgs h ts vs = .error .other := by
  simp [writeArgs, hl]

/-- PYTHON and USER_TYPE values cannot be written (NotImplementedError). -/
theorem write_unsupported (h : Nat) (v : Val) (t : Ty) :
    writeImpl h .python v = .error .notImplemented ∧
    writeImpl h (.userType t) v = .error .notImplemented := by
  constructor <;> cases v <;> simp [writeImpl]

/-- Non-vacuity for `read_write`. -/
example : (Ty.fixedDict [("a", .array .string none), ("b", .fixedDict [("x", .int 8 true)] true)] false).writable = true
    ∧ hasTy (.fixedDict [("a", .array .string none), ("b", .fixedDict [("x", .int 8 true)] true)] false)
        (.dict [("a", .list [.str [0xC3, 0xA9], .bytes [0xFF]]), ("b", .none)]) = true := by
  decide +kernel

/-! ### dict payloads: the key order of the payload is irrelevant -/

theorem find_key_unique (k : String) : ∀ (l : List (String × Val)) (x : String × Val), x ∈ l → x.1 = k →
    (l.map (·.1)).Nodup → l.find? (·.1 == k) = some x := by
  intro l
  induction l with
  | nil => intro x hx; cases hx
  | cons a l ih =>
    intro x hx hk hnd
    rw [List.map_cons, List.nodup_cons] at hnd
    by_cases ha : a.1 = k
    · have : a = x := by
        cases hx with
        | head => rfl
        | tail _ h =>
          exact absurd (List.mem_map.mpr ⟨x, h, by rw [hk, ha]⟩) hnd.1
      subst this
      simp [List.find?, ha]
    · have hx' : x ∈ l := by
        cases hx with
        | head => exact absurd hk ha
        | tail _ h => exact h
      have : (a.1 == k) = false := by simpa using ha
      simp only [List.find?, this]
      exact ih x hx' hk hnd.2

theorem find_key_none (k : String) (l : List (String × Val)) (h : ∀ y ∈ l, y.1 ≠ k) : l.find? (·.1 == k) = none := by
  induction l with
  | nil => rfl
  | cons a l ih =>
    have : (a.1 == k) = false := by simpa using h a (List.mem_cons_self ..)
    simp only [List.find?, this]
    exact ih (fun y hy => h y (List.mem_cons_of_mem _ hy))

/-- looking a key up does not depend on the order in which the (distinct) keys were inserted -/
theorem payloadGet_perm (p p' : List (String × Val)) (hperm : p.Perm p') (hnd : (p.map (·.1)).Nodup) (k : String) :
    payloadGet? p' k = payloadGet? p k := by
  have hnd' : (p'.map (·.1)).Nodup := (hperm.map (·.1)).nodup_iff.mp hnd
  unfold payloadGet?
  by_cases hex : ∃ x ∈ p, x.1 = k
  · obtain ⟨x, hx, hk⟩ := hex
    rw [find_key_unique k p x hx hk hnd, find_key_unique k p' x (hperm.mem_iff.mp hx) hk hnd']
  · have hn : ∀ y ∈ p, y.1 ≠ k := fun y hy e => hex ⟨y, hy, e⟩
    rw [find_key_none k p hn, find_key_none k p' (fun y hy => hn y (hperm.mem_iff.mpr hy))]

/-- **The bytes written for a dict depend on the mapping, not on the insertion order of its keys**:
two payloads that are permutations of each other (distinct keys) are written identically — the
fields go out in the order of the *definition*, which is the order the reader expects. -/
theorem writeDict_order_irrelevant (h : Nat) (fs : List (String × Ty)) (an : Bool) (p p' : List (String × Val))
    (hperm : p.Perm p') (hnd : (p.map (·.1)).Nodup) :
    writeDictPayload h fs an p' = writeDictPayload h fs an p := by
  have ho : orderDict fs p' = orderDict fs p := by
    unfold orderDict
    rw [hperm.length_eq.symm]
    split
    · rfl
    · congr 1
      funext f
      rw [payloadGet_perm p p' hperm hnd f.1]
  unfold writeDictPayload
  rw [ho]

/-- a payload already in definition order is what `writeImpl` gets -/
example : orderDict [("a", .int 1 false), ("b", .int 2 false)] [("b", .int 7), ("a", .int 3)] = some [("a", .int 3), ("b", .int 7)] := by
  rfl


end ReplayModel.C16
