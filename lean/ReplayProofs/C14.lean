/-
C14 — results serialise to JSON and the CLI prints exactly one JSON document.
-/
import ReplayModel.JsonOut
import ReplayModel.Controller
import ReplayModel.World
import ReplayModel.Play
import ReplayModel.Generated.Facts
namespace ReplayModel.C14
open ReplayModel

/-- **Serialisation can only fail on a bad dict key**: a term all of whose dict keys are
str / int / float / bool / None is accepted by the shipped encoder, whatever else it
contains (objects, bytes, tuples, nesting to any depth; cycles cannot occur). -/
theorem encodable_of_keysOK : ∀ t : PyTerm, keysOK t = true → encodable t = true := by
  intro t
  exact PyTerm.rec (motive_1 := fun t => keysOK t = true → encodable t = true)
    (motive_2 := fun xs => keysOKList xs = true → encodableList xs = true)
    (motive_3 := fun kvs => keysOKKVs kvs = true → encodableKVs kvs = true)
    (motive_4 := fun fs => keysOKFields fs = true → encodableFields fs = true)
    (motive_5 := fun kv => keysOK kv.2 = true → encodable kv.2 = true)
    (motive_6 := fun f => keysOK f.2 = true → encodable f.2 = true)
    (by intro _; rfl) (by intro _ _; rfl) (by intro _ _; rfl) (by intro _ _; rfl) (by intro _ _; rfl) (by intro _ _; rfl)
    (by intro xs ih h; simpa [encodable, keysOK] using ih (by simpa [keysOK] using h))
    (by intro xs ih h; simpa [encodable, keysOK] using ih (by simpa [keysOK] using h))
    (by intro kvs ih h; simpa [encodable, keysOK] using ih (by simpa [keysOK] using h))
    (by intro _ fs ih h; simpa [encodable, keysOK] using ih (by simpa [keysOK] using h))
    (by intro _ _; rfl)
    (by intro _; rfl)
    (by
      intro x xs ih1 ih2 h
      simp only [keysOKList, Bool.and_eq_true] at h
      simp only [encodableList, Bool.and_eq_true]
      exact ⟨ih1 h.1, ih2 h.2⟩)
    (by intro _; rfl)
    (by
      intro kv rest ih1 ih2 h
      obtain ⟨k, v⟩ := kv
      simp only [keysOKKVs, Bool.and_eq_true] at h
      simp only [encodableKVs, Bool.and_eq_true]
      exact ⟨⟨h.1.1, ih1 h.1.2⟩, ih2 h.2⟩)
    (by intro _; rfl)
    (by
      intro f rest ih1 ih2 h
      obtain ⟨n, v⟩ := f
      simp only [keysOKFields, Bool.and_eq_true] at h
      simp only [encodableFields, Bool.and_eq_true]
      exact ⟨ih1 h.1, ih2 h.2⟩)
    (by intro k v _ ih h; exact ih h)
    (by intro n v ih h; exact ih h)
    t

/-- a tuple (or bytes) key is what makes `json.dumps` raise -/
theorem tuple_key_counterexample : encodable (.dict [(.tuple [.int 1, .int 0], .int 5)]) = false := by
  decide +kernel

/-! ### nothing in the packet handlers writes to standard output -/

theorem put_stdout (w : World) (e : Entity) : (w.put e).stdout = w.stdout := rfl

theorem finish_stdout (w : World) (i : Int) (sp : Bool) : (finishPlayer w i sp).stdout = w.stdout := by
  unfold finishPlayer; split <;> rfl

/-- **Playing any packet leaves standard output untouched**: for every dialect, packet, id
and value (the model has no output statement in any handler; the tie is the CLI run and the
regenerated list of print sites below). -/
theorem step_stdout (cfg : Config) (w : World) (p : Packet) : (step cfg w p).world.stdout = w.stdout := by
  unfold step
  split
  all_goals first
    | rfl
    | (unfold stepLookup; split <;> rfl)
    | (unfold playerCreate
       split
       · simp only; split
         · rfl
         · simp only [finish_stdout, put_stdout]
       · split
         · rfl
         · simp only; split
           · rfl
           · simp only [finish_stdout, put_stdout])
    | (unfold stepEntityCreate
       split
       · rfl
       · split
         · rfl
         · simp only; split
           · rfl
           · split <;> rfl)
    | (unfold stepEntityProperty; split
       · rfl
       · simp only; split <;> rfl)
    | (unfold stepEntityMethod; split <;> rfl)
    | (unfold stepNested; split
       · rfl
       · split
         · rfl
         · rfl
         · simp only; split <;> rfl)
    | (unfold stepPosition; split <;> rfl)
    | (unfold stepPlayerPosition
       split
       · split
         · simp only; split <;> rfl
         · rfl
       · split
         · split <;> rfl
         · rfl)

theorem playPackets_stdout (jsonOk : Bytes → Bool) (cfg : Config) (strict : Bool) (ps : List NetPacket) :
    ∀ (w : World) (i : Nat) (f : List (Nat × Err)), (playPackets jsonOk cfg strict w i ps f).1.stdout = w.stdout := by
  induction ps with
  | nil => intro w i f; rfl
  | cons np rest ih =>
    intro w i f
    have h1 : (stepNet jsonOk cfg w np).world.stdout = w.stdout := by
      unfold stepNet
      split
      · rfl
      · split
        · rfl
        · exact step_stdout cfg w _
    unfold playPackets
    simp only
    cases (stepNet jsonOk cfg w np).err with
    | none => rw [ih]; exact h1
    | some e =>
      cases strict
      · simp only [Bool.false_eq_true, if_false]; rw [ih]; exact h1
      · exact h1

/-- playing a whole stream never writes to standard output -/
theorem play_stdout_empty (jsonOk : Bytes → Bool) (cfg : Config) (strict : Bool) (stream : Bytes) :
    (play jsonOk cfg strict {} stream).world.stdout = [] :=
  playPackets_stdout jsonOk cfg strict _ {} 0 []

/-! ### facts regenerated from /repo -/

def allowedPrintSite (s : String × String) : Bool :=
  s == ("replay_parser.py", "<module>") ||                       -- the one JSON document of the CLI
  s == ("replay_unpack/replay_reader.py", "_save_decrypted_data") ||   -- only with dump_binary=True
  s.2 == "onSetConsumable"                                       -- never registered as a callback

/-- every output statement in the package is one of the three known sites … -/
theorem printSites_fact : Generated.printSites.all allowedPrintSite = true := by decide

/-- … `onSetConsumable` is not registered by any bundled controller … -/
theorem onSetConsumable_unsubscribed_fact : Generated.subscribedCallbacks.contains "onSetConsumable" = false := by decide

/-- … and the parser never asks the reader for its debugging dump -/
theorem parser_no_dump_fact : Generated.parserDumpBinary = false := by decide

/-! ### the summary of the controller fold is serialisable -/

/-- a dict with integer keys -/
def intDict {α : Type} (f : α → PyTerm) (d : List (Int × α)) : PyTerm :=
  .dict (d.map fun kv => (.int kv.1, f kv.2))

/-- a dict with string keys -/
def strDict {α : Type} (f : α → PyTerm) (d : List (String × α)) : PyTerm :=
  .dict (d.map fun kv => (.str kv.1, f kv.2))

def optTerm {α : Type} (f : α → PyTerm) : Option α → PyTerm
  | none => .none
  | some a => f a

/-- the summary of the modelled fold as the Python structure `get_info` returns (the fields the
fold produces; same names as in the controllers) -/
def summaryTerm (s : Summary) : PyTerm :=
  .dict [
    (.str "achievements", intDict (intDict PyTerm.int) s.achievements),
    (.str "ribbons", intDict (intDict PyTerm.int) s.ribbons),
    (.str "players", intDict (strDict PyTerm.str) s.players),
    (.str "battle_result", optTerm (fun r => .dict [(.str "winner_team_id", .int r.1), (.str "victory_type", .int r.2)]) s.battleResult),
    (.str "damage_map", intDict PyTerm.str s.damage),
    (.str "shots_damage_map", intDict (intDict PyTerm.int) s.shots),
    (.str "death_map", .list (s.deaths.map fun d => .tuple [.int d.1, .int d.2.1, .int d.2.2])),
    (.str "map", optTerm (fun b => .bytes (String.ofList (b.map (fun c => Char.ofNat c.toNat)))) s.map),
    (.str "player_id", optTerm PyTerm.int s.playerId),
    (.str "arena_id", optTerm PyTerm.int s.arenaId),
    (.str "planes", intDict PyTerm.int s.planes)]

theorem keysOK_intDict {α : Type} (f : α → PyTerm) (hf : ∀ a, keysOK (f a) = true) (d : List (Int × α)) :
    keysOK (intDict f d) = true := by
  unfold intDict
  simp only [keysOK]
  induction d with
  | nil => rfl
  | cons kv rest ih => simp [keysOKKVs, PyTerm.keyOK, hf, ih]

theorem keysOK_strDict {α : Type} (f : α → PyTerm) (hf : ∀ a, keysOK (f a) = true) (d : List (String × α)) :
    keysOK (strDict f d) = true := by
  unfold strDict
  simp only [keysOK]
  induction d with
  | nil => rfl
  | cons kv rest ih => simp [keysOKKVs, PyTerm.keyOK, hf, ih]

theorem keysOK_optTerm {α : Type} (f : α → PyTerm) (hf : ∀ a, keysOK (f a) = true) (o : Option α) :
    keysOK (optTerm f o) = true := by
  cases o <;> simp [optTerm, keysOK, hf]

theorem keysOK_deaths (ds : List (Int × Int × Int)) :
    keysOKList (ds.map fun d => PyTerm.tuple [.int d.1, .int d.2.1, .int d.2.2]) = true := by
  induction ds with
  | nil => rfl
  | cons d rest ih => simp [keysOKList, keysOK, ih]

/-- **Every summary the fold can produce is serialisable** — for every sequence of events (any
ids, counts, names): all dict keys anywhere in the structure are ints or strings, so
`json.dumps(..., cls=DefaultEncoder)` cannot raise on it (`encodable_of_keysOK`). What would
break it is exactly `tuple_key_counterexample`: a compound key. -/
theorem summary_keysOK (s : Summary) : keysOK (summaryTerm s) = true := by
  have hi : ∀ i : Int, keysOK (PyTerm.int i) = true := fun _ => rfl
  have hs : ∀ x : String, keysOK (PyTerm.str x) = true := fun _ => rfl
  unfold summaryTerm
  simp only [keysOK, keysOKKVs, PyTerm.keyOK, Bool.true_and, Bool.and_true, Bool.and_eq_true]
  refine ⟨?_, ?_, ?_, ?_, ?_, ?_, ?_, ?_, ?_, ?_, ?_⟩
  · exact keysOK_intDict _ (fun d => keysOK_intDict _ hi d) _
  · exact keysOK_intDict _ (fun d => keysOK_intDict _ hi d) _
  · exact keysOK_intDict _ (fun d => keysOK_strDict _ hs d) _
  · exact keysOK_optTerm _ (fun r => by simp [keysOK, keysOKKVs, PyTerm.keyOK]) _
  · exact keysOK_intDict _ hs _
  · exact keysOK_intDict _ (fun d => keysOK_intDict _ hi d) _
  · exact keysOK_deaths _
  · exact keysOK_optTerm _ (fun _ => rfl) _
  · exact keysOK_optTerm _ hi _
  · exact keysOK_optTerm _ hi _
  · exact keysOK_intDict _ hi _

theorem summary_encodable (es : List Event) : encodable (summaryTerm (summarize es)) = true :=
  encodable_of_keysOK _ (summary_keysOK _)

/-- non-trivial instance: two deaths, an achievement, a roster row -/
example : encodable (summaryTerm (summarize [.death 1 2 3, .death 2 2 4, .achievement 7 9, .roster 5 [("name", "x")]])) = true :=
  summary_encodable _


/-! ### exactly one JSON document -/

theorem toks_ne_nil (t : PyTerm) : toks t ≠ [] := by
  cases t <;> simp [toks]

theorem toksList_ne_nil (x : PyTerm) (xs : List PyTerm) : toksList (x :: xs) ≠ [] := by
  intro h
  simp only [toksList] at h
  have := toks_ne_nil x
  cases hx : toks x with
  | nil => exact this hx
  | cons a b => simp [hx] at h

theorem toksKVs_ne_nil (kv : PyTerm × PyTerm) (rest : List (PyTerm × PyTerm)) : toksKVs (kv :: rest) ≠ [] := by
  obtain ⟨k, v⟩ := kv
  simp [toksKVs]

theorem toksFields_ne_nil (f : String × PyTerm) (rest : List (String × PyTerm)) : toksFields (f :: rest) ≠ [] := by
  obtain ⟨n, v⟩ := f
  simp [toksFields]

/-- **What the encoder writes is exactly one JSON value.** For every term the shipped encoder
accepts — any nesting of lists, tuples, dicts with accepted keys, objects (through `__dict__`),
bytes and other objects (through `str`) — the token sequence of the output is derivable as a
single value of the JSON grammar: brackets balanced, members `"key": value`, commas exactly
between neighbours, nothing before or after. -/
theorem dumps_is_one_document : ∀ t : PyTerm, encodable t = true → JValue (toks t) := by
  intro t
  exact PyTerm.rec (motive_1 := fun t => encodable t = true → JValue (toks t))
    (motive_2 := fun xs => encodableList xs = true → JElems (toksList xs))
    (motive_3 := fun kvs => encodableKVs kvs = true → JMembers (toksKVs kvs))
    (motive_4 := fun fs => encodableFields fs = true → JMembers (toksFields fs))
    (motive_5 := fun kv => encodable kv.2 = true → JValue (toks kv.2))
    (motive_6 := fun f => encodable f.2 = true → JValue (toks f.2))
    (by intro _; exact .atom _) (by intro b _; exact .atom _) (by intro i _; exact .atom _) (by intro r _; exact .atom _)
    (by intro s _; exact .str _) (by intro h _; exact .str _)
    (by intro xs ih h; exact .arr _ (ih (by simpa [encodable] using h)))
    (by intro xs ih h; exact .arr _ (ih (by simpa [encodable] using h)))
    (by intro kvs ih h; exact .obj _ (ih (by simpa [encodable] using h)))
    (by intro _ fs ih h; exact .obj _ (ih (by simpa [encodable] using h)))
    (by intro r _; exact .str _)
    (by intro _; exact .nil)
    (by
      intro x xs ih1 ih2 h
      simp only [encodableList, Bool.and_eq_true] at h
      cases xs with
      | nil => simpa [toksList] using JElems.one _ (ih1 h.1)
      | cons y ys =>
        have := JElems.cons _ _ (ih1 h.1) (ih2 h.2) (toksList_ne_nil y ys)
        simpa [toksList] using this)
    (by intro _; exact .nil)
    (by
      intro kv rest ih1 ih2 h
      obtain ⟨k, v⟩ := kv
      simp only [encodableKVs, Bool.and_eq_true] at h
      cases rest with
      | nil => simpa [toksKVs] using JMembers.one (keyText k) _ (ih1 h.1.2)
      | cons y ys =>
        have := JMembers.cons (keyText k) _ _ (ih1 h.1.2) (ih2 h.2) (toksKVs_ne_nil y ys)
        simpa [toksKVs] using this)
    (by intro _; exact .nil)
    (by
      intro f rest ih1 ih2 h
      obtain ⟨n, v⟩ := f
      simp only [encodableFields, Bool.and_eq_true] at h
      cases rest with
      | nil => simpa [toksFields] using JMembers.one n _ (ih1 h.1)
      | cons y ys =>
        have := JMembers.cons n _ _ (ih1 h.1) (ih2 h.2) (toksFields_ne_nil y ys)
        simpa [toksFields] using this)
    (by intro k v _ ih h; exact ih h)
    (by intro n v ih h; exact ih h)
    t

/-- the CLI's standard output for a parse that yields a summary: nothing from the play
(`play_stdout_empty`) and then the one document `print(json.dumps(...))` writes -/
theorem summary_is_one_document (es : List Event) : JValue (toks (summaryTerm (summarize es))) :=
  dumps_is_one_document _ (summary_encodable es)


/-- a nested instance: `{"a": [1, {"b": null}], "7": "x"}` -/
example : JValue (toks (.dict [(.str "a", .list [.int 1, .dict [(.str "b", .none)]]), (.int 7, .str "x")])) :=
  dumps_is_one_document _ (by decide +kernel)

end ReplayModel.C14
