/-
C14 — results serialise to JSON and the CLI prints exactly one JSON document.
-/
import ReplayModel.JsonOut
import ReplayModel.World
import ReplayModel.Play
import ReplayModel.Generated.Facts
namespace ReplayModel.C14
open ReplayModel

/-- **Serialisation can only fail on a bad dict key**: a term all of whose dict keys are
str / int / float / bool / None is accepted by the shipped encoder, whatever else it
contains (objects, bytes, tuples, nesting to any depth; cycles cannot occur). -/
theorem encodable_of_keysOK : ∀ t : PyTerm, keysOK t = true → encodable t = true := by
  intro t
  exact PyTerm.rec (motive_1 := fun t => keysOK t = true → encodable t = true)
    (motive_2 := fun xs => keysOKList xs = true → encodableList xs = true)
    (motive_3 := fun kvs => keysOKKVs kvs = true → encodableKVs kvs = true)
    (motive_4 := fun fs => keysOKFields fs = true → encodableFields fs = true)
    (motive_5 := fun kv => keysOK kv.2 = true → encodable kv.2 = true)
    (motive_6 := fun f => keysOK f.2 = true → encodable f.2 = true)
    (by intro _; rfl) (by intro _ _; rfl) (by intro _ _; rfl) (by intro _ _; rfl) (by intro _ _; rfl) (by intro _ _; rfl)
    (by intro xs ih h; simpa [encodable, keysOK] using ih (by simpa [keysOK] using h))
    (by intro xs ih h; simpa [encodable, keysOK] using ih (by simpa [keysOK] using h))
    (by intro kvs ih h; simpa [encodable, keysOK] using ih (by simpa [keysOK] using h))
    (by intro _ fs ih h; simpa [encodable, keysOK] using ih (by simpa [keysOK] using h))
    (by intro _ _; rfl)
    (by intro _; rfl)
    (by
      intro x xs ih1 ih2 h
      simp only [keysOKList, Bool.and_eq_true] at h
      simp only [encodableList, Bool.and_eq_true]
      exact ⟨ih1 h.1, ih2 h.2⟩)
    (by intro _; rfl)
    (by
      intro kv rest ih1 ih2 h
      obtain ⟨k, v⟩ := kv
      simp only [keysOKKVs, Bool.and_eq_true] at h
      simp only [encodableKVs, Bool.and_eq_true]
      exact ⟨⟨h.1.1, ih1 h.1.2⟩, ih2 h.2⟩)
    (by intro _; rfl)
    (by
      intro f rest ih1 ih2 h
      obtain ⟨n, v⟩ := f
      simp only [keysOKFields, Bool.and_eq_true] at h
      simp only [encodableFields, Bool.and_eq_true]
      exact ⟨ih1 h.1, ih2 h.2⟩)
    (by intro k v _ ih h; exact ih h)
    (by intro n v ih h; exact ih h)
    t

/-- a tuple (or bytes) key is what makes `json.dumps` raise -/
theorem tuple_key_counterexample : encodable (.dict [(.tuple [.int 1, .int 0], .int 5)]) = false := by
  decide +kernel

/-! ### nothing in the packet handlers writes to standard output -/

theorem put_stdout (w : World) (e : Entity) : (w.put e).stdout = w.stdout := rfl

theorem finish_stdout (w : World) (i : Int) (sp : Bool) : (finishPlayer w i sp).stdout = w.stdout := by
  unfold finishPlayer; split <;> rfl

/-- **Playing any packet leaves standard output untouched**: for every dialect, packet, id
and value (the model has no output statement in any handler; the tie is the CLI run and the
regenerated list of print sites below). -/
theorem step_stdout (cfg : Config) (w : World) (p : Packet) : (step cfg w p).world.stdout = w.stdout := by
  unfold step
  split
  all_goals first
    | rfl
    | (unfold stepLookup; split <;> rfl)
    | (unfold playerCreate
       split
       · simp only; split
         · rfl
         · simp only [finish_stdout, put_stdout]
       · split
         · rfl
         · simp only; split
           · rfl
           · simp only [finish_stdout, put_stdout])
    | (unfold stepEntityCreate
       split
       · rfl
       · split
         · rfl
         · simp only; split
           · rfl
           · split <;> rfl)
    | (unfold stepEntityProperty; split
       · rfl
       · simp only; split <;> rfl)
    | (unfold stepEntityMethod; split <;> rfl)
    | (unfold stepNested; split
       · rfl
       · split
         · rfl
         · rfl
         · simp only; split <;> rfl)
    | (unfold stepPosition; split <;> rfl)
    | (unfold stepPlayerPosition
       split
       · split
         · simp only; split <;> rfl
         · rfl
       · split
         · split <;> rfl
         · rfl)

theorem playPackets_stdout (jsonOk : Bytes → Bool) (cfg : Config) (strict : Bool) (ps : List NetPacket) :
    ∀ (w : World) (i : Nat) (f : List (Nat × Err)), (playPackets jsonOk cfg strict w i ps f).1.stdout = w.stdout := by
  induction ps with
  | nil => intro w i f; rfl
  | cons np rest ih =>
    intro w i f
    have h1 : (stepNet jsonOk cfg w np).world.stdout = w.stdout := by
      unfold stepNet
      split
      · rfl
      · split
        · rfl
        · exact step_stdout cfg w _
    unfold playPackets
    simp only
    cases (stepNet jsonOk cfg w np).err with
    | none => rw [ih]; exact h1
    | some e =>
      cases strict
      · simp only [Bool.false_eq_true, if_false]; rw [ih]; exact h1
      · exact h1

/-- playing a whole stream never writes to standard output -/
theorem play_stdout_empty (jsonOk : Bytes → Bool) (cfg : Config) (strict : Bool) (stream : Bytes) :
    (play jsonOk cfg strict {} stream).world.stdout = [] :=
  playPackets_stdout jsonOk cfg strict _ {} 0 []

/-! ### facts regenerated from /repo -/

def allowedPrintSite (s : String × String) : Bool :=
  s == ("replay_parser.py", "<module>") ||                       -- the one JSON document of the CLI
  s == ("replay_unpack/replay_reader.py", "_save_decrypted_data") ||   -- only with dump_binary=True
  s.2 == "onSetConsumable"                                       -- never registered as a callback

/-- every output statement in the package is one of the three known sites … -/
theorem printSites_fact : Generated.printSites.all allowedPrintSite = true := by decide

/-- … `onSetConsumable` is not registered by any bundled controller … -/
theorem onSetConsumable_unsubscribed_fact : Generated.subscribedCallbacks.contains "onSetConsumable" = false := by decide

/-- … and the parser never asks the reader for its debugging dump -/
theorem parser_no_dump_fact : Generated.parserDumpBinary = false := by decide

end ReplayModel.C14
