/-
C09 — the battle summary is a faithful function of the recorded events.
-/
import ReplayModel.Controller
import ReplayModel.Extract
namespace ReplayModel.C09
open ReplayModel

/-! ### generic facts about the counters -/

theorem find_upd_same {α : Type} (d : List (Int × α)) (k : Int) (f : Option α → α)
    (h : d.any (fun p => p.1 == k) = true) :
    ((d.map (fun p => if p.1 == k then (k, f (some p.2)) else p)).find? (fun p => p.1 == k)).map (·.2) =
      some (f ((d.find? (fun p => p.1 == k)).map (·.2))) := by
  induction d with
  | nil => simp at h
  | cons p d ih =>
    simp only [List.map_cons, List.find?_cons]
    by_cases hp : p.1 = k
    · simp [hp]
    · have hp' : (p.1 == k) = false := by simpa using hp
      simp only [hp', Bool.false_eq_true, if_false]
      simp only [List.any_cons, hp', Bool.false_or] at h
      exact ih h

theorem find_upd_other {α : Type} (d : List (Int × α)) (k k' : Int) (f : Option α → α) (hne : k' ≠ k) :
    (d.map (fun p => if p.1 == k then (k, f (some p.2)) else p)).find? (fun p => p.1 == k') =
      d.find? (fun p => p.1 == k') := by
  induction d with
  | nil => rfl
  | cons p d ih =>
    simp only [List.map_cons, List.find?_cons]
    by_cases hp : p.1 = k
    · have h1 : (p.1 == k) = true := by simpa using hp
      have h2 : (k == k') = false := by simpa using (fun h => hne h.symm)
      have h3 : (p.1 == k') = false := by rw [hp]; exact h2
      simp only [h1, if_true, h2, h3, Bool.false_eq_true, if_false]
      exact ih
    · have h1 : (p.1 == k) = false := by simpa using hp
      simp only [h1, Bool.false_eq_true, if_false]
      split
      · rfl
      · exact ih

theorem find_none_of_not_any {α : Type} (d : List (Int × α)) (k : Int) (h : ¬ d.any (fun p => p.1 == k) = true) :
    d.find? (fun p => p.1 == k) = none := by
  rw [List.find?_eq_none]
  intro x hx hc
  exact h (List.any_eq_true.mpr ⟨x, hx, hc⟩)

theorem iget_isetD_same {α : Type} (d : List (Int × α)) (k : Int) (f : Option α → α) :
    iget? (isetD d k f) k = some (f (iget? d k)) := by
  unfold isetD iget?
  split
  · rename_i h; exact find_upd_same d k f h
  · rename_i h
    rw [List.find?_append, find_none_of_not_any d k h]
    simp

theorem iget_isetD_other {α : Type} (d : List (Int × α)) (k k' : Int) (f : Option α → α) (hne : k' ≠ k) :
    iget? (isetD d k f) k' = iget? d k' := by
  unfold isetD iget?
  split
  · rw [find_upd_other d k k' f hne]
  · rw [List.find?_append]
    have : (k == k') = false := by simpa using (fun h => hne h.symm)
    cases hd : d.find? (fun p => p.1 == k') <;> simp [this]

/-- value of a counter, 0 when the key was never counted -/
def cnt (d : List (Int × Int)) (k : Int) : Int := (iget? d k).getD 0

def cnt2 (m : List (Int × List (Int × Int))) (a b : Int) : Int := cnt ((iget? m a).getD []) b

theorem cnt_bump (d : List (Int × Int)) (k k' n : Int) :
    cnt (bump d k n) k' = cnt d k' + (if k' = k then n else 0) := by
  unfold cnt bump
  by_cases h : k' = k
  · subst h; rw [iget_isetD_same]; simp
  · rw [iget_isetD_other _ _ _ _ h]; simp [h]

theorem cnt2_bump2 (m : List (Int × List (Int × Int))) (a b a' b' n : Int) :
    cnt2 (bump2 m a b n) a' b' = cnt2 m a' b' + (if a' = a ∧ b' = b then n else 0) := by
  unfold cnt2 bump2
  by_cases h : a' = a
  · subst h
    rw [iget_isetD_same]
    simp only [Option.getD_some, cnt_bump]
    by_cases hb : b' = b <;> simp [hb]
  · rw [iget_isetD_other _ _ _ _ h]; simp [h]

/-! ### the summary as a fold -/

def deathOf : Event → Option (Int × Int × Int)
  | .death v k t => some (v, k, t)
  | _ => none

theorem deaths_fold (es : List Event) : ∀ s : Summary,
    (es.foldl Summary.apply s).deaths = s.deaths ++ es.filterMap deathOf := by
  induction es with
  | nil => intro s; simp
  | cons e es ih =>
    intro s
    simp only [List.foldl_cons, ih]
    cases e <;> simp [Summary.apply, deathOf, List.filterMap_cons]

/-- **The death list is the ordered sub-sequence of death events.** -/
theorem deaths_ordered (es : List Event) : (summarize es).deaths = es.filterMap deathOf := by
  unfold summarize; rw [deaths_fold]; rfl

/-- how many times (avatar, achievement) was earned in a trace -/
def achCount (a i : Int) : List Event → Int
  | [] => 0
  | .achievement a' i' :: es => (if a = a' ∧ i = i' then 1 else 0) + achCount a i es
  | _ :: es => achCount a i es

theorem ach_fold (a i : Int) (es : List Event) : ∀ s : Summary,
    cnt2 (es.foldl Summary.apply s).achievements a i = cnt2 s.achievements a i + achCount a i es := by
  induction es with
  | nil => intro s; simp [achCount]
  | cons e es ih =>
    intro s
    simp only [List.foldl_cons, ih]
    cases e <;> simp [Summary.apply, achCount]
    rename_i a' i'
    rw [cnt2_bump2]; omega

/-- **Achievements are counted each time they occur** (never overwritten). -/
theorem achievements_count (es : List Event) (a i : Int) :
    cnt2 (summarize es).achievements a i = achCount a i es := by
  unfold summarize; rw [ach_fold]; simp [cnt2, cnt, iget?]

/-- total damage dealt to `v` by `att` in a trace -/
def shotSum (v att : Int) : List Event → Int
  | [] => 0
  | .shot v' a' n :: es => (if v = v' ∧ att = a' then n else 0) + shotSum v att es
  | _ :: es => shotSum v att es

theorem shot_fold (v att : Int) (es : List Event) : ∀ s : Summary,
    cnt2 (es.foldl Summary.apply s).shots v att = cnt2 s.shots v att + shotSum v att es := by
  induction es with
  | nil => intro s; simp [shotSum]
  | cons e es ih =>
    intro s
    simp only [List.foldl_cons, ih]
    cases e <;> simp [Summary.apply, shotSum]
    rename_i v' a' n
    rw [cnt2_bump2]; omega

/-- **Per-victim / per-attacker damage totals are sums over all matching events.** -/
theorem shots_damage_sum (es : List Event) (v att : Int) :
    cnt2 (summarize es).shots v att = shotSum v att es := by
  unfold summarize; rw [shot_fold]; simp [cnt2, cnt, iget?]

def planeSum (att : Int) : List Event → Int
  | [] => 0
  | .planeDeath a' n :: es => (if att = a' then (n : Int) else 0) + planeSum att es
  | _ :: es => planeSum att es

theorem plane_fold (att : Int) (es : List Event) : ∀ s : Summary,
    cnt (es.foldl Summary.apply s).planes att = cnt s.planes att + planeSum att es := by
  induction es with
  | nil => intro s; simp [planeSum]
  | cons e es ih =>
    intro s
    simp only [List.foldl_cons, ih]
    cases e <;> simp [Summary.apply, planeSum]
    rename_i a' n
    rw [cnt_bump]; omega

/-- **Destroyed planes are counted per attacker over all events.** -/
theorem planes_count (es : List Event) (att : Int) :
    cnt (summarize es).planes att = planeSum att es := by
  unfold summarize; rw [plane_fold]; simp [cnt, iget?]

theorem summarize_append (es : List Event) (e : Event) :
    summarize (es ++ [e]) = (summarize es).apply e := by
  simp [summarize, List.foldl_append]

/-! ### roster: id-keyed, right-biased merge in stream order -/

theorem mergeRow_last (old : List (String × String)) (row : List (String × String)) (k v : String) :
    (mergeRow old (row ++ [(k, v)])).find? (·.1 == k) = some (k, v) := by
  unfold mergeRow
  rw [List.foldl_append]
  simp only [List.foldl_cons, List.foldl_nil]
  generalize row.foldl _ old = acc
  split
  · rename_i h
    revert h
    induction acc with
    | nil => intro h; simp at h
    | cons p ps ih =>
      intro h
      simp only [List.map_cons, List.find?_cons]
      by_cases hp : p.1 = k
      · simp [hp]
      · have hp' : (p.1 == k) = false := by simpa using hp
        simp only [hp', Bool.false_eq_true, if_false]
        simp only [List.any_cons, hp', Bool.false_or] at h
        exact ih h
  · rename_i h
    have hn : acc.find? (fun p => p.1 == k) = none := by
      rw [List.find?_eq_none]
      intro x hx hc
      exact h (List.any_eq_true.mpr ⟨x, hx, hc⟩)
    rw [List.find?_append, hn]; simp

/-- a roster message for player `p` only touches player `p` -/
theorem roster_frame (s : Summary) (p q : Int) (row : List (String × String)) (h : q ≠ p) :
    iget? (s.apply (.roster p row)).players q = iget? s.players q := by
  simp only [Summary.apply]
  exact iget_isetD_other _ _ _ _ h

/-- … and merges into whatever was known about `p` before (right-biased) -/
theorem roster_merge (s : Summary) (p : Int) (row : List (String × String)) :
    iget? (s.apply (.roster p row)).players p = some (mergeRow ((iget? s.players p).getD []) row) := by
  simp only [Summary.apply]
  exact iget_isetD_same _ _ _

/-! ### nothing leaks from one kind of event into another field -/

theorem field_frame_death (s : Summary) (v k t : Int) :
    let s' := s.apply (.death v k t)
    s'.achievements = s.achievements ∧ s'.ribbons = s.ribbons ∧ s'.shots = s.shots ∧ s'.damage = s.damage ∧
    s'.planes = s.planes ∧ s'.players = s.players ∧ s'.battleResult = s.battleResult ∧ s'.map = s.map ∧
    s'.arenaId = s.arenaId ∧ s'.playerId = s.playerId := by
  simp [Summary.apply]

theorem field_frame_shot (s : Summary) (v a n : Int) :
    let s' := s.apply (.shot v a n)
    s'.deaths = s.deaths ∧ s'.achievements = s.achievements ∧ s'.ribbons = s.ribbons ∧ s'.damage = s.damage ∧
    s'.planes = s.planes ∧ s'.players = s.players ∧ s'.battleResult = s.battleResult ∧ s'.map = s.map := by
  simp [Summary.apply]

theorem field_frame_achievement (s : Summary) (a i : Int) :
    let s' := s.apply (.achievement a i)
    s'.deaths = s.deaths ∧ s'.shots = s.shots ∧ s'.ribbons = s.ribbons ∧ s'.damage = s.damage ∧
    s'.planes = s.planes ∧ s'.players = s.players ∧ s'.battleResult = s.battleResult ∧ s'.map = s.map := by
  simp [Summary.apply]

/-! ### map name -/

/-- **The map is the arena name minus the literal prefix `spaces/`** -/
theorem map_prefix (rest : Bytes) : stripSpaces (spacesPrefix ++ rest) = rest := by
  unfold stripSpaces
  have : spacesPrefix.isPrefixOf (spacesPrefix ++ rest) = true := by
    rw [List.isPrefixOf_iff_prefix]; exact List.prefix_append _ _
  simp [this]

/-- a name without the prefix is reported as it is — in particular nothing is stripped from
names that merely start with letters of the word (the repaired `lstrip` defect) -/
theorem map_no_prefix (name : Bytes) (h : spacesPrefix.isPrefixOf name = false) : stripSpaces name = name := by
  unfold stripSpaces; simp [h]

example : stripSpaces "spaces/s07_Advance".toUTF8.toList = "s07_Advance".toUTF8.toList := by decide +kernel
example : stripSpaces "spaces/spaces/x".toUTF8.toList = "spaces/x".toUTF8.toList := by decide +kernel

/-- the battle result is the last battle-end event -/
theorem battle_result_last (es : List Event) (t r : Int) :
    (summarize (es ++ [.battleEnd t r])).battleResult = some (t, r) := by
  rw [summarize_append]; rfl

/-- Non-vacuity: two deaths and a repeated achievement. -/
example : (summarize [.death 1 2 3, .achievement 7 9, .death 4 5 6, .achievement 7 9]).deaths = [(1, 2, 3), (4, 5, 6)] ∧
    cnt2 (summarize [.death 1 2 3, .achievement 7 9, .death 4 5 6, .achievement 7 9]).achievements 7 9 = 2 := by
  decide +kernel

/-! ### from the bytes of the stream (model: `ReplayModel/Extract.lean`) -/

/-- a log entry that is a well-formed `receiveVehicleDeath` call -/
def deathCall (e : LogEntry) : Option (Int × Int × Int) := (eventOfEntry e).bind deathOf

theorem eventsOfWorld_no_death (w : World) : (eventsOfWorld w).filterMap deathOf = [] := by
  unfold eventsOfWorld
  cases w.playerId <;> cases w.map <;> rfl

/-- **Deaths in the summary are the death calls of the stream, in stream order** — from the
bytes: every `Avatar.receiveVehicleDeath` call the played stream decodes to (victim, killer,
type as decoded by the version's own definitions) appears once, in call order, and nothing
else does. -/
theorem deaths_of_stream (jsonOk : Bytes → Bool) (defs : Defs) (masks : Masks) (dialect : Dialect) (strict : Bool) (stream : Bytes) :
    (summaryOfStream jsonOk defs masks dialect strict stream).deaths =
      (play jsonOk { defs := defs, masks := masks, dialect := dialect, reg := summaryRegistry } strict {} stream).world.log.filterMap deathCall := by
  unfold summaryOfStream
  simp only [deaths_ordered, List.filterMap_append, eventsOfWorld_no_death, List.append_nil, eventsOfLog,
    List.filterMap_filterMap]
  rfl

/-- events produced by callbacks: they never touch the player / map / arena fields -/
def isCallEvent : Event → Bool
  | .death .. | .achievement .. | .battleEnd .. | .arena .. => true
  | _ => false

theorem eventOfCall_isCall (key : String) (args : List Val) (ev : Event) (h : eventOfCall key args = some ev) :
    isCallEvent ev = true := by
  unfold eventOfCall at h
  split at h
  · split at h
    · cases h; rfl
    · cases h
  · split at h
    · split at h
      · cases h; rfl
      · cases h
    · split at h
      · split at h
        · cases h; rfl
        · cases h
      · split at h
        · split at h
          · cases h; rfl
          · cases h
        · cases h

theorem eventOfEntry_isCall (e : LogEntry) (ev : Event) (h : eventOfEntry e = some ev) : isCallEvent ev = true := by
  cases e with
  | method key sub eid args kwargs => exact eventOfCall_isCall key _ ev h
  | prop => cases h
  | nested => cases h

theorem calls_keep_ids (es : List Event) (h : ∀ e ∈ es, isCallEvent e = true) : ∀ s : Summary,
    (es.foldl Summary.apply s).playerId = s.playerId ∧ (es.foldl Summary.apply s).map = s.map := by
  induction es with
  | nil => intro s; exact ⟨rfl, rfl⟩
  | cons e es ih =>
    intro s
    obtain ⟨h1, h3⟩ := ih (fun x hx => h x (List.mem_cons_of_mem _ hx)) (s.apply e)
    have he := h e (List.mem_cons_self ..)
    simp only [List.foldl_cons, h1, h3]
    cases e <;> simp_all [Summary.apply, isCallEvent]

/-- the recording player's id and the map in the summary are those the player recorded from
the base-player and map packets (last one wins, `C05.player_id_base`), the map without its
`spaces/` prefix -/
theorem player_of_stream (jsonOk : Bytes → Bool) (defs : Defs) (masks : Masks) (dialect : Dialect) (strict : Bool) (stream : Bytes) :
    let w := (play jsonOk { defs := defs, masks := masks, dialect := dialect, reg := summaryRegistry } strict {} stream).world
    (summaryOfStream jsonOk defs masks dialect strict stream).playerId = w.playerId ∧
    (summaryOfStream jsonOk defs masks dialect strict stream).map = w.map.map stripSpaces := by
  intro w
  unfold summaryOfStream summarize
  rw [List.foldl_append]
  have hcalls : ∀ e ∈ eventsOfLog w.log, isCallEvent e = true := by
    intro e he
    unfold eventsOfLog at he
    obtain ⟨x, _, hx⟩ := List.mem_filterMap.mp he
    exact eventOfEntry_isCall x e hx
  obtain ⟨h1, h3⟩ := calls_keep_ids _ hcalls {}
  generalize (eventsOfLog w.log).foldl Summary.apply {} = s0 at h1 h3
  show ((eventsOfWorld w).foldl Summary.apply s0).playerId = _ ∧ _
  unfold eventsOfWorld
  cases w.playerId <;> cases w.map <;>
    simp_all [Summary.apply]

end ReplayModel.C09
