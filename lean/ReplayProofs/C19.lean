/-
C19 — an installed copy is complete (the packaging rule).
-/
import ReplayModel.Pack
namespace ReplayModel.C19
open ReplayModel

theorem mem_tailsOf {α : Type} (t : List α) : ∀ s : List α, t ∈ tailsOf s ↔ t <:+ s := by
  intro s
  induction s with
  | nil => simp [tailsOf, List.suffix_nil]
  | cons x xs ih =>
    simp only [tailsOf, List.mem_cons, ih]
    constructor
    · rintro (h | h)
      · rw [h]; exact List.suffix_refl _
      · exact h.trans (List.suffix_cons x xs)
    · intro h
      rcases List.suffix_cons_iff.mp h with h | h
      · left; exact h
      · right; exact h

/-- a star-free pattern segment matches exactly itself -/
theorem segMatch_literal (lit : List Char) (hl : '*' ∉ lit) : ∀ s : List Char, segMatch lit s = decide (lit = s) := by
  induction lit with
  | nil => intro s; cases s <;> simp [segMatch]
  | cons p ps ih =>
    intro s
    have hp : (p == '*') = false := by
      simp only [beq_eq_false_iff_ne, ne_eq]
      exact fun h => hl (h ▸ List.mem_cons_self ..)
    have hps : '*' ∉ ps := fun h => hl (List.mem_cons_of_mem _ h)
    cases s with
    | nil => simp [segMatch, hp]
    | cons c cs =>
      simp only [segMatch, hp, Bool.false_eq_true, if_false, ih hps cs]
      by_cases hpc : p = c <;> simp [hpc]

/-- **`*` followed by a literal matches exactly the names ending in that literal**
(`*.py`, `*.def`, `*.xml`). -/
theorem segMatch_star_suffix (lit : List Char) (hl : '*' ∉ lit) (s : List Char) :
    segMatch ('*' :: lit) s = true ↔ lit <:+ s := by
  simp only [segMatch, beq_self_eq_true, if_true, List.any_eq_true]
  constructor
  · rintro ⟨t, ht, hm⟩
    rw [segMatch_literal lit hl t] at hm
    simp only [decide_eq_true_eq] at hm
    rw [hm]; exact (mem_tailsOf t s).mp ht
  · intro h
    exact ⟨lit, (mem_tailsOf lit s).mpr h, by rw [segMatch_literal lit hl]; simp⟩

/-- **Completeness as a decision**: nothing is missing iff every needed file is shipped -/
theorem shipped_complete_iff (files : List String) (cfg : SetupCfg) (root script : String) :
    missing files cfg root script = [] ↔
      ∀ f ∈ files, neededFile root script f = true → shippedFile files (packagesOf files) cfg f = true := by
  unfold missing
  rw [List.filter_eq_nil_iff]
  constructor
  · intro h f hf hn
    have := h f hf
    simp only [hn, Bool.true_and, Bool.not_eq_true', Bool.not_eq_false] at this
    cases hs : shippedFile files (packagesOf files) cfg f with
    | true => rfl
    | false => simp [hs] at this
  · intro h f hf
    cases hn : neededFile root script f with
    | false => simp
    | true => simp [h f hf hn]

/-- a package directory contains `__init__.py`, and so does every directory above it -/
theorem package_has_init (files : List String) (d : String) (h : isPackage files d = true) :
    ∀ a ∈ ancestors d, files.contains (a ++ "/__init__.py") = true := by
  unfold isPackage at h
  simp only [Bool.and_eq_true, List.all_eq_true] at h
  exact h.2

/-- a Python module directly inside a package is shipped, whatever the data patterns are -/
theorem module_of_package_shipped (files pkgs : List String) (cfg : SetupCfg) (f : String)
    (hp : pkgs.contains (dirOf f) = true) (hpy : ".py".toList <:+ (baseOf f).toList) :
    shippedFile files pkgs cfg f = true := by
  unfold shippedFile
  have h1 : segMatch "*.py".toList (baseOf f).toList = true :=
    (segMatch_star_suffix ".py".toList (by decide) (baseOf f).toList).mpr hpy
  rw [hp, h1]
  simp

/-- the data patterns of `setup.py`: a definition file below a `scripts` directory of a
package is matched; `*` does not cross a directory separator -/
example : globMatch ["**", "scripts", "**", "*.def"] ["versions", "0_8_0", "scripts", "entity_defs", "Avatar.def"] = true := by
  decide +kernel
example : globMatch ["**", "scripts", "*.xml"] ["versions", "0_8_0", "scripts", "entities.xml"] = true := by
  decide +kernel
example : globMatch ["*.py"] ["fixtures", "CamouflageInfo.py"] = false := by decide +kernel
example : globMatch ["fixtures", "*.py"] ["fixtures", "CamouflageInfo.py"] = true := by decide +kernel

end ReplayModel.C19
