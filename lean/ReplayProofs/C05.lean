/-
C05 — entity state equals a last-writer-wins replay of creation and property packets.
-/
import ReplayModel.World
import ReplayModel.Play
import ReplayProofs.Lemmas.World
namespace ReplayModel.C05
open ReplayModel

/-- the entity a packet addresses (whose state it may write) -/
def target : Packet → Option Int
  | .basePlayerCreate id _ _ => some id
  | .cellPlayerCreate id _ => some id
  | .entityCreate id _ _ => some id
  | .entityProperty id _ _ => some (id : Int)
  | .entityMethod id _ _ => some (id : Int)
  | .nested id _ _ => some (id : Int)
  | .position id _ => some id
  | .playerPosition id1 _ _ => some id1
  | _ => none

@[simp] theorem get_log (w : World) (l : List LogEntry) (j : Int) :
    ({ w with log := l } : World).get? j = w.get? j := rfl
@[simp] theorem get_player (w : World) (x : Option Int) (j : Int) :
    ({ w with playerId := x } : World).get? j = w.get? j := rfl
@[simp] theorem get_map (w : World) (x : Option Bytes) (y : Option Int) (j : Int) :
    ({ w with map := x, arenaId := y } : World).get? j = w.get? j := rfl

theorem setClientProperty_id (reg : Registry) (e : Entity) (idx : Nat) (bs : Bytes) :
    (setClientProperty reg e idx bs).1.id = e.id := by
  unfold setClientProperty
  split
  · rfl
  · split
    · rfl
    · rfl

theorem createLoop_id (reg : Registry) (n : Nat) : ∀ (e : Entity) (bs : Bytes) (log : List LogEntry),
    (createLoop reg n e bs log).1.id = e.id := by
  induction n with
  | zero => intro e bs log; rfl
  | succ n ih =>
    intro e bs log
    unfold createLoop
    cases bs with
    | nil => rfl
    | cons k rest =>
      simp only
      have h1 := setClientProperty_id reg e k.toNat rest
      generalize setClientProperty reg e k.toNat rest = r at h1
      obtain ⟨e', rest', l, err⟩ := r
      simp only at h1 ⊢
      cases err with
      | some er => exact h1
      | none => simp only; rw [ih]; exact h1

theorem withVol_id (e : Entity) (kvs : List (String × Val)) : (e.withVol kvs).id = e.id := rfl
theorem setPose_id (e : Entity) (p : Pose) : (setPose e p).id = e.id := rfl
theorem new_id (m : Masks) (id : Int) (d : EntityDef) : (Entity.new m id d).id = id := rfl

theorem applyNested_id (reg : Registry) (e : Entity) (sl : Bool) (payload : Bytes)
    (e' : Entity) (l : List LogEntry) (r : Bool) (h : applyNested reg e sl payload = .ok (e', l, r)) :
    e'.id = e.id := by
  unfold applyNested at h
  simp only at h
  repeat' split at h
  all_goals first | (cases h; done) | skip
  all_goals (simp only [Except.ok.injEq, Prod.mk.injEq] at h; rw [← h.1])

theorem fillPlayer_id (ent : Entity) (value : Bytes) (b wp : Bool) :
    (fillPlayer ent value b wp).1.id = ent.id := by
  unfold fillPlayer
  split
  · rfl
  · split <;> rfl

/-- `r` differs from `w` at most at entity `id` -/
def Touches (w : World) (id : Int) (w' : World) : Prop := ∀ j, j ≠ id → w'.get? j = w.get? j

theorem touches_refl (w : World) (id : Int) : Touches w id w := fun _ _ => rfl

theorem touches_put (w : World) (id : Int) (e : Entity) (he : e.id = id) : Touches w id (w.put e) := by
  intro j hj
  exact World.get_put_other w e j (by rw [he]; exact hj)

theorem touches_log (w w' : World) (id : Int) (l : List LogEntry) (h : Touches w id w') :
    Touches w id { w' with log := l } := fun j hj => h j hj

theorem touches_finish (w w' : World) (id i : Int) (sp : Bool) (h : Touches w id w') :
    Touches w id (finishPlayer w' i sp) := by
  unfold finishPlayer
  split
  · exact fun j hj => h j hj
  · exact h

theorem playerCreate_frame (cfg : Config) (w : World) (id : Int) (value : Bytes) (b sp wp : Bool)
    (hwf : w.WF) : Touches w id (playerCreate cfg w id value b sp wp).world := by
  unfold playerCreate
  cases hget : w.get? id with
  | some ent =>
    have he : ent.id = id := World.get_wf w hwf id ent hget
    have hid := fillPlayer_id ent value b wp
    simp only
    split
    · exact touches_put w id _ (by rw [hid, he])
    · exact touches_finish w _ id id sp (touches_put w id _ (by rw [hid, he]))
  | none =>
    simp only
    split
    · exact touches_refl w id
    · rename_i d _
      have hid := fillPlayer_id (Entity.new cfg.masks id d) value b wp
      split
      · exact touches_refl w id
      · exact touches_finish w _ id id sp (touches_put w id _ (by rw [hid]; rfl))

theorem touches_ok (w : World) (id : Int) : Touches w id (ok w).world := touches_refl w id
theorem touches_fail (w : World) (id : Int) (e : Err) : Touches w id (fail w e).world := touches_refl w id

theorem stepEntityCreate_frame (cfg : Config) (w : World) (id ty : Int) (state : Bytes) :
    Touches w id (stepEntityCreate cfg w id ty state).world := by
  unfold stepEntityCreate
  split
  · exact touches_refl w id
  · rename_i d _
    split
    · exact touches_refl w id
    · rename_i c rest
      have hid := createLoop_id cfg.reg c.toNat (Entity.new cfg.masks id d) rest []
      simp only
      split
      · exact touches_log w w id _ (touches_refl w id)
      · split
        · intro j hj
          simp only [ok]
          rw [World.get_put_other _ _ j (by rw [hid]; exact hj)]
          rfl
        · exact touches_log w w id _ (touches_refl w id)

theorem stepEntityProperty_frame (cfg : Config) (w : World) (id : Int) (idx : Nat) (data : Bytes)
    (hwf : w.WF) : Touches w id (stepEntityProperty cfg w id idx data).world := by
  unfold stepEntityProperty
  cases hget : w.get? id with
  | none => exact touches_refl w id
  | some e =>
    have he : e.id = id := World.get_wf w hwf id e hget
    have hid := setClientProperty_id cfg.reg e idx data
    simp only
    split <;> exact touches_log w _ id _ (touches_put w id _ (by rw [hid, he]))

theorem stepEntityMethod_frame (cfg : Config) (w : World) (id : Int) (idx : Nat) (data : Bytes) :
    ∀ j, (stepEntityMethod cfg w id idx data).world.get? j = w.get? j := by
  intro j
  unfold stepEntityMethod
  split <;> rfl

theorem stepNested_frame (cfg : Config) (w : World) (id : Int) (sl : Bool) (payload : Bytes)
    (hwf : w.WF) : Touches w id (stepNested cfg w id sl payload).world := by
  unfold stepNested
  cases hget : w.get? id with
  | none => exact touches_refl w id
  | some e =>
    have he : e.id = id := World.get_wf w hwf id e hget
    simp only
    split
    · exact touches_refl w id
    · exact touches_refl w id
    · rename_i e' l raised heq
      have hid := applyNested_id cfg.reg e sl payload e' l raised heq
      split <;> exact touches_log w _ id _ (touches_put w id _ (by rw [hid, he]))

theorem stepPosition_frame (w : World) (id : Int) (pose : Pose) (hwf : w.WF) :
    Touches w id (stepPosition w id pose).world := by
  unfold stepPosition
  cases hget : w.get? id with
  | none => exact touches_refl w id
  | some e =>
    have he : e.id = id := World.get_wf w hwf id e hget
    exact touches_put w id _ (by rw [setPose_id, he])

theorem copyPose_id (m s : Entity) : (copyPose m s).1.id = s.id := by
  unfold copyPose
  repeat' split
  all_goals rfl

theorem stepPlayerPosition_frame (w : World) (id1 id2 : Int) (pose : Pose) (hwf : w.WF) :
    Touches w id1 (stepPlayerPosition w id1 id2 pose).world := by
  unfold stepPlayerPosition
  split
  · split
    · rename_i master slave hm hs
      have he : slave.id = id1 := World.get_wf w hwf id1 slave hs
      have hid := copyPose_id master slave
      simp only
      split <;> exact touches_put w id1 _ (by rw [hid, he])
    · exact touches_refl w id1
  · split
    · cases hget : w.get? id1 with
      | none => exact touches_refl w id1
      | some e =>
        have he : e.id = id1 := World.get_wf w hwf id1 e hget
        exact touches_put w id1 _ (by rw [setPose_id, he])
    · exact touches_refl w id1

/-- **Independence of entities.** A packet changes at most the entity it addresses: every
other entity — of the same or of another type — is exactly what it was before, whatever
the packet contains and whether or not its handling fails. -/
theorem step_frame (cfg : Config) (w : World) (p : Packet) (hwf : w.WF) (j : Int)
    (hj : ∀ i, target p = some i → j ≠ i) : (step cfg w p).world.get? j = w.get? j := by
  unfold step
  split
  all_goals first
    | rfl
    | (exact playerCreate_frame cfg w _ _ _ _ _ hwf j (hj _ rfl))
    | (exact stepEntityCreate_frame cfg w _ _ _ j (hj _ rfl))
    | (exact stepEntityProperty_frame cfg w _ _ _ hwf j (hj _ rfl))
    | (exact stepEntityMethod_frame cfg w _ _ _ j)
    | (exact stepNested_frame cfg w _ _ _ hwf j (hj _ rfl))
    | (exact stepPosition_frame w _ _ hwf j (hj _ rfl))
    | (exact stepPlayerPosition_frame w _ _ _ hwf j (hj _ rfl))
    | (unfold stepLookup; split <;> rfl)

/-! ### the table invariant, ids -/

theorem wf_of_entities_eq (w w' : World) (h : w'.entities = w.entities) (hwf : w.WF) : w'.WF := by
  unfold World.WF at *; rw [h]; exact hwf

theorem finish_wf (w : World) (i : Int) (sp : Bool) (h : w.WF) : (finishPlayer w i sp).WF := by
  unfold finishPlayer; split
  · exact wf_of_entities_eq w _ rfl h
  · exact h

theorem playerCreate_preserves (P : World → Prop) (hput : ∀ w e, P w → P (w.put e))
    (hent : ∀ w w' : World, w'.entities = w.entities → P w → P w')
    (cfg : Config) (w : World) (id : Int) (v : Bytes) (b sp wp : Bool) (hwf : P w) :
    P (playerCreate cfg w id v b sp wp).world := by
  have hfin : ∀ (w : World) (i : Int) (sp : Bool), P w → P (finishPlayer w i sp) := by
    intro w i sp h; unfold finishPlayer; split
    · exact hent w _ rfl h
    · exact h
  unfold playerCreate
  cases w.get? id with
  | some ent =>
    simp only
    cases (fillPlayer ent v b wp).2 with
    | some e => exact hput w _ hwf
    | none => exact hfin _ _ _ (hput w _ hwf)
  | none =>
    simp only
    cases cfg.defs.byName "Avatar" with
    | error e => exact hwf
    | ok d =>
      simp only
      cases (fillPlayer (Entity.new cfg.masks id d) v b wp).2 with
      | some e => exact hwf
      | none => exact hfin _ _ _ (hput w _ hwf)

/-- any property of the entity table that `put` preserves is preserved by every step -/
theorem step_preserves (P : World → Prop) (hput : ∀ w e, P w → P (w.put e))
    (hent : ∀ w w' : World, w'.entities = w.entities → P w → P w')
    (cfg : Config) (w : World) (p : Packet) (hwf : P w) : P (step cfg w p).world := by
  have hfin : ∀ (w : World) (i : Int) (sp : Bool), P w → P (finishPlayer w i sp) := by
    intro w i sp h; unfold finishPlayer; split
    · exact hent w _ rfl h
    · exact h
  unfold step
  split
  all_goals first
    | exact hwf
    | exact hent w _ rfl hwf
    | (unfold stepLookup; split <;> exact hwf)
    | exact playerCreate_preserves P hput hent cfg w _ _ _ _ _ hwf
    | (unfold stepEntityCreate
       split
       · exact hwf
       · split
         · exact hwf
         · simp only; split
           · exact hent w _ rfl hwf
           · split
             · exact hput _ _ (hent w _ rfl hwf)
             · exact hent w _ rfl hwf)
    | (unfold stepEntityProperty
       split
       · exact hwf
       · simp only; split <;> exact hent (w.put _) _ rfl (hput w _ hwf))
    | (unfold stepEntityMethod
       split
       · exact hwf
       · exact hent w _ rfl hwf)
    | (unfold stepNested
       split
       · exact hwf
       · split
         · exact hwf
         · exact hwf
         · simp only; split <;> exact hent (w.put _) _ rfl (hput w _ hwf))
    | (unfold stepPosition; split
       · exact hwf
       · exact hput w _ hwf)
    | (unfold stepPlayerPosition
       split
       · split
         · simp only; split <;> exact hput w _ hwf
         · exact hwf
       · split
         · split
           · exact hput w _ hwf
           · exact hwf
         · exact hwf)

/-- keys and stored ids agree in every reachable world -/
theorem step_wf (cfg : Config) (w : World) (p : Packet) (hwf : w.WF) : (step cfg w p).world.WF :=
  step_preserves World.WF (fun w e h => World.put_wf w e h)
    (fun w w' he h => wf_of_entities_eq w w' he h) cfg w p hwf

/-- ids in the table are pairwise different -/
def NodupIds (w : World) : Prop := (w.entities.map (·.1)).Nodup

theorem put_nodup (w : World) (e : Entity) (h : NodupIds w) : NodupIds (w.put e) := by
  unfold NodupIds at *
  rw [World.put_ids]
  split
  · exact h
  · rename_i hn
    rw [List.nodup_append]
    refine ⟨h, by simp, ?_⟩
    intro a ha b hb
    simp only [List.mem_singleton] at hb
    subst hb
    intro hab
    apply hn
    obtain ⟨x, hx, hxa⟩ := List.mem_map.mp ha
    simp only [List.any_eq_true, beq_iff_eq]
    exact ⟨x, hx, by rw [hxa, hab]⟩

theorem step_nodup (cfg : Config) (w : World) (p : Packet) (h : NodupIds w) : NodupIds (step cfg w p).world :=
  step_preserves NodupIds put_nodup (fun w w' he h => by unfold NodupIds at *; rw [he]; exact h) cfg w p h

theorem stepNet_wf (jsonOk : Bytes → Bool) (cfg : Config) (w : World) (np : NetPacket) (hwf : w.WF) :
    (stepNet jsonOk cfg w np).world.WF := by
  unfold stepNet
  split
  · exact hwf
  · split
    · exact hwf
    · exact step_wf cfg w _ hwf

theorem playPackets_wf (jsonOk : Bytes → Bool) (cfg : Config) (strict : Bool) (ps : List NetPacket) :
    ∀ (w : World) (i : Nat) (failed : List (Nat × Err)), w.WF →
      (playPackets jsonOk cfg strict w i ps failed).1.WF := by
  induction ps with
  | nil => intro w i failed h; exact h
  | cons np rest ih =>
    intro w i failed h
    have h1 := stepNet_wf jsonOk cfg w np h
    unfold playPackets
    simp only
    cases hr : (stepNet jsonOk cfg w np).err with
    | none => exact ih _ _ _ h1
    | some e =>
      cases strict
      · exact ih _ _ _ h1
      · exact h1

/-- the invariant holds in every world reachable from the empty one -/
theorem play_wf (jsonOk : Bytes → Bool) (cfg : Config) (strict : Bool) (stream : Bytes) :
    (play jsonOk cfg strict {} stream).world.WF := by
  have h0 : ({} : World).WF := by intro p hp; cases hp
  exact playPackets_wf jsonOk cfg strict (parsePackets stream).1 {} 0 [] h0

/-! ### last writer wins -/

/-- **A property update stores the decoded value under the property's name and nothing
else** (then `dictGet_dictSet_same/other` say: that property reads the new value, every
other property what it held before; `step_frame`: every other entity is untouched). -/
theorem entityProperty_lww (cfg : Config) (w : World) (id idx : Nat) (data rest : Bytes) (e : Entity)
    (p : PropDef) (v : Val) (hwf : w.WF) (hg : cfg.dialect.game ≠ .wowp) (hget : w.get? (id : Int) = some e)
    (hp : e.view.clientProps[idx]? = some p) (hd : decode 1 p.ty data = .ok (v, rest))
    (hs : dictGet? cfg.reg.props (e.view.name ++ "_" ++ p.name) = none) :
    (step cfg w (.entityProperty id idx data)).err = none ∧
    (step cfg w (.entityProperty id idx data)).world.get? (id : Int) =
      some { e with client := dictSet e.client p.name v } := by
  have hstep : step cfg w (.entityProperty id idx data) = stepEntityProperty cfg w id idx data := by
    unfold step
    cases hgame : cfg.dialect.game <;> simp_all
  rw [hstep]
  unfold stepEntityProperty
  simp only [hget]
  have hset : setClientProperty cfg.reg e idx data =
      ({ e with client := dictSet e.client p.name v }, rest, [], none) := by
    unfold setClientProperty
    simp only [hp, hd, hs, Option.getD_none, runSubs]
    rfl
  rw [hset]
  refine ⟨rfl, ?_⟩
  simp only [ok, get_log]
  have hid : e.id = (id : Int) := World.get_wf w hwf id e hget
  have := World.get_put_same w { e with client := dictSet e.client p.name v }
  simp only at this
  rw [← hid]; exact this

/-- the recording player is the id announced by the last successful base-player packet -/
theorem player_id_base (cfg : Config) (w : World) (id ty : Int) (value : Bytes)
    (h : (step cfg w (.basePlayerCreate id ty value)).err = none) :
    (step cfg w (.basePlayerCreate id ty value)).world.playerId = some id := by
  have hstep : ∃ wp, step cfg w (.basePlayerCreate id ty value) = playerCreate cfg w id value true true wp := by
    unfold step
    cases hgame : cfg.dialect.game <;> simp
  obtain ⟨wp, hs⟩ := hstep
  rw [hs] at h ⊢
  unfold playerCreate at h ⊢
  cases hget : w.get? id with
  | some ent =>
    simp only [hget] at h ⊢
    cases hf : (fillPlayer ent value true wp).2 with
    | some e => simp [hf, fail] at h
    | none => simp [hf, ok, finishPlayer]
  | none =>
    simp only [hget] at h ⊢
    cases hd : cfg.defs.byName "Avatar" with
    | error e => simp [hd, fail] at h
    | ok d =>
      simp only [hd] at h ⊢
      cases hf : (fillPlayer (Entity.new cfg.masks id d) value true wp).2 with
      | some e => simp [hf, fail] at h
      | none => simp [hf, ok, finishPlayer]

/-- reading back: the updated property holds the new value … -/
theorem lww_read_same (d : List (String × Val)) (k : String) (v : Val) :
    dictGet? (dictSet d k v) k = some v := dictGet_dictSet_same d k v

/-- … and every other property what it held before (absent stays absent) -/
theorem lww_read_other (d : List (String × Val)) (k k' : String) (v : Val) (h : k' ≠ k) :
    dictGet? (dictSet d k v) k' = dictGet? d k' := dictGet_dictSet_other d k k' v h

/-- creating or replacing an entity never disturbs another id, and re-creation keeps the
entity's place in the table -/
theorem table_put_other (w : World) (e : Entity) (j : Int) (h : j ≠ e.id) :
    (w.put e).get? j = w.get? j := World.get_put_other w e j h

theorem table_put_same (w : World) (e : Entity) : (w.put e).get? e.id = some e :=
  World.get_put_same w e

/-! ### last writer wins over whole histories -/
/-- what a property-update packet writes, as a function of the entity's (immutable) view:
nothing when the index or the payload is bad -/
def propWrite (view : EntityView) (idx : Nat) (data : Bytes) : Option (String × Val) :=
  match view.clientProps[idx]? with
  | none => none
  | some p =>
    match decode 1 p.ty data with
    | .error _ => none
    | .ok (v, _) => some (p.name, v)

/-- the writes a packet list makes to the client bucket of entity `id`, in stream order -/
def writesTo (view : EntityView) (id : Nat) : List Packet → List (String × Val)
  | [] => []
  | .entityProperty id' idx data :: ps =>
    if id' = id then (propWrite view idx data).toList ++ writesTo view id ps else writesTo view id ps
  | _ :: ps => writesTo view id ps

def applyWrites (d : List (String × Val)) (ws : List (String × Val)) : List (String × Val) :=
  ws.foldl (fun d kv => dictSet d kv.1 kv.2) d

/-- lenient play at packet level: errors are swallowed, the world goes on -/
def runAll (cfg : Config) (w : World) (ps : List Packet) : World :=
  ps.foldl (fun w p => (step cfg w p).world) w

theorem setClientProperty_entity (reg : Registry) (e : Entity) (idx : Nat) (data : Bytes) :
    (setClientProperty reg e idx data).1 =
      match propWrite e.view idx data with
      | none => e
      | some kv => { e with client := dictSet e.client kv.1 kv.2 } := by
  unfold setClientProperty propWrite
  cases h1 : e.view.clientProps[idx]? with
  | none => rfl
  | some p =>
    simp only
    cases h2 : decode 1 p.ty data with
    | error er => rfl
    | ok r => obtain ⟨v, rest⟩ := r; rfl

theorem stepEntityProperty_get (cfg : Config) (w : World) (id idx : Nat) (data : Bytes) (e : Entity)
    (hwf : w.WF) (hget : w.get? (id : Int) = some e) :
    (stepEntityProperty cfg w id idx data).world.get? (id : Int) = some (setClientProperty cfg.reg e idx data).1 := by
  unfold stepEntityProperty
  simp only [hget]
  have he : e.id = (id : Int) := World.get_wf w hwf id e hget
  have hid := setClientProperty_id cfg.reg e idx data
  have key : ((w.put (setClientProperty cfg.reg e idx data).1).get? (id : Int)) = some (setClientProperty cfg.reg e idx data).1 := by
    have := World.get_put_same w (setClientProperty cfg.reg e idx data).1
    rw [hid, he] at this
    exact this
  split <;> simpa [ok, fail] using key


theorem step_entityProperty_eq (cfg : Config) (hg : cfg.dialect.game ≠ .wowp) (w : World) (id idx : Nat) (data : Bytes) :
    step cfg w (.entityProperty id idx data) = stepEntityProperty cfg w id idx data := by
  unfold step
  cases hgame : cfg.dialect.game <;> simp_all

theorem writesTo_other (view : EntityView) (id : Nat) (p : Packet) (ps : List Packet)
    (h : target p ≠ some (id : Int)) : writesTo view id (p :: ps) = writesTo view id ps := by
  cases p <;> simp only [writesTo]
  rename_i id' idx data
  have : id' ≠ id := by
    intro hc; apply h; simp [target, hc]
  simp [this]

theorem applyWrites_append (d : List (String × Val)) (a b : List (String × Val)) :
    applyWrites d (a ++ b) = applyWrites (applyWrites d a) b := by
  unfold applyWrites; exact List.foldl_append

/-- **Last writer wins over whole histories.** Take any world, any entity `id` in it and
any packet list in which the packets addressed to `id` are property updates (packets
addressed to *other* entities are arbitrary: creations, updates, calls, nested updates,
positions, failing or not). After playing the list leniently, entity `id` has the same
definition, cell / base buckets and pose, and its client bucket is the initial one with the
successfully decoded updates applied in stream order — so each property holds the value of
its last successful update, or its initial value if there was none; updates with a bad
index or an undecodable payload change nothing. -/
theorem property_history_lww (cfg : Config) (hg : cfg.dialect.game ≠ .wowp) (id : Nat) :
    ∀ (ps : List Packet) (w : World) (e : Entity), w.WF → w.get? (id : Int) = some e →
      (∀ p ∈ ps, target p = some (id : Int) → ∃ idx data, p = .entityProperty id idx data) →
      ∃ e', (runAll cfg w ps).get? (id : Int) = some e' ∧ e'.view = e.view ∧ e'.id = e.id ∧
        e'.client = applyWrites e.client (writesTo e.view id ps) ∧
        e'.cell = e.cell ∧ e'.base = e.base ∧ e'.volatile = e.volatile := by
  intro ps
  induction ps with
  | nil => intro w e _ hget _; exact ⟨e, hget, rfl, rfl, rfl, rfl, rfl, rfl⟩
  | cons p ps ih =>
    intro w e hwf hget hps
    have hwf' : (step cfg w p).world.WF := step_wf cfg w p hwf
    have hps' : ∀ q ∈ ps, target q = some (id : Int) → ∃ idx data, q = .entityProperty id idx data :=
      fun q hq => hps q (List.mem_cons_of_mem _ hq)
    show ∃ e', (runAll cfg (step cfg w p).world ps).get? (id : Int) = some e' ∧ _
    by_cases ht : target p = some (id : Int)
    · obtain ⟨idx, data, rfl⟩ := hps p (List.mem_cons_self ..) ht
      rw [step_entityProperty_eq cfg hg] at hwf' ⊢
      have hg1 := stepEntityProperty_get cfg w id idx data e hwf hget
      rw [setClientProperty_entity] at hg1
      cases hw : propWrite e.view idx data with
      | none =>
        rw [hw] at hg1
        obtain ⟨e', h1, h2, h3, h4, h5, h6, h7⟩ := ih _ e hwf' hg1 hps'
        refine ⟨e', h1, h2, h3, ?_, h5, h6, h7⟩
        rw [h4]; simp [writesTo, hw]
      | some kv =>
        rw [hw] at hg1
        obtain ⟨e', h1, h2, h3, h4, h5, h6, h7⟩ := ih _ _ hwf' hg1 hps'
        refine ⟨e', h1, h2, h3, ?_, h5, h6, h7⟩
        rw [h4]
        simp only [writesTo, if_true, hw, Option.toList_some]
        rw [applyWrites_append]
        rfl
    · have hfr : (step cfg w p).world.get? (id : Int) = some e := by
        rw [step_frame cfg w p hwf (id : Int) (fun i hi hc => ht (hc ▸ hi))]
        exact hget
      obtain ⟨e', h1, h2, h3, h4, h5, h6, h7⟩ := ih _ e hwf' hfr hps'
      refine ⟨e', h1, h2, h3, ?_, h5, h6, h7⟩
      rw [h4, writesTo_other e.view id p ps ht]

/-- reading one property back after a history: the value of the last successful write to
it, if any -/
theorem applyWrites_get_last (d : List (String × Val)) (ws : List (String × Val)) (k : String) (v : Val)
    (rest : List (String × Val)) (hrest : ∀ kv ∈ rest, kv.1 ≠ k) :
    dictGet? (applyWrites d (ws ++ (k, v) :: rest)) k = some v := by
  rw [applyWrites_append]
  generalize applyWrites d ws = d0
  show dictGet? (applyWrites (dictSet d0 k v) rest) k = some v
  have : ∀ (rest : List (String × Val)) (d1 : List (String × Val)), (∀ kv ∈ rest, kv.1 ≠ k) →
      dictGet? d1 k = some v → dictGet? (applyWrites d1 rest) k = some v := by
    intro rest
    induction rest with
    | nil => intro d1 _ h; exact h
    | cons kv rest ih =>
      intro d1 hr h
      show dictGet? (applyWrites (dictSet d1 kv.1 kv.2) rest) k = some v
      apply ih _ (fun x hx => hr x (List.mem_cons_of_mem _ hx))
      rw [dictGet_dictSet_other d1 kv.1 k kv.2 (Ne.symm (hr kv (List.mem_cons_self ..)))]
      exact h
  exact this rest _ hrest (dictGet_dictSet_same d0 k v)

/-- … and a property nobody wrote keeps its initial value -/
theorem applyWrites_get_untouched (d : List (String × Val)) (ws : List (String × Val)) (k : String)
    (h : ∀ kv ∈ ws, kv.1 ≠ k) : dictGet? (applyWrites d ws) k = dictGet? d k := by
  induction ws generalizing d with
  | nil => rfl
  | cons kv ws ih =>
    show dictGet? (applyWrites (dictSet d kv.1 kv.2) ws) k = dictGet? d k
    rw [ih _ (fun x hx => h x (List.mem_cons_of_mem _ hx))]
    exact dictGet_dictSet_other d kv.1 k kv.2 (Ne.symm (h kv (List.mem_cons_self ..)))

/-- the side condition of `property_history_lww` on a concrete mixed list: the packets for entity 7 are
property updates, the others address entity 9 -/
example : ∀ p ∈ [Packet.entityProperty 7 0 [1], .position 9 default, .entityMethod 9 3 [], .entityProperty 7 5 []],
    target p = some ((7 : Nat) : Int) → ∃ idx data, p = .entityProperty 7 idx data := by
  intro p hp ht
  simp only [List.mem_cons, List.mem_nil_iff, or_false] at hp
  rcases hp with rfl | rfl | rfl | rfl
  · exact ⟨_, _, rfl⟩
  · simp [target] at ht
  · simp [target] at ht
  · exact ⟨_, _, rfl⟩

/-- Non-vacuity: a reachable, non-trivial world satisfies `WF` and an update on it is
framed (two entities, update addressed to the first). -/
example : (World.put (World.put {} { id := 7, view := default }) { id := 9, view := default }).WF :=
  World.put_wf _ _ (World.put_wf _ _ (by intro p hp; cases hp))

/-! ### the general form: an entity's state is the fold of its own packets -/

/-- what a packet addressed to an *existing* entity does to that entity: the per-entity
semantics of the update-like packets (everything but the three creation packets and the
own-player position packet, which involve a second entity or replace the entity) -/
def entityStep (cfg : Config) (e : Entity) : Packet → Entity
  | .entityProperty _ idx data => (setClientProperty cfg.reg e idx data).1
  | .nested _ sl payload =>
    (match applyNested cfg.reg e sl payload with
     | .ok (e', _, _) => e'
     | .error _ => e)
  | .position _ pose => setPose e pose
  | _ => e          -- method calls, enter, leave, control: the entity is looked up, not changed

/-- the packet kinds `entity_fold` covers -/
def IsOp : Packet → Prop
  | .entityProperty .. => True
  | .nested .. => True
  | .position .. => True
  | .entityMethod .. => True
  | .entityEnter .. => True
  | .entityLeave .. => True
  | _ => False

theorem step_addressed (cfg : Config) (hg : cfg.dialect.game ≠ .wowp) (w : World) (id : Int) (e : Entity) (p : Packet)
    (hwf : w.WF) (hget : w.get? id = some e) (ht : target p = some id) (hop : IsOp p) :
    (step cfg w p).world.get? id = some (entityStep cfg e p) := by
  have he : e.id = id := World.get_wf w hwf id e hget
  cases p with
  | entityProperty id' idx data =>
    have hid : (id' : Int) = id := by simpa [target] using ht
    subst hid
    rw [step_entityProperty_eq cfg hg]
    exact stepEntityProperty_get cfg w id' idx data e hwf hget
  | nested id' sl payload =>
    have hid : (id' : Int) = id := by simpa [target] using ht
    subst hid
    have hs : step cfg w (.nested id' sl payload) = stepNested cfg w id' sl payload := by
      unfold step; cases hgame : cfg.dialect.game <;> simp_all
    rw [hs]
    unfold stepNested
    simp only [hget, entityStep]
    cases ha : applyNested cfg.reg e sl payload with
    | error er =>
      cases er with
      | err x => simpa [fail] using hget
      | hang => simpa [fail] using hget
    | ok r =>
      obtain ⟨e', l, raised⟩ := r
      have hid' := applyNested_id cfg.reg e sl payload e' l raised ha
      have key : (w.put e').get? (id' : Int) = some e' := by
        have := World.get_put_same w e'
        rw [hid', he] at this
        exact this
      cases raised <;> simpa [ok, fail, World.get?] using key
  | position id' pose =>
    have hid : id' = id := by simpa [target] using ht
    subst hid
    have hs : step cfg w (.position id' pose) = stepPosition w id' pose := by
      unfold step; cases hgame : cfg.dialect.game <;> simp_all
    rw [hs]
    unfold stepPosition
    simp only [hget, entityStep]
    have := World.get_put_same w (setPose e pose)
    rw [setPose_id, he] at this
    simpa [ok] using this
  | entityMethod id' idx data =>
    have hs : step cfg w (.entityMethod id' idx data) = stepEntityMethod cfg w id' idx data := by
      unfold step; cases hgame : cfg.dialect.game <;> simp_all
    rw [hs]
    unfold stepEntityMethod
    cases hg2 : w.get? (id' : Int) with
    | none => simpa [fail, entityStep] using hget
    | some e2 => simpa [entityStep, World.get?] using hget
  | entityEnter id' =>
    have hs : step cfg w (.entityEnter id') = stepLookup w id' := by
      unfold step; cases hgame : cfg.dialect.game <;> simp_all
    rw [hs]; unfold stepLookup
    cases w.get? id' <;> simpa [ok, fail, entityStep] using hget
  | entityLeave id' =>
    have hs : step cfg w (.entityLeave id') = stepLookup w id' := by
      unfold step; cases hgame : cfg.dialect.game <;> simp_all
    rw [hs]; unfold stepLookup
    cases w.get? id' <;> simpa [ok, fail, entityStep] using hget
  | _ => exact absurd hop (by simp [IsOp])

/-- the packets of a stream that address entity `id`, in stream order -/
def addressedTo (id : Int) (ps : List Packet) : List Packet := ps.filter (fun p => target p == some id)

/-- **An entity's state is the fold of its own packets.** For every history in which the
packets addressed to an existing entity are property updates, nested updates, position
packets, method calls and enter / leave notifications — in any number and interleaving,
succeeding or failing, among arbitrary packets for other entities (creations included) — the
entity after the whole history is the initial one folded over exactly its own packets, in
stream order, with the per-entity semantics `entityStep` (last-writer-wins updates
`setClientProperty`, path updates `applyNested`, `setPose`; a failing packet leaves the entity as
it was). Generalises `property_history_lww` and `C08.entity_history`; with
`C06.nested_encode_apply` the nested steps are the list/dict operations that were encoded. -/
theorem entity_fold (cfg : Config) (hg : cfg.dialect.game ≠ .wowp) (id : Int) :
    ∀ (ps : List Packet) (w : World) (e : Entity), w.WF → w.get? id = some e →
      (∀ p ∈ ps, target p = some id → IsOp p) →
      (runAll cfg w ps).get? id = some ((addressedTo id ps).foldl (entityStep cfg) e) := by
  intro ps
  induction ps with
  | nil => intro w e _ hget _; exact hget
  | cons p ps ih =>
    intro w e hwf hget hps
    have hwf' : (step cfg w p).world.WF := step_wf cfg w p hwf
    have hps' : ∀ q ∈ ps, target q = some id → IsOp q := fun q hq => hps q (List.mem_cons_of_mem _ hq)
    show (runAll cfg (step cfg w p).world ps).get? id = _
    by_cases ht : target p = some id
    · have h1 := step_addressed cfg hg w id e p hwf hget ht (hps p (List.mem_cons_self ..) ht)
      rw [ih _ _ hwf' h1 hps']
      simp [addressedTo, ht]
    · have hfr : (step cfg w p).world.get? id = some e := by
        rw [step_frame cfg w p hwf id (fun i hi hc => ht (hc ▸ hi))]
        exact hget
      rw [ih _ _ hwf' hfr hps']
      simp [addressedTo, ht]

/-- Non-vacuity: a mixed history for entity 7 (update, nested update, position, call) among
packets for entity 9 satisfies the side condition. -/
example : ∀ p ∈ [Packet.entityProperty 7 0 [1], .position 9 default, .nested 7 false [0x80], .entityMethod 7 3 [],
      .entityCreate 9 1 [], .position 7 default],
    target p = some ((7 : Nat) : Int) → IsOp p := by
  intro p hp _
  simp only [List.mem_cons, List.mem_nil_iff, or_false] at hp
  rcases hp with rfl | rfl | rfl | rfl | rfl | rfl <;> simp_all [IsOp, target]


end ReplayModel.C05
