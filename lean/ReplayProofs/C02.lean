/-
C02 — packet framing: ordered, exactly-once, isolated, terminating.
-/
import ReplayModel.Frame
import ReplayModel.World
import ReplayModel.Play
import ReplayProofs.Lemmas.Bytes
import ReplayModel.Pipeline
import ReplayProofs.C01
namespace ReplayModel.C02
open ReplayModel

/-- a packet as the stream encodes it -/
structure Raw where
  type : Nat
  time : Nat
  payload : Bytes
  deriving Repr

def Raw.ok (r : Raw) : Prop := r.type < 2 ^ 32 ∧ r.time < 2 ^ 32 ∧ r.payload.length < 2 ^ 32

def Raw.encode (r : Raw) : Bytes := encodeNetPacket r.type r.time r.payload

def Raw.packet (r : Raw) : NetPacket :=
  { type := r.type, time := r.time, payload := r.payload, size := r.payload.length }

theorem take_toLE (k n : Nat) (rest : Bytes) : (toLE k n ++ rest).take k = toLE k n := by
  rw [List.take_append_of_le_length (by simp)]
  rw [List.take_of_length_le (by simp)]

theorem drop_toLE (k n : Nat) (rest : Bytes) : (toLE k n ++ rest).drop k = rest := by
  rw [List.drop_append_of_le_length (by simp)]
  rw [List.drop_of_length_le (by simp)]
  rfl

/-- one packet: header and payload come back exactly, the rest is untouched -/
theorem read_encode (r : Raw) (h : r.ok) (rest : Bytes) :
    readNetPacket (r.encode ++ rest) = .ok (r.packet, rest) := by
  obtain ⟨ht, htm, hl⟩ := h
  unfold readNetPacket Raw.encode encodeNetPacket Raw.packet
  have hne : ((toLE 4 r.payload.length ++ toLE 4 r.type ++ toLE 4 r.time ++ r.payload ++ rest).drop 11).isEmpty = false := by
    have : 12 ≤ (toLE 4 r.payload.length ++ toLE 4 r.type ++ toLE 4 r.time ++ r.payload ++ rest).length := by
      simp; omega
    cases hd : (toLE 4 r.payload.length ++ toLE 4 r.type ++ toLE 4 r.time ++ r.payload ++ rest).drop 11 with
    | nil =>
      have := congrArg List.length hd
      simp only [List.length_drop, List.length_nil] at this
      omega
    | cons a b => rfl
  simp only [hne, Bool.false_eq_true, if_false]
  have e1 : (toLE 4 r.payload.length ++ toLE 4 r.type ++ toLE 4 r.time ++ r.payload ++ rest)
      = toLE 4 r.payload.length ++ (toLE 4 r.type ++ (toLE 4 r.time ++ (r.payload ++ rest))) := by
    simp [List.append_assoc]
  rw [e1]
  have d4 : (toLE 4 r.payload.length ++ (toLE 4 r.type ++ (toLE 4 r.time ++ (r.payload ++ rest)))).drop 4
      = toLE 4 r.type ++ (toLE 4 r.time ++ (r.payload ++ rest)) := drop_toLE 4 _ _
  have d8 : (toLE 4 r.payload.length ++ (toLE 4 r.type ++ (toLE 4 r.time ++ (r.payload ++ rest)))).drop 8
      = toLE 4 r.time ++ (r.payload ++ rest) := by
    have : (toLE 4 r.payload.length ++ (toLE 4 r.type ++ (toLE 4 r.time ++ (r.payload ++ rest)))).drop 8
        = ((toLE 4 r.payload.length ++ (toLE 4 r.type ++ (toLE 4 r.time ++ (r.payload ++ rest)))).drop 4).drop 4 := by
      rw [List.drop_drop]
    rw [this, d4, drop_toLE]
  have d12 : (toLE 4 r.payload.length ++ (toLE 4 r.type ++ (toLE 4 r.time ++ (r.payload ++ rest)))).drop 12
      = r.payload ++ rest := by
    have : (toLE 4 r.payload.length ++ (toLE 4 r.type ++ (toLE 4 r.time ++ (r.payload ++ rest)))).drop 12
        = ((toLE 4 r.payload.length ++ (toLE 4 r.type ++ (toLE 4 r.time ++ (r.payload ++ rest)))).drop 8).drop 4 := by
      rw [List.drop_drop]
    rw [this, d8, drop_toLE]
  rw [take_toLE, d4, take_toLE, d8, take_toLE, d12]
  have p32 : (2 : Nat) ^ 32 = 256 ^ 4 := by decide
  rw [leNat_toLE, leNat_toLE, leNat_toLE, Nat.mod_eq_of_lt (by omega), Nat.mod_eq_of_lt (by omega),
    Nat.mod_eq_of_lt (by omega)]
  simp

theorem parse_nil : parsePackets [] = ([], .exhausted) := by rw [parsePackets]; simp

theorem parse_cons (bs : Bytes) (p : NetPacket) (rest : Bytes) (hne : bs ≠ [])
    (h : readNetPacket bs = .ok (p, rest)) :
    parsePackets bs = (p :: (parsePackets rest).1, (parsePackets rest).2) := by
  rw [parsePackets]
  simp only [hne, dite_false]
  split
  · rename_i e heq; rw [h] at heq; cases heq
  · rename_i p' rest' heq
    rw [h] at heq
    simp only [Except.ok.injEq, Prod.mk.injEq] at heq
    rw [← heq.1, ← heq.2]

theorem parse_short (bs : Bytes) (e : Err) (hne : bs ≠ []) (h : readNetPacket bs = .error e) :
    parsePackets bs = ([], .headerShort) := by
  rw [parsePackets]
  simp only [hne, dite_false]
  split
  · rfl
  · rename_i heq; rw [h] at heq; cases heq

theorem encode_ne_nil (r : Raw) (rest : Bytes) : r.encode ++ rest ≠ [] := by
  unfold Raw.encode encodeNetPacket
  intro hc
  have := congrArg List.length hc
  simp at this

/-- **Framing is exact**: the packets of a concatenation of encoded packets are exactly
those packets — same type, timestamp and payload bytes, in stream order, each once — and
the loop ends by exhaustion. Any number of packets, payload sizes 0 … 2^32−1. -/
theorem frames_encode (rs : List Raw) (h : ∀ r ∈ rs, r.ok) :
    parsePackets (rs.flatMap Raw.encode) = (rs.map Raw.packet, .exhausted) := by
  induction rs with
  | nil => exact parse_nil
  | cons r rs ih =>
    simp only [List.flatMap_cons]
    rw [parse_cons _ _ _ (encode_ne_nil r _) (read_encode r (h r (List.mem_cons_self ..)) _),
      ih (fun x hx => h x (List.mem_cons_of_mem _ hx))]
    rfl

/-- a stream cut inside the last packet's header: the complete packets, then `struct.error` -/
theorem frames_truncated_header (rs : List Raw) (h : ∀ r ∈ rs, r.ok) (tail : Bytes)
    (ht : 0 < tail.length ∧ tail.length < 12) :
    parsePackets (rs.flatMap Raw.encode ++ tail) = (rs.map Raw.packet, .headerShort) := by
  induction rs with
  | nil =>
    have hne : tail ≠ [] := by intro hc; rw [hc] at ht; simp at ht
    have : readNetPacket tail = .error .short := by
      unfold readNetPacket
      have : (tail.drop 11).isEmpty = true := by
        rw [List.isEmpty_iff]; exact List.drop_eq_nil_of_le (by omega)
      simp [this]
    simpa using parse_short tail .short hne this
  | cons r rs ih =>
    simp only [List.flatMap_cons, List.append_assoc]
    rw [parse_cons _ _ _ (encode_ne_nil r _) (read_encode r (h r (List.mem_cons_self ..)) _),
      ih (fun x hx => h x (List.mem_cons_of_mem _ hx))]
    rfl

/-- a stream cut inside the last packet's payload: that packet is still delivered, with the
bytes that are there, and the loop ends normally -/
theorem frames_truncated_payload (rs : List Raw) (h : ∀ r ∈ rs, r.ok) (last : Raw) (hl : last.ok) (k : Nat)
    (hk : k < last.payload.length) :
    parsePackets (rs.flatMap Raw.encode ++ (toLE 4 last.payload.length ++ toLE 4 last.type ++ toLE 4 last.time
        ++ last.payload.take k)) =
      (rs.map Raw.packet ++ [{ type := last.type, time := last.time, payload := last.payload.take k,
                               size := last.payload.length }], .exhausted) := by
  induction rs with
  | nil =>
    simp only [List.flatMap_nil, List.nil_append, List.map_nil]
    obtain ⟨ht, htm, hlen⟩ := hl
    have hne : toLE 4 last.payload.length ++ toLE 4 last.type ++ toLE 4 last.time ++ last.payload.take k ≠ [] := by
      intro hc; have := congrArg List.length hc; simp at this
    have hr : readNetPacket (toLE 4 last.payload.length ++ toLE 4 last.type ++ toLE 4 last.time ++ last.payload.take k)
        = .ok ({ type := last.type, time := last.time, payload := last.payload.take k, size := last.payload.length }, []) := by
      have key := read_encode ⟨last.type, last.time, last.payload.take k⟩ ⟨ht, htm, by simp; omega⟩ []
      -- same bytes except the declared size; redo the computation directly
      unfold readNetPacket
      have hne' : ((toLE 4 last.payload.length ++ toLE 4 last.type ++ toLE 4 last.time ++ last.payload.take k).drop 11).isEmpty = false := by
        cases hd : (toLE 4 last.payload.length ++ toLE 4 last.type ++ toLE 4 last.time ++ last.payload.take k).drop 11 with
        | nil =>
          have := congrArg List.length hd
          simp only [List.length_drop, List.length_nil, List.length_append, toLE_length] at this
          omega
        | cons a b => rfl
      simp only [hne', Bool.false_eq_true, if_false]
      have e1 : (toLE 4 last.payload.length ++ toLE 4 last.type ++ toLE 4 last.time ++ last.payload.take k)
          = toLE 4 last.payload.length ++ (toLE 4 last.type ++ (toLE 4 last.time ++ (last.payload.take k))) := by
        simp [List.append_assoc]
      rw [e1]
      have d4 := drop_toLE 4 last.payload.length (toLE 4 last.type ++ (toLE 4 last.time ++ (last.payload.take k)))
      have d8 : (toLE 4 last.payload.length ++ (toLE 4 last.type ++ (toLE 4 last.time ++ (last.payload.take k)))).drop 8
          = toLE 4 last.time ++ last.payload.take k := by
        have : (toLE 4 last.payload.length ++ (toLE 4 last.type ++ (toLE 4 last.time ++ (last.payload.take k)))).drop 8
            = ((toLE 4 last.payload.length ++ (toLE 4 last.type ++ (toLE 4 last.time ++ (last.payload.take k)))).drop 4).drop 4 := by
          rw [List.drop_drop]
        rw [this, d4, drop_toLE]
      have d12 : (toLE 4 last.payload.length ++ (toLE 4 last.type ++ (toLE 4 last.time ++ (last.payload.take k)))).drop 12
          = last.payload.take k := by
        have : (toLE 4 last.payload.length ++ (toLE 4 last.type ++ (toLE 4 last.time ++ (last.payload.take k)))).drop 12
            = ((toLE 4 last.payload.length ++ (toLE 4 last.type ++ (toLE 4 last.time ++ (last.payload.take k)))).drop 8).drop 4 := by
          rw [List.drop_drop]
        rw [this, d8, drop_toLE]
      rw [take_toLE, d4, take_toLE, d8, take_toLE, d12]
      rw [leNat_toLE, leNat_toLE, leNat_toLE, Nat.mod_eq_of_lt (by omega), Nat.mod_eq_of_lt (by omega),
        Nat.mod_eq_of_lt (by omega)]
      have t1 : (last.payload.take k).take last.payload.length = last.payload.take k := by
        rw [List.take_of_length_le]; simp; omega
      have t2 : (last.payload.take k).drop last.payload.length = [] := by
        rw [List.drop_of_length_le]; simp; omega
      rw [t1, t2]
    rw [parse_cons _ _ _ hne hr, parse_nil]
  | cons r rs ih =>
    simp only [List.flatMap_cons, List.append_assoc]
    rw [parse_cons _ _ _ (encode_ne_nil r _) (read_encode r (h r (List.mem_cons_self ..)) _)]
    have := ih (fun x hx => h x (List.mem_cons_of_mem _ hx))
    simp only [List.append_assoc] at this
    rw [this]
    rfl

/-- termination, quantitatively: every packet consumes at least its 12-byte header -/
theorem parse_bound (bs : Bytes) : 12 * (parsePackets bs).1.length ≤ bs.length := by
  generalize hn : bs.length = n
  induction n using Nat.strongRecOn generalizing bs with
  | _ n ih =>
    rw [parsePackets]
    split
    · simp
    · split
      · simp
      · rename_i p rest heq
        have hlt := readNetPacket_shorter heq
        have h12 : rest.length + 12 ≤ bs.length := by
          unfold readNetPacket at heq
          split at heq
          · cases heq
          · rename_i hne
            have hlen : 11 < bs.length := by
              rcases Nat.lt_or_ge 11 bs.length with h1 | h1
              · exact h1
              · exact absurd (by simp [List.drop_eq_nil_of_le h1]) hne
            simp only [Except.ok.injEq, Prod.mk.injEq] at heq
            rw [← heq.2]
            simp only [List.length_drop]
            omega
        have := ih rest.length (by omega) rest rfl
        simp only [List.length_cons]
        omega

/-! ### packets the player does not act on -/

/-- **Unmapped type: no effect, wherever it occurs** — for every mapping table, every
payload, every world. -/
theorem unmapped_noop (jsonOk : Bytes → Bool) (cfg : Config) (w : World) (np : NetPacket)
    (h : cfg.dialect.kindOf np.type = none) : stepNet jsonOk cfg w np = ok w := by
  unfold stepNet; simp [h]

/-- mapped kinds the players ignore (once their constructor accepted the payload) -/
theorem ignored_noop (cfg : Config) (w : World) :
    (∀ id f, step cfg w (.entityControl id f) = ok w) ∧ (∀ v, step cfg w (.version v) = ok w) ∧
    (∀ raw, step cfg w (.battleStats raw) = ok w) := by
  refine ⟨?_, ?_, ?_⟩
  · intro id f; unfold step; cases cfg.dialect.game <;> rfl
  · intro v; unfold step; cases cfg.dialect.game <;> rfl
  · intro raw; unfold step; cases cfg.dialect.game <;> rfl

/-- the wowp player acts on BasePlayerCreate only -/
theorem wowp_ignores (cfg : Config) (w : World) (p : Packet) (hg : cfg.dialect.game = .wowp)
    (hp : ∀ id ty v, p ≠ .basePlayerCreate id ty v) : step cfg w p = ok w := by
  unfold step
  cases p <;> simp_all

/-- **Insertion of unmapped packets at any positions is invisible**: playing a packet list
gives the same world, the same exception and the same set of failures (up to their packet
numbers) as playing it without the packets of unmapped type. -/
theorem play_filter (jsonOk : Bytes → Bool) (cfg : Config) (strict : Bool) (ps : List NetPacket) :
    ∀ (w : World) (i j : Nat) (f g : List (Nat × Err)),
      (playPackets jsonOk cfg strict w i ps f).1 =
        (playPackets jsonOk cfg strict w j (ps.filter (fun np => (cfg.dialect.kindOf np.type).isSome)) g).1 ∧
      ((playPackets jsonOk cfg strict w i ps f).2.1).map (·.2) =
        ((playPackets jsonOk cfg strict w j (ps.filter (fun np => (cfg.dialect.kindOf np.type).isSome)) g).2.1).map (·.2) := by
  induction ps with
  | nil => intro w i j f g; exact ⟨rfl, rfl⟩
  | cons np rest ih =>
    intro w i j f g
    cases hk : cfg.dialect.kindOf np.type with
    | none =>
      have hs := unmapped_noop jsonOk cfg w np hk
      simp only [List.filter_cons, hk, Option.isSome_none, Bool.false_eq_true, if_false]
      rw [playPackets]
      rw [hs]
      exact ih w (i + 1) j f g
    | some k =>
      simp only [List.filter_cons, hk, Option.isSome_some, if_true]
      rw [playPackets, playPackets]
      cases hr : (stepNet jsonOk cfg w np).err with
      | none => simp only [hr]; exact ih _ (i + 1) (j + 1) f g
      | some e =>
        cases strict
        · simp only [hr, Bool.false_eq_true, if_false]
          exact ih _ (i + 1) (j + 1) _ _
        · simp

/-- Non-vacuity: two real packets survive the round trip. -/
example : parsePackets ((⟨7, 0x3f800000, [1, 2, 3]⟩ : Raw).encode ++ (⟨0x99, 0, []⟩ : Raw).encode)
    = ([⟨7, 0x3f800000, [1, 2, 3], 3⟩, ⟨0x99, 0, [], 0⟩], .exhausted) := by
  have := frames_encode [⟨7, 0x3f800000, [1, 2, 3]⟩, ⟨0x99, 0, []⟩] (by
    intro r hr
    simp only [List.mem_cons, List.mem_nil_iff, or_false] at hr
    rcases hr with rfl | rfl <;> (unfold Raw.ok; simp))
  simpa [Raw.packet] using this

/-! ### the top of the pipeline: `ReplayParser.get_info` (model: `ReplayModel/Pipeline.lean`) -/

/-- the lenient packet loop never reports a raised packet -/
theorem lenient_loop_no_raise (jsonOk : Bytes → Bool) (cfg : Config) (ps : List NetPacket) :
    ∀ (w : World) (i : Nat) (failed : List (Nat × Err)),
    (playPackets jsonOk cfg false w i ps failed).2.1 = none := by
  induction ps with
  | nil => intro w i failed; rfl
  | cons np rest ih =>
    intro w i failed
    unfold playPackets
    simp only
    cases (stepNet jsonOk cfg w np).err with
    | none => exact ih _ _ _
    | some e => simp only [Bool.false_eq_true, if_false]; exact ih _ _ _

/-- **From the file to the dialect, end to end.** A file written around a stream of encoded
packets (any block cipher pair with `D ∘ E = id`, any compressor `inflate` inverts, any
supported version) is read, un-chained, inflated, framed and played so that exactly those
packets — same types, payload bytes and order, each once — are what the player folds over;
the lenient result is returned with `hidden` present and no error. Composes `C01.read_write`,
`frames_encode` and the play loop; nothing between the layers is lost or re-ordered. -/
theorem getInfo_written (env : Env) (E : Bytes → Bytes) (ext : String) (game : GameId)
    (engine : Bytes) (extra : List (Option Bytes)) (pre : Bytes) (blocks : List Bytes) (rs : List Raw)
    (vs : String) (sel : Selection)
    (hext : gameOfExt ext = some game)
    (hD : ∀ b, b.length = 8 → env.D (E b) = b) (hE : ∀ b, b.length = 8 → (E b).length = 8)
    (hinf : env.inflate blocks.flatten = some (rs.flatMap Raw.encode))
    (heng : engine.length < 2 ^ 31) (hcount : extra.length + 1 < 2 ^ 31) (hx : ∀ b ∈ extra, C01.blockOK b)
    (hpre : pre.length = 8) (h8 : ∀ b ∈ blocks, b.length = 8) (hrs : ∀ r ∈ rs, r.ok)
    (hv : env.versionOf game engine = some vs) (hs : selectVersion env.bundled game vs = .ok sel) :
    getInfo env false ext (writeContainer E engine extra pre blocks) =
      .returns ⟨game, engine, extra, rs.flatMap Raw.encode⟩
        (some { world := (playPackets env.jsonOk (configOf env game sel) false {} 0 (rs.map Raw.packet) []).1,
                ending := .finished,
                failed := (playPackets env.jsonOk (configOf env game sel) false {} 0 (rs.map Raw.packet) []).2.2 })
        none := by
  have hr := C01.read_write E env.D env.inflate ext game engine extra pre blocks _ hext hD hE hinf heng hcount hx hpre h8
  unfold getInfo
  simp only [hr, hv, hs]
  have hplay : play env.jsonOk (configOf env game sel) false {} (rs.flatMap Raw.encode) =
      { world := (playPackets env.jsonOk (configOf env game sel) false {} 0 (rs.map Raw.packet) []).1,
        ending := .finished,
        failed := (playPackets env.jsonOk (configOf env game sel) false {} 0 (rs.map Raw.packet) []).2.2 } := by
    simp only [play, frames_encode rs hrs]
    have : (playPackets env.jsonOk (configOf env game sel) false {} 0 (rs.map Raw.packet) []).2.1 = none :=
      lenient_loop_no_raise _ _ _ _ _ _
    simp only [this, endingOf]
  rw [hplay]

/-- the time field of a packet is carried along, never interpreted: handling does not depend on it
(any 32 bits: NaN, infinities, negative values) -/
theorem stepNet_time_irrelevant (jsonOk : Bytes → Bool) (cfg : Config) (w : World) (np : NetPacket) (t : Nat) :
    stepNet jsonOk cfg w { np with time := t } = stepNet jsonOk cfg w np := rfl

end ReplayModel.C02
