/-
C10 — every bundled version is internally consistent (the signature-binding rule).
-/
import ReplayModel.Bind
namespace ReplayModel.C10
open ReplayModel

/-- a plain signature: ordinary parameters only, no defaults -/
def plain (ps : List Param) : Prop := ∀ p ∈ ps, p.kind = .pk ∧ p.hasDefault = false

theorem filter_plain (ps : List Param) (h : plain ps) : ps.filter Param.positional = ps := by
  rw [List.filter_eq_self]
  intro p hp
  simp [Param.positional, (h p hp).1]

theorem no_var (ps : List Param) (h : plain ps) :
    ps.any (·.kind == .var) = false ∧ ps.any (·.kind == .varkw) = false := by
  constructor <;> (rw [List.any_eq_false]; intro p hp; simp [(h p hp).1])

theorem filled_plain (ps : List Param) (h : plain ps) (n : Nat) :
    filledNames ps n = (ps.take n).map (·.name) := by
  unfold filledNames; rw [filter_plain ps h]

/-- **Too many positional arguments are refused** (no `*args`): e.g. a definition that
declares three unnamed arguments against a two-parameter callback. -/
theorem too_many_positional (ps : List Param) (h : plain ps) (n : Nat) (ks : List String)
    (hn : ps.length < n) : bind ps n ks = false := by
  have : bindPos ps n = false := by
    unfold bindPos
    rw [filter_plain ps h, (no_var ps h).1]
    simp; omega
  simp [bind, this]

/-- **An unknown keyword is refused** (no `**kwargs`): the renamed-parameter defect. -/
theorem unknown_keyword (ps : List Param) (h : plain ps) (n : Nat) (ks : List String) (k : String)
    (hk : k ∈ ks) (hno : ∀ p ∈ ps, p.name ≠ k) : bind ps n ks = false := by
  have hf : ps.find? (fun p => p.name == k && p.byKeyword) = none := by
    rw [List.find?_eq_none]
    intro p hp
    simp [hno p hp]
  have : bindKw ps n ks = false := by
    unfold bindKw
    rw [List.all_eq_false]
    exact ⟨k, hk, by simp [hf, (no_var ps h).2]⟩
  simp [bind, this]

/-- **A missing required argument is refused.** -/
theorem missing_required (ps : List Param) (h : plain ps) (n : Nat) (ks : List String) (p : Param)
    (hp : p ∈ ps) (hpos : p.name ∉ ((ps.take n).map (·.name))) (hkw : p.name ∉ ks) : bind ps n ks = false := by
  have : bindReq ps n ks = false := by
    unfold bindReq
    rw [List.all_eq_false]
    refine ⟨p, hp, ?_⟩
    have hh := h p hp
    rw [filled_plain ps h]
    rw [List.map_take] at hpos
    simp [hh.1, hh.2, hpos, hkw]
  simp [bind, this]

/-- **Exactly the declared arguments bind**: `npos` values for the first parameters and the
remaining parameter names as keywords (the shape `call_client_method` produces from a
definition with unnamed + named arguments). -/
theorem exact_arguments_bind (ps : List Param) (h : plain ps) (hnd : (ps.map (·.name)).Nodup) (n : Nat)
    (hn : n ≤ ps.length) : bind ps n ((ps.drop n).map (·.name)) = true := by
  have hsplit : ps.map (·.name) = (ps.take n).map (·.name) ++ (ps.drop n).map (·.name) := by
    rw [← List.map_append, List.take_append_drop]
  have h1 : bindPos ps n = true := by
    unfold bindPos; rw [filter_plain ps h]; simp [hn]
  have h2 : bindKw ps n ((ps.drop n).map (·.name)) = true := by
    unfold bindKw
    rw [List.all_eq_true]
    intro k hk
    obtain ⟨q, hq, rfl⟩ := List.mem_map.mp hk
    have hqps : q ∈ ps := List.mem_of_mem_drop hq
    have hfind : (ps.find? (fun p => p.name == q.name && p.byKeyword)).isSome = true := by
      rw [List.find?_isSome]
      exact ⟨q, hqps, by simp [Param.byKeyword, (h q hqps).1]⟩
    cases hf : ps.find? (fun p => p.name == q.name && p.byKeyword) with
    | none => simp [hf] at hfind
    | some x =>
      simp only [Bool.not_eq_true', filled_plain ps h]
      cases hcq : ((ps.take n).map (·.name)).contains q.name with
      | false => rfl
      | true =>
        exfalso
        have hc : q.name ∈ (ps.take n).map (·.name) := by simpa using hcq
        rw [hsplit, List.nodup_append] at hnd
        exact hnd.2.2 q.name hc q.name (List.mem_map.mpr ⟨q, hq, rfl⟩) rfl
  have h3 : bindReq ps n ((ps.drop n).map (·.name)) = true := by
    unfold bindReq
    rw [List.all_eq_true]
    intro p hp
    have hh := h p hp
    rw [filled_plain ps h]
    simp only [hh.1, hh.2, Bool.false_or]
    by_cases hin : p ∈ ps.take n
    · have : ((ps.take n).map (·.name)).contains p.name = true := by
        simpa using List.mem_map.mpr ⟨p, hin, rfl⟩
      rw [this]; simp
    · have hd : p ∈ ps.drop n := by
        have := List.take_append_drop n ps ▸ hp
        rcases List.mem_append.mp this with h1 | h1
        · exact absurd h1 hin
        · exact h1
      have : ((ps.drop n).map (·.name)).contains p.name = true := by
        simpa using List.mem_map.mpr ⟨p, hd, rfl⟩
      rw [this]; simp [Param.byKeyword, hh.1]
  unfold bind; rw [h1, h2, h3]; rfl

/-- the defect repaired by the `fix:` commit, as an instance: named arguments
playersData/botsData/observersData against a callback with the old parameter names -/
example : bind [⟨"avatar", .pk, false⟩, ⟨"playersStates", .pk, false⟩, ⟨"botsStates", .pk, false⟩,
    ⟨"observersState", .pk, false⟩] 1 ["playersData", "botsData", "observersData"] = false := by decide

example : bind [⟨"avatar", .pk, false⟩, ⟨"playersData", .pk, false⟩, ⟨"botsData", .pk, false⟩,
    ⟨"observersData", .pk, false⟩] 1 ["playersData", "botsData", "observersData"] = true := by decide

end ReplayModel.C10
