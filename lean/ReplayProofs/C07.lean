/-
C07 — subscribers are called exactly once per matching event with the right arguments.
-/
import ReplayModel.World
import ReplayModel.Play
import ReplayProofs.Lemmas.World
import ReplayProofs.C05
namespace ReplayModel.C07
open ReplayModel

/-! ### registration: every callback registered for a key is kept -/

/-- registering appends to the key's list: earlier callbacks of the key stay, in order -/
theorem subscribe_appends (t : List (String × List Sub)) (k : String) (s : Sub) :
    dictGet? (subscribe t k s) k = some ((dictGet? t k).getD [] ++ [s]) := by
  unfold subscribe
  cases h : dictGet? t k with
  | some l => simp only [Option.getD_some]; exact dictGet_dictSet_same t k (l ++ [s])
  | none =>
    simp only [Option.getD_none, List.nil_append]
    unfold dictGet? at h ⊢
    have hn : t.find? (fun p => p.1 == k) = none := by
      cases hf : t.find? (fun p => p.1 == k) <;> simp_all
    rw [List.find?_append, hn]
    simp

/-- … and does not touch any other key -/
theorem subscribe_other (t : List (String × List Sub)) (k k' : String) (s : Sub) (hne : k' ≠ k) :
    dictGet? (subscribe t k s) k' = dictGet? t k' := by
  unfold subscribe
  cases h : dictGet? t k with
  | some l => exact dictGet_dictSet_other t k k' (l ++ [s]) hne
  | none =>
    unfold dictGet?
    rw [List.find?_append]
    have : (k == k') = false := by simpa using (fun h => hne h.symm)
    cases hd : t.find? (fun p => p.1 == k') <;> simp [this]

/-- n registrations for one key give a list of n callbacks, in registration order -/
theorem subscribe_many (t : List (String × List Sub)) (k : String) (ss : List Sub) :
    dictGet? (ss.foldl (fun t s => subscribe t k s) t) k =
      if ss = [] then dictGet? t k else some ((dictGet? t k).getD [] ++ ss) := by
  induction ss generalizing t with
  | nil => simp
  | cons s ss ih =>
    simp only [List.foldl_cons, reduceCtorEq, if_false]
    rw [ih, subscribe_appends]
    split
    · rename_i h; subst h; simp
    · simp

/-! ### fan-out: every subscriber exactly once, in registration order -/

/-- callbacks that do not raise are all invoked, once each, in registration order -/
theorem runSubs_all (subs : List Sub) (mk : Nat → LogEntry) (h : ∀ s ∈ subs, s.raises = false) :
    runSubs subs mk = (subs.map (fun s => mk s.tag), false) := by
  induction subs with
  | nil => rfl
  | cons s rest ih =>
    unfold runSubs
    simp only [h s (List.mem_cons_self ..), Bool.false_eq_true, if_false]
    rw [ih (fun x hx => h x (List.mem_cons_of_mem _ hx))]
    rfl

theorem runSubs_count (subs : List Sub) (mk : Nat → LogEntry) (h : ∀ s ∈ subs, s.raises = false) :
    (runSubs subs mk).1.length = subs.length := by
  rw [runSubs_all subs mk h]; simp

/-! ### method calls -/

/-- positional / keyword split of decoded arguments -/
def positional (args : List (Option String × Ty)) (vals : List Val) : List Val :=
  (args.zip vals).filterMap fun ((n, _), v) => if n.isNone then some v else none

def keywords (args : List (Option String × Ty)) (vals : List Val) : List (String × Val) :=
  ((args.zip vals).filterMap fun ((n, _), v) => n.map (fun s => (s, v))).foldl
    (fun acc kv => dictSet acc kv.1 kv.2) []

/-- **No subscriber: no effect, nothing decoded** — for every payload byte string, so an
undecodable payload there cannot fail the parse. -/
theorem unsubscribed_noop (reg : Registry) (e : Entity) (idx : Nat) (m : MethodDef) (data : Bytes)
    (hm : e.view.methods[idx]? = some m)
    (hs : (dictGet? reg.methods (e.view.name ++ "_" ++ m.name)).getD [] = []) :
    methodCall reg e idx data = ([], none) := by
  unfold methodCall
  simp only [hm, hs]

theorem unsubscribed_step_noop (cfg : Config) (w : World) (id : Int) (idx : Nat) (data : Bytes) (e : Entity)
    (m : MethodDef) (he : w.get? id = some e) (hm : e.view.methods[idx]? = some m)
    (hs : (dictGet? cfg.reg.methods (e.view.name ++ "_" ++ m.name)).getD [] = []) :
    stepEntityMethod cfg w id idx data = ⟨w, none⟩ := by
  unfold stepEntityMethod
  simp only [he, unsubscribed_noop cfg.reg e idx m data hm hs, List.append_nil]

/-- **Dispatch**: a call to a subscribed method whose payload decodes invokes every
subscriber of the key exactly once, in registration order, with that entity, the unnamed
arguments positionally and the named ones by keyword. -/
theorem dispatch_method (reg : Registry) (e : Entity) (idx : Nat) (m : MethodDef) (data rest : Bytes)
    (subs : List Sub) (vals : List Val) (hm : e.view.methods[idx]? = some m)
    (hs : dictGet? reg.methods (e.view.name ++ "_" ++ m.name) = some subs) (hne : subs ≠ [])
    (hr : ∀ s ∈ subs, s.raises = false)
    (hd : decodeArgs m.header (m.args.map (·.2)) data = .ok (vals, rest)) :
    methodCall reg e idx data =
      (subs.map (fun s => LogEntry.method (e.view.name ++ "_" ++ m.name) s.tag e.id
        (positional m.args vals) (keywords m.args vals)), none) := by
  unfold methodCall
  simp only [hm, hs, Option.getD_some]
  cases subs with
  | nil => exact absurd rfl hne
  | cons s ss =>
    simp only [hd]
    rw [runSubs_all (s :: ss) _ hr]
    simp [positional, keywords]

/-- an undecodable payload on a subscribed method fails before any callback runs -/
theorem undecodable_call_clean (reg : Registry) (e : Entity) (idx : Nat) (m : MethodDef) (data : Bytes)
    (s : Sub) (ss : List Sub) (er : Err) (hm : e.view.methods[idx]? = some m)
    (hs : dictGet? reg.methods (e.view.name ++ "_" ++ m.name) = some (s :: ss))
    (hd : decodeArgs m.header (m.args.map (·.2)) data = .error er) :
    methodCall reg e idx data = ([], some er) := by
  unfold methodCall
  simp only [hm, hs, Option.getD_some, hd]

/-! ### property changes -/

/-- property subscribers receive (entity, new value), once each, after the value is stored -/
theorem dispatch_property (reg : Registry) (e : Entity) (idx : Nat) (p : PropDef) (data rest : Bytes)
    (v : Val) (subs : List Sub) (hp : e.view.clientProps[idx]? = some p)
    (hd : decode 1 p.ty data = .ok (v, rest))
    (hs : (dictGet? reg.props (e.view.name ++ "_" ++ p.name)).getD [] = subs)
    (hr : ∀ s ∈ subs, s.raises = false) :
    setClientProperty reg e idx data =
      ({ e with client := dictSet e.client p.name v }, rest,
       subs.map (fun s => LogEntry.prop (e.view.name ++ "_" ++ p.name) s.tag e.id v), none) := by
  unfold setClientProperty
  simp only [hp, hd, hs]
  rw [runSubs_all subs _ hr]
  rfl

/-! ### stream order -/

theorem put_log (w : World) (e : Entity) : (w.put e).log = w.log := rfl
theorem finish_log (w : World) (i : Int) (sp : Bool) : (finishPlayer w i sp).log = w.log := by
  unfold finishPlayer; split <;> rfl

theorem playerCreate_log (cfg : Config) (w : World) (id : Int) (v : Bytes) (b sp wp : Bool) :
    (playerCreate cfg w id v b sp wp).world.log = w.log := by
  unfold playerCreate
  split
  · simp only; split
    · rfl
    · simp only [ok, finish_log, put_log]
  · split
    · rfl
    · simp only; split
      · rfl
      · simp only [ok, finish_log, put_log]

theorem stepEntityCreate_log (cfg : Config) (w : World) (id ty : Int) (st : Bytes) :
    ∃ l, (stepEntityCreate cfg w id ty st).world.log = w.log ++ l := by
  unfold stepEntityCreate
  split
  · exact ⟨[], by simp [fail]⟩
  · split
    · exact ⟨[], by simp [fail]⟩
    · simp only; split
      · exact ⟨_, rfl⟩
      · split
        · exact ⟨_, rfl⟩
        · exact ⟨_, rfl⟩

theorem stepEntityProperty_log (cfg : Config) (w : World) (id : Int) (idx : Nat) (d : Bytes) :
    ∃ l, (stepEntityProperty cfg w id idx d).world.log = w.log ++ l := by
  unfold stepEntityProperty
  split
  · exact ⟨[], by simp [fail]⟩
  · simp only; split <;> exact ⟨_, rfl⟩

theorem stepEntityMethod_log (cfg : Config) (w : World) (id : Int) (idx : Nat) (d : Bytes) :
    ∃ l, (stepEntityMethod cfg w id idx d).world.log = w.log ++ l := by
  unfold stepEntityMethod
  split
  · exact ⟨[], by simp [fail]⟩
  · exact ⟨_, rfl⟩

theorem stepNested_log (cfg : Config) (w : World) (id : Int) (sl : Bool) (d : Bytes) :
    ∃ l, (stepNested cfg w id sl d).world.log = w.log ++ l := by
  unfold stepNested
  split
  · exact ⟨[], by simp [fail]⟩
  · split
    · exact ⟨[], by simp [fail]⟩
    · exact ⟨[], by simp [fail]⟩
    · simp only; split <;> exact ⟨_, rfl⟩

theorem stepPosition_log (w : World) (id : Int) (p : Pose) : (stepPosition w id p).world.log = w.log := by
  unfold stepPosition; split <;> rfl

theorem stepPlayerPosition_log (w : World) (i1 i2 : Int) (p : Pose) :
    (stepPlayerPosition w i1 i2 p).world.log = w.log := by
  unfold stepPlayerPosition
  split
  · split
    · simp only; split <;> rfl
    · rfl
  · split
    · split <;> rfl
    · rfl

theorem stepLookup_log (w : World) (id : Int) : (stepLookup w id).world.log = w.log := by
  unfold stepLookup; split <;> rfl

/-- a step only ever appends to the invocation log: entries appear in stream order -/
theorem step_log_append (cfg : Config) (w : World) (p : Packet) :
    ∃ l, (step cfg w p).world.log = w.log ++ l := by
  unfold step
  split
  all_goals first
    | exact ⟨[], by rw [playerCreate_log]; simp⟩
    | exact stepEntityCreate_log ..
    | exact stepEntityProperty_log ..
    | exact stepEntityMethod_log ..
    | exact stepNested_log ..
    | exact ⟨[], by rw [stepPosition_log]; simp⟩
    | exact ⟨[], by rw [stepPlayerPosition_log]; simp⟩
    | exact ⟨[], by rw [stepLookup_log]; simp⟩
    | exact ⟨[], by simp [ok]⟩

/-- Non-vacuity: three registrations for one key, all delivered. -/
example : dictGet? ([⟨0, false⟩, ⟨1, false⟩, ⟨2, false⟩].foldl (fun t s => subscribe t "A_m" s) []) "A_m"
    = some [⟨0, false⟩, ⟨1, false⟩, ⟨2, false⟩] := by
  rw [subscribe_many]; rfl

/-! ### nested-change subscribers -/

/-- the keys of the nested table that match a full path hash (`key in hash`: substring), in table order -/
def nestedHits (reg : Registry) (full : String) : List (String × List Sub) :=
  reg.nested.filter (fun kv => (full.splitOn kv.1).length > 1)

/-- fan-out over several keys: with callbacks that do not raise, every subscriber of every
matching key is invoked exactly once, keys in table order, subscribers in registration order -/
theorem nested_runAll_all (e : Entity) (obj : Val) (path : String) (hs : List (String × List Sub))
    (h : ∀ kv ∈ hs, ∀ s ∈ kv.2, s.raises = false) :
    applyNested.runAll e obj path hs =
      (hs.flatMap (fun kv => kv.2.map (fun s => LogEntry.nested kv.1 s.tag e.id path obj)), false) := by
  induction hs with
  | nil => rfl
  | cons kv rest ih =>
    obtain ⟨k, subs⟩ := kv
    unfold applyNested.runAll
    rw [runSubs_all subs _ (h (k, subs) (List.mem_cons_self ..))]
    simp only [Bool.false_eq_true, if_false]
    rw [ih (fun x hx => h x (List.mem_cons_of_mem _ hx))]
    simp [List.flatMap_cons]

/-- **Nested-change subscribers are called exactly once per matching key.** Whenever a nested
update succeeds and hands a container to the subscribers (`out.notify = some obj`), the log
of the call is the fan-out over the matching keys with the dotted path and that container as
arguments; when it hands nothing (element cleared, pure slice delete) nobody is called. -/
theorem dispatch_nested (reg : Registry) (e e' : Entity) (sl : Bool) (payload : Bytes) (l : List LogEntry) (raised : Bool)
    (h : applyNested reg e sl payload = .ok (e', l, raised))
    (hnr : ∀ kv ∈ reg.nested, ∀ s ∈ kv.2, s.raises = false) :
    raised = false ∧
    (l = [] ∨ ∃ path obj, l = (nestedHits reg (e.view.name ++ "_" ++ path)).flatMap
        (fun kv => kv.2.map (fun s => LogEntry.nested kv.1 s.tag e.id path obj))) := by
  unfold applyNested at h
  simp only at h
  split at h
  · cases h
  · split at h
    · cases h
    · split at h
      · cases h
      · split at h
        · cases h
        · split at h
          · cases h
          · split at h
            · cases h
            · split at h
              · simp only [Except.ok.injEq, Prod.mk.injEq] at h
                obtain ⟨_, rfl, rfl⟩ := h
                exact ⟨rfl, Or.inl rfl⟩
              · simp only [Except.ok.injEq, Prod.mk.injEq] at h
                obtain ⟨_, hl, hr⟩ := h
                rw [nested_runAll_all _ _ _ _ (fun kv hkv => hnr kv (List.mem_filter.mp hkv).1)] at hl hr
                exact ⟨hr.symm, Or.inr ⟨_, _, hl.symm⟩⟩


end ReplayModel.C07
