/-
C12 — strict mode fails fast, lenient mode skips exactly the failing packets.
-/
import ReplayModel.World
import ReplayModel.Play
import ReplayProofs.Lemmas.World
import ReplayProofs.C05
import ReplayModel.Pipeline
namespace ReplayModel.C12
open ReplayModel

variable (jsonOk : Bytes → Bool) (cfg : Config)

/-- no packet of `ps` fails when played from `w` -/
def NoFail : World → List NetPacket → Prop
  | _, [] => True
  | w, np :: rest => (stepNet jsonOk cfg w np).err = none ∧ NoFail (stepNet jsonOk cfg w np).world rest

/-- the world after playing a fault-free list -/
def runAll : World → List NetPacket → World
  | w, [] => w
  | w, np :: rest => runAll (stepNet jsonOk cfg w np).world rest

/-- **Fault-free stream: both modes give identical results.** -/
theorem modes_agree (ps : List NetPacket) : ∀ (w : World) (i : Nat) (failed : List (Nat × Err)),
    NoFail jsonOk cfg w ps →
    playPackets jsonOk cfg true w i ps failed = playPackets jsonOk cfg false w i ps failed ∧
    playPackets jsonOk cfg false w i ps failed = (runAll jsonOk cfg w ps, none, failed) := by
  induction ps with
  | nil => intro w i failed _; exact ⟨rfl, rfl⟩
  | cons np rest ih =>
    intro w i failed h
    obtain ⟨h1, h2⟩ := h
    unfold playPackets
    simp only [h1]
    exact ih _ _ _ h2

/-- **Lenient mode never raises out of the packet loop.** -/
theorem lenient_no_raise (ps : List NetPacket) : ∀ (w : World) (i : Nat) (failed : List (Nat × Err)),
    (playPackets jsonOk cfg false w i ps failed).2.1 = none := by
  induction ps with
  | nil => intro w i failed; rfl
  | cons np rest ih =>
    intro w i failed
    unfold playPackets
    simp only
    cases (stepNet jsonOk cfg w np).err with
    | none => exact ih _ _ _
    | some e => simp only [Bool.false_eq_true, if_false]; exact ih _ _ _

/-- so a lenient play ends `finished`, or `headerShort` when the stream ends inside a header -/
theorem lenient_total (w : World) (stream : Bytes) :
    (play jsonOk cfg false w stream).ending = .finished ∨ (play jsonOk cfg false w stream).ending = .headerShort := by
  unfold play
  simp only [lenient_no_raise]
  cases (parsePackets stream).2 <;> simp [endingOf]

/-- **Strict mode fails fast.** Either nothing fails (and the result is the lenient one), or
the list splits as `pre ++ np :: post` where `pre` is fault-free, `np` fails with `e`, the
reported exception is that of `np` (index `i + |pre|`), and the world is the one reached
after `pre` plus whatever `np` changed before failing — nothing of `post` is applied. -/
theorem strict_prefix (ps : List NetPacket) : ∀ (w : World) (i : Nat) (failed : List (Nat × Err)),
    (NoFail jsonOk cfg w ps ∧ playPackets jsonOk cfg true w i ps failed = (runAll jsonOk cfg w ps, none, failed)) ∨
    (∃ pre np post e, ps = pre ++ np :: post ∧ NoFail jsonOk cfg w pre ∧
      (stepNet jsonOk cfg (runAll jsonOk cfg w pre) np).err = some e ∧
      playPackets jsonOk cfg true w i ps failed =
        ((stepNet jsonOk cfg (runAll jsonOk cfg w pre) np).world, some (i + pre.length, e),
         failed ++ [(i + pre.length, e)])) := by
  induction ps with
  | nil => intro w i failed; exact Or.inl ⟨trivial, rfl⟩
  | cons np rest ih =>
    intro w i failed
    cases hr : (stepNet jsonOk cfg w np).err with
    | some e =>
      refine Or.inr ⟨[], np, rest, e, rfl, trivial, hr, ?_⟩
      unfold playPackets
      simp [hr, runAll]
    | none =>
      rcases ih (stepNet jsonOk cfg w np).world (i + 1) failed with ⟨hn, hp⟩ | ⟨pre, np', post, e, hps, hn, he, hp⟩
      · refine Or.inl ⟨⟨hr, hn⟩, ?_⟩
        unfold playPackets
        simp only [hr]
        exact hp
      · refine Or.inr ⟨np :: pre, np', post, e, by rw [hps]; rfl, ⟨hr, hn⟩, he, ?_⟩
        unfold playPackets
        simp only [hr, hp, runAll, List.length_cons]
        have : i + 1 + pre.length = i + (pre.length + 1) := by omega
        rw [this]

/-- the packets that do not fail along the lenient run -/
def survivors : World → List NetPacket → List NetPacket
  | _, [] => []
  | w, np :: rest =>
    if (stepNet jsonOk cfg w np).err.isNone then np :: survivors (stepNet jsonOk cfg w np).world rest
    else survivors (stepNet jsonOk cfg w np).world rest

/-- every failure along the lenient run is clean: the failing packet left the world as it was -/
def AllClean : World → List NetPacket → Prop
  | _, [] => True
  | w, np :: rest =>
    ((stepNet jsonOk cfg w np).err ≠ none → (stepNet jsonOk cfg w np).world = w) ∧
    AllClean (stepNet jsonOk cfg w np).world rest

/-- **Lenient mode skips exactly the failing packets.** When the failing packets are clean,
the lenient result is the result of the stream without them, which plays without any failure
(in either mode), every later packet being applied exactly as there. -/
theorem lenient_eq_filtered (ps : List NetPacket) : ∀ (w : World) (i : Nat) (failed : List (Nat × Err)),
    AllClean jsonOk cfg w ps →
    NoFail jsonOk cfg w (survivors jsonOk cfg w ps) ∧
    (playPackets jsonOk cfg false w i ps failed).1 = runAll jsonOk cfg w (survivors jsonOk cfg w ps) := by
  induction ps with
  | nil => intro w i failed _; exact ⟨trivial, rfl⟩
  | cons np rest ih =>
    intro w i failed hc
    obtain ⟨hclean, hrest⟩ := hc
    cases hr : (stepNet jsonOk cfg w np).err with
    | none =>
      obtain ⟨h1, h2⟩ := ih (stepNet jsonOk cfg w np).world (i + 1) failed hrest
      refine ⟨?_, ?_⟩
      · simp only [survivors, hr, Option.isNone_none, if_true]
        exact ⟨hr, h1⟩
      · unfold playPackets
        simp only [hr, survivors, Option.isNone_none, if_true, runAll]
        exact h2
    | some e =>
      have hw : (stepNet jsonOk cfg w np).world = w := hclean (by rw [hr]; simp)
      obtain ⟨h1, h2⟩ := ih (stepNet jsonOk cfg w np).world (i + 1) (failed ++ [(i, e)]) hrest
      rw [hw] at h1 h2
      refine ⟨?_, ?_⟩
      · simp only [survivors, hr, Option.isNone_some, Bool.false_eq_true, if_false, hw]
        exact h1
      · unfold playPackets
        simp only [hr, Bool.false_eq_true, if_false, survivors, Option.isNone_some, hw]
        exact h2

/-! ### the failures the property names are clean -/

theorem map_update_stored (l : List (Int × Entity)) (id : Int) (e : Entity) (hn : (l.map (·.1)).Nodup)
    (hf : l.find? (fun p => p.1 == id) = some (id, e)) :
    l.map (fun p => if p.1 == id then (id, e) else p) = l := by
  induction l with
  | nil => rfl
  | cons p l ih =>
    simp only [List.map_cons, List.nodup_cons] at hn
    simp only [List.map_cons]
    by_cases hp : p.1 = id
    · have h1 : (p.1 == id) = true := by simpa using hp
      simp only [List.find?_cons, h1, Option.some.injEq] at hf
      simp only [h1, if_true]
      rw [← hf]
      congr 1
      rw [hf]
      have hid : ∀ q ∈ l, (if (q.1 == id) = true then (id, e) else q) = q := by
        intro q hq
        have : q.1 ≠ id := by
          intro hc
          apply hn.1
          rw [hp, ← hc]
          exact List.mem_map.mpr ⟨q, hq, rfl⟩
        have h2 : (q.1 == id) = false := by simpa using this
        simp [h2]
      rw [List.map_congr_left hid, List.map_id']
    · have h1 : (p.1 == id) = false := by simpa using hp
      simp only [List.find?_cons, h1] at hf
      simp only [h1, Bool.false_eq_true, if_false]
      congr 1
      exact ih hn.2 hf

/-- `put` of the stored entity changes nothing (keys are unique) -/
theorem put_stored (w : World) (id : Int) (e : Entity) (hwf : w.WF)
    (hn : (w.entities.map (·.1)).Nodup) (hg : w.get? id = some e) : w.put e = w := by
  have hid : e.id = id := World.get_wf w hwf id e hg
  unfold World.get? at hg
  cases hf : w.entities.find? (fun p => p.1 == id) with
  | none => simp [hf] at hg
  | some p =>
    simp only [hf, Option.map_some, Option.some.injEq] at hg
    have hk : p.1 = id := by have := List.find?_some hf; simpa using this
    have hp : p = (id, e) := by rw [← hg, ← hk]
    rw [hp] at hf
    unfold World.put
    have hany : w.entities.any (fun p => p.1 == e.id) = true := by
      simp only [List.any_eq_true]
      exact ⟨(id, e), List.mem_of_find?_eq_some hf, by simp [hid]⟩
    rw [hid] at hany
    simp only [hid, hany, if_true, map_update_stored w.entities id e hn hf]

/-- world invariant used by the clean-failure theorems; holds in every reachable world
(`C05.step_wf`, `C05.step_nodup`) -/
def Inv (w : World) : Prop := w.WF ∧ C05.NodupIds w

theorem inv_step (w : World) (p : Packet) (h : Inv w) : Inv (step cfg w p).world :=
  ⟨C05.step_wf cfg w p h.1, C05.step_nodup cfg w p h.2⟩

theorem inv_empty : Inv {} := by
  refine ⟨?_, ?_⟩
  · intro p hp; cases hp
  · unfold C05.NodupIds; exact List.nodup_nil

/-- **Unknown entity**: property update, method call, nested update, position — the packet
fails and leaves no trace. -/
theorem unknown_entity_clean (w : World) (id : Int) (hn : w.get? id = none) (idx : Nat) (data : Bytes)
    (sl : Bool) (pose : Pose) :
    stepEntityProperty cfg w id idx data = fail w .unknownEntity ∧
    stepEntityMethod cfg w id idx data = fail w .unknownEntity ∧
    stepNested cfg w id sl data = fail w .unknownEntity ∧
    stepPosition w id pose = fail w .unknownEntity := by
  refine ⟨?_, ?_, ?_, ?_⟩
  · unfold stepEntityProperty; simp [hn]
  · unfold stepEntityMethod; simp [hn]
  · unfold stepNested; simp [hn]
  · unfold stepPosition; simp [hn]

/-- **Method id out of range**: fails, no trace. -/
theorem method_index_clean (w : World) (id : Int) (e : Entity) (idx : Nat) (data : Bytes)
    (he : w.get? id = some e) (hi : e.view.methods[idx]? = none) :
    stepEntityMethod cfg w id idx data = fail w .badIndex := by
  unfold stepEntityMethod methodCall
  simp [he, hi]

/-- **Undecodable arguments of a subscribed call**: fails before any callback, no trace. -/
theorem method_undecodable_clean (w : World) (id : Int) (e : Entity) (idx : Nat) (data : Bytes) (m : MethodDef)
    (s : Sub) (ss : List Sub) (er : Err) (he : w.get? id = some e) (hm : e.view.methods[idx]? = some m)
    (hs : dictGet? cfg.reg.methods (e.view.name ++ "_" ++ m.name) = some (s :: ss))
    (hd : decodeArgs m.header (m.args.map (·.2)) data = .error er) :
    stepEntityMethod cfg w id idx data = fail w er := by
  unfold stepEntityMethod methodCall
  simp [he, hm, hs, hd]

/-- **Property id out of range / undecodable value**: the value is decoded before anything is
assigned, so the failing update leaves the world exactly as it was. -/
theorem property_failure_clean (w : World) (id : Int) (e : Entity) (idx : Nat) (data : Bytes) (hinv : Inv w)
    (he : w.get? id = some e)
    (hbad : e.view.clientProps[idx]? = none ∨
      ∃ p er, e.view.clientProps[idx]? = some p ∧ decode 1 p.ty data = .error er) :
    (stepEntityProperty cfg w id idx data).err ≠ none ∧ (stepEntityProperty cfg w id idx data).world = w := by
  have hput : w.put e = w := put_stored w id e hinv.1 hinv.2 he
  unfold stepEntityProperty
  simp only [he]
  rcases hbad with hi | ⟨p, er, hp, hd⟩
  · have : setClientProperty cfg.reg e idx data = (e, data, [], some .badIndex) := by
      unfold setClientProperty; simp [hi]
    rw [this]
    simp [hput]
  · have : setClientProperty cfg.reg e idx data = (e, data, [], some er) := by
      unfold setClientProperty; simp [hp, hd]
    rw [this]
    simp [hput]

/-- Non-vacuity: a stream with one failing packet between two good ones (unmapped packets
are good) has a non-trivial `survivors` list. -/
example : survivors (fun _ => true) ⟨⟨[]⟩, {}, wowsOld, {}⟩ {}
    [⟨0x99, 0, [], 0⟩, ⟨0x7, 0, [1, 0, 0, 0, 0, 0, 0, 0, 0, 0, 0, 0], 12⟩, ⟨0x98, 0, [], 0⟩]
    = [⟨0x99, 0, [], 0⟩, ⟨0x98, 0, [], 0⟩] := by
  decide +kernel

/-! ### runs of failing packets -/

/-- the failures recorded for `n` copies of a packet that fails with `e`, starting at index `i` -/
def runFailures (i n : Nat) (e : Err) : List (Nat × Err) := (List.range n).map (fun k => (i + k, e))

/-- **A run of failing packets of any length is skipped one by one**: `n` copies of a packet that
fails without changing the world are each recorded as failed, the world stays as it was, and
playing continues with whatever follows — there is no count after which lenient mode gives up. -/
theorem lenient_run_of_failures (np : NetPacket) (e : Err) (rest : List NetPacket) :
    ∀ (n : Nat) (w : World) (i : Nat) (failed : List (Nat × Err)),
    (stepNet jsonOk cfg w np).err = some e → (stepNet jsonOk cfg w np).world = w →
    playPackets jsonOk cfg false w i (List.replicate n np ++ rest) failed =
      playPackets jsonOk cfg false w (i + n) rest (failed ++ runFailures i n e) := by
  intro n
  induction n with
  | zero => intro w i failed _ _; simp [runFailures]
  | succ n ih =>
    intro w i failed he hw
    rw [List.replicate_succ, List.cons_append]
    have step : playPackets jsonOk cfg false w i (np :: (List.replicate n np ++ rest)) failed =
        playPackets jsonOk cfg false w (i + 1) (List.replicate n np ++ rest) (failed ++ [(i, e)]) := by
      conv => lhs; unfold playPackets
      simp only [he, hw, Bool.false_eq_true, if_false]
    rw [step, ih w (i + 1) (failed ++ [(i, e)]) he hw]
    have hidx : i + 1 + n = i + (n + 1) := by omega
    have hfail : failed ++ [(i, e)] ++ runFailures (i + 1) n e = failed ++ runFailures i (n + 1) e := by
      simp only [runFailures, List.append_assoc]
      congr 1
      rw [List.range_succ_eq_map, List.map_cons, List.map_map]
      simp only [Nat.add_zero, List.singleton_append, List.cons.injEq, true_and]
      apply List.map_congr_left
      intro k _
      simp only [Function.comp]
      congr 1
      omega
    rw [hidx, hfail]

/-! ### the top of the pipeline: `ReplayParser.get_info` (model: `ReplayModel/Pipeline.lean`) -/

/-- **The top-level call returns a result object in lenient mode** whenever the container
itself can be read — whatever the version field, the bundle and the stream contain. -/
theorem getInfo_lenient_returns (env : Env) (ext : String) (file : Bytes) (info : ReplayInfo)
    (h : readContainer env.D env.inflate ext file = .ok info) :
    ∃ hidden error, getInfo env false ext file = .returns info hidden error := by
  unfold getInfo
  simp only [h, Bool.false_eq_true, if_false]
  cases hv : env.versionOf info.game info.engine with
  | none => exact ⟨none, none, rfl⟩
  | some vs =>
    simp only
    cases hs : selectVersion env.bundled info.game vs with
    | error r => exact ⟨none, r.message, rfl⟩
    | ok sel =>
      simp only
      cases he : (play env.jsonOk (configOf env info.game sel) false {} info.stream).ending with
      | finished => exact ⟨_, _, rfl⟩
      | headerShort => exact ⟨_, _, rfl⟩
      | raised i e => exact ⟨_, _, rfl⟩

/-- a strict play that ends `finished` is the lenient play -/
theorem play_strict_finished (w : World) (stream : Bytes)
    (h : (play jsonOk cfg true w stream).ending = .finished) :
    play jsonOk cfg false w stream = play jsonOk cfg true w stream := by
  simp only [play] at h ⊢
  rcases strict_prefix jsonOk cfg (parsePackets stream).1 w 0 [] with ⟨hnf, _⟩ | ⟨pre, np, post, e, _, _, _, hp⟩
  · rw [(modes_agree jsonOk cfg _ w 0 [] hnf).1]
  · simp only [hp, endingOf] at h
    cases h

/-- **Both modes agree at the top level**: whatever strict mode returns, lenient mode returns
the same object (strict mode only ever *adds* exceptions). -/
theorem getInfo_strict_returns_lenient (env : Env) (ext : String) (file : Bytes) (info : ReplayInfo)
    (hidden : Option PlayResult) (error : Option String)
    (h : getInfo env true ext file = .returns info hidden error) :
    getInfo env false ext file = .returns info hidden error := by
  unfold getInfo at h ⊢
  cases hr : readContainer env.D env.inflate ext file with
  | error e => simp [hr] at h
  | ok inf =>
    simp only [hr, if_true] at h ⊢
    cases hv : env.versionOf inf.game inf.engine with
    | none => simp [hv] at h
    | some vs =>
      simp only [hv] at h ⊢
      cases hs : selectVersion env.bundled inf.game vs with
      | error r => simp [hs] at h
      | ok sel =>
        simp only [hs] at h ⊢
        cases he : (play env.jsonOk (configOf env inf.game sel) true {} inf.stream).ending with
        | finished =>
          rw [play_strict_finished env.jsonOk _ {} inf.stream he, he]
          rw [he] at h
          exact h
        | headerShort => rw [he] at h; cases h
        | raised i e => rw [he] at h; cases h


end ReplayModel.C12
