/-
C11 — the replay version selects matching definitions, controller and packet table.
-/
import ReplayModel.Version
import ReplayModel.Pipeline
namespace ReplayModel.C11
open ReplayModel

/-- **4-then-3 resolution**: the four-component version if bundled, otherwise the
three-component one if bundled, otherwise refusal. -/
theorem resolve_spec (bundled : List String) (comps : List String) :
    (underscored comps 4 ∈ bundled → resolve bundled comps = some (underscored comps 4)) ∧
    (underscored comps 4 ∉ bundled → underscored comps 3 ∈ bundled →
      resolve bundled comps = some (underscored comps 3)) ∧
    (underscored comps 4 ∉ bundled → underscored comps 3 ∉ bundled → resolve bundled comps = none) := by
  unfold resolve
  refine ⟨?_, ?_, ?_⟩
  · intro h; simp [h]
  · intro h4 h3; simp [h4, h3]
  · intro h4 h3; simp [h4, h3]

/-- whatever is selected is bundled: never some other version's data -/
theorem resolve_mem (bundled : List String) (comps : List String) (v : String)
    (h : resolve bundled comps = some v) : v ∈ bundled ∧ (v = underscored comps 4 ∨ v = underscored comps 3) := by
  unfold resolve at h
  split at h
  · rename_i h4; cases h; exact ⟨by simpa using h4, Or.inl rfl⟩
  · split at h
    · rename_i h3; cases h; exact ⟨by simpa using h3, Or.inr rfl⟩
    · cases h

/-- **Definitions and controller come from the same bundled version** whenever the two
bundled sets agree on the two candidate names (the agreement itself is a fact about the
tree, evaluated on the directory listing by the harness on every run; the only bundled
disagreement is wowp 0_3_3, which has definitions but no controller and is refused). -/
theorem defs_ctrl_same (b : Bundled) (comps : List String) (s : Selection)
    (h4 : (underscored comps 4 ∈ b.modules ↔ underscored comps 4 ∈ b.defs))
    (h3 : (underscored comps 3 ∈ b.modules ↔ underscored comps 3 ∈ b.defs))
    (h : selectWows b comps = .ok s) : s.controller = s.defs := by
  unfold selectWows at h
  cases hc : resolve b.modules comps with
  | none => simp [hc] at h
  | some c =>
    simp only [hc] at h
    split at h
    · cases h
    · cases hd : resolve b.defs comps with
      | none => simp [hd] at h
      | some d =>
        simp only [hd] at h
        cases ht : usesNewTable comps with
        | none => simp [ht] at h
        | some t =>
          simp only [ht, Except.ok.injEq] at h
          rw [← h]
          simp only
          unfold resolve at hc hd
          by_cases m4 : underscored comps 4 ∈ b.modules
          · have d4 := h4.mp m4
            simp [m4] at hc; simp [d4] at hd; rw [← hc, ← hd]
          · have d4 : underscored comps 4 ∉ b.defs := fun x => m4 (h4.mpr x)
            by_cases m3 : underscored comps 3 ∈ b.modules
            · have d3 := h3.mp m3
              simp [m4, m3] at hc; simp [d4, d3] at hd; rw [← hc, ← hd]
            · simp [m4, m3] at hc

/-- an unbundled version is refused, not played with another version's data -/
theorem unsupported_refused (b : Bundled) (comps : List String)
    (h4 : underscored comps 4 ∉ b.modules) (h3 : underscored comps 3 ∉ b.modules) :
    selectWows b comps = .error (.notSupportedController (underscored comps 3)) ∧
    selectWowp b comps = .error (.notSupportedController (underscored comps 3)) := by
  have : resolve b.modules comps = none := (resolve_spec b.modules comps).2.2 h4 h3
  constructor <;> simp [selectWows, selectWowp, this]

/-- the controller exists but the definitions do not: refused with the loader's message -/
theorem missing_defs_refused (b : Bundled) (comps : List String) (c : String)
    (hc : resolve b.modules comps = some c) (hk : c ∈ b.controllers)
    (h4 : underscored comps 4 ∉ b.defs) (h3 : underscored comps 3 ∉ b.defs) :
    selectWows b comps = .error .notSupportedDefs := by
  have : resolve b.defs comps = none := (resolve_spec b.defs comps).2.2 h4 h3
  simp [selectWows, hc, hk, this]

/-! ### the packet-table switch -/

theorem releaseGE_spec3 (a b c : Nat) :
    releaseGE [a, b, c] [12, 6, 0] = decide (a > 12 ∨ (a = 12 ∧ b ≥ 6)) := by
  simp only [releaseGE]
  by_cases h1 : a > 12
  · simp [h1]
  · by_cases h2 : a < 12
    · simp [h1, h2]; omega
    · have : a = 12 := by omega
      subst this
      by_cases h3 : b > 6
      · simp [h3]; omega
      · by_cases h4 : b < 6
        · simp [h3, h4]
        · have : b = 6 := by omega
          subst this
          simp

theorem releaseGE_spec4 (a b c d : Nat) :
    releaseGE [a, b, c, d] [12, 6, 0] = decide (a > 12 ∨ (a = 12 ∧ b ≥ 6)) := by
  simp only [releaseGE]
  by_cases h1 : a > 12
  · simp [h1]
  · by_cases h2 : a < 12
    · simp [h1, h2]; omega
    · have : a = 12 := by omega
      subst this
      by_cases h3 : b > 6
      · simp [h3]; omega
      · by_cases h4 : b < 6
        · simp [h3, h4]
        · have : b = 6 := by omega
          subst this
          simp

/-- **wows versions from 12.6.0 on use the renumbered table, earlier ones the old one** —
for every build number. -/
theorem table_switch (a b c d : Nat) (sa sb sc sd : String)
    (ha : natOf? sa = some a) (hb : natOf? sb = some b) (hc : natOf? sc = some c) (hd : natOf? sd = some d) :
    usesNewTable [sa, sb, sc, sd] = some (decide (a > 12 ∨ (a = 12 ∧ b ≥ 6))) ∧
    usesNewTable [sa, sb, sc] = some (decide (a > 12 ∨ (a = 12 ∧ b ≥ 6))) := by
  unfold usesNewTable
  simp only [List.mapM_cons, List.mapM_nil, ha, hb, hc, hd, bind, Option.bind, pure]
  exact ⟨by rw [releaseGE_spec4], by rw [releaseGE_spec3]⟩

/-! ### normalisation of the version strings -/

example : normWows "0,10, 7, 4373750" = ["0", "10", "7", "4373750"] := by decide +kernel
example : normWowp "World of Warplanes 2.1.17.1234" = ["2", "1", "17", "1234"] := by decide +kernel
example : normWot "World of Tanks v.1.8.0.2 #252" = "1.8.0" := by decide +kernel

/-- Non-vacuity of `defs_ctrl_same`; and why its hypothesis is needed (a hypothetical tree in
which a build-specific controller has no definitions of its own). -/
example : (selectWows ⟨["0_9_4", "0_9_4_2442770"], ["0_9_4", "0_9_4_2442770"], ["0_9_4", "0_9_4_2442770"]⟩
    ["0", "9", "4", "2442770"] |>.toOption) = some ⟨"0_9_4_2442770", "0_9_4_2442770", false⟩ := by decide +kernel

theorem split_bundle_example :
    (selectWows ⟨["13_0_0"], ["13_0_0", "13_0_0_7983292"], ["13_0_0", "13_0_0_7983292"]⟩
      ["13", "0", "0", "7983292"] |>.toOption) = some ⟨"13_0_0_7983292", "13_0_0", true⟩ := by decide +kernel

/-! ### the top of the pipeline: `ReplayParser.get_info` (model: `ReplayModel/Pipeline.lean`) -/

/-- **A version that does not resolve is refused at the top level**: strict mode raises,
lenient mode returns no summary, with the loader's "not supported" text where the refusal is a
`RuntimeError` — and no packet of the stream is played with some other version's data. -/
theorem getInfo_refused (env : Env) (strict : Bool) (ext : String) (file : Bytes) (info : ReplayInfo) (vs : String)
    (r : Refusal) (hc : readContainer env.D env.inflate ext file = .ok info)
    (hv : env.versionOf info.game info.engine = some vs)
    (hs : selectVersion env.bundled info.game vs = .error r) :
    getInfo env strict ext file = if strict then .raises else .returns info none r.message := by
  unfold getInfo
  simp only [hc, hv, hs]

/-- **What is played is exactly the selection**: when the version resolves, the hidden result
(when there is one) is the play of the file's stream with the definitions directory, the
controller module and the packet table of that one `Selection` — both loaders are asked for the
names the resolution returned, nothing else. -/
theorem getInfo_uses_selection (env : Env) (strict : Bool) (ext : String) (file : Bytes) (info info' : ReplayInfo) (vs : String)
    (sel : Selection) (res : PlayResult) (error : Option String)
    (hc : readContainer env.D env.inflate ext file = .ok info)
    (hv : env.versionOf info.game info.engine = some vs)
    (hs : selectVersion env.bundled info.game vs = .ok sel)
    (h : getInfo env strict ext file = .returns info' (some res) error) :
    info' = info ∧ error = none ∧
    res = play env.jsonOk { defs := env.defsOf info.game sel.defs, masks := env.masks,
                            dialect := dialectOf info.game sel, reg := env.regOf info.game sel.controller } strict {} info.stream := by
  unfold getInfo at h
  simp only [hc, hv, hs] at h
  cases he : (play env.jsonOk (configOf env info.game sel) strict {} info.stream).ending with
  | finished =>
    rw [he] at h
    simp only [GetInfo.returns.injEq, Option.some.injEq] at h
    exact ⟨h.1.symm, h.2.2.symm, h.2.1.symm⟩
  | headerShort => rw [he] at h; cases strict <;> simp at h
  | raised i e => rw [he] at h; cases strict <;> simp at h

/-- the wows table switch seen from the top: the dialect is the renumbered one iff the version is ≥ 12.6.0 -/
theorem dialectOf_wows (sel : Selection) :
    dialectOf .wows sel = if sel.newTable then wowsNew else wowsOld := rfl


end ReplayModel.C11
