import ReplayModel.Codec
import ReplayProofs.Lemmas.Bytes
namespace ReplayModel

/-- Strong induction principle for the nested inductive `Ty`. -/
theorem Ty.ind {P : Ty → Prop}
    (int : ∀ k s, P (.int k s)) (f32 : P .f32) (f64 : P .f64) (vec : ∀ n, P (.vec n))
    (blob : P .blob) (string : P .string) (python : P .python) (mailbox : P .mailbox)
    (array : ∀ e sz, P e → P (.array e sz))
    (fixedDict : ∀ fs an, (∀ p ∈ fs, P p.2) → P (.fixedDict fs an))
    (userType : ∀ t, P t → P (.userType t)) : ∀ t, P t := by
  intro t
  exact Ty.rec (motive_1 := P) (motive_2 := fun fs => ∀ p ∈ fs, P p.2) (motive_3 := fun p => P p.2)
    int f32 f64 vec blob string python mailbox
    (fun e sz ih => array e sz ih) (fun fs an ih => fixedDict fs an ih) (fun t ih => userType t ih)
    (by intro p hp; cases hp)
    (fun hd tl ih1 ih2 => by
      intro p hp
      cases hp with
      | head => exact ih1
      | tail _ h => exact ih2 p h)
    (fun _ t ih => ih) t

/-- generic: a reader that inverts an encoder element-wise inverts the concatenation -/
theorem repeatRd_flatMap (f : Bytes → Except Err (Val × Bytes)) (enc : Val → Bytes)
    (vs : List Val) (rest : Bytes)
    (hf : ∀ v ∈ vs, ∀ r, f (enc v ++ r) = .ok (v, r)) :
    repeatRd f vs.length (vs.flatMap enc ++ rest) = .ok (vs, rest) := by
  induction vs with
  | nil => simp [repeatRd]
  | cons v vs ih =>
    simp only [List.length_cons, repeatRd, List.flatMap_cons, List.append_assoc]
    rw [hf v (List.mem_cons_self ..)]
    simp only [bind, Except.bind]
    rw [ih (fun w hw r => hf w (List.mem_cons_of_mem _ hw) r)]
    rfl

theorem readF32s_flatMap (xs : List Nat) (rest : Bytes) (hx : ∀ x ∈ xs, x < 2 ^ 32) :
    readF32s xs.length (xs.flatMap (toLE 4) ++ rest) = .ok (xs, rest) := by
  induction xs with
  | nil => simp [readF32s]
  | cons x xs ih =>
    simp only [List.length_cons, readF32s, List.flatMap_cons, List.append_assoc]
    rw [readUIntLE_toLE 4 x _ (by have := hx x (List.mem_cons_self ..); omega)]
    simp only [bind, Except.bind]
    rw [ih (fun w hw => hx w (List.mem_cons_of_mem _ hw))]
    rfl

theorem flatMap_toLE_length (xs : List Nat) : (xs.flatMap (toLE 4)).length = 4 * xs.length := by
  induction xs with
  | nil => simp
  | cons x xs ih => simp [List.flatMap_cons, ih]; omega

end ReplayModel
