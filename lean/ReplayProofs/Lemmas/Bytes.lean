import ReplayModel.Bytes
namespace ReplayModel

@[simp] theorem toLE_length (k n : Nat) : (toLE k n).length = k := by
  induction k generalizing n with
  | zero => rfl
  | succ k ih => simp [toLE, ih]

theorem leNat_toLE (k n : Nat) : leNat (toLE k n) = n % 256 ^ k := by
  induction k generalizing n with
  | zero => simp [toLE, leNat, Nat.mod_one]
  | succ k ih =>
    simp only [toLE, leNat, ih]
    have h1 : (UInt8.ofNat (n % 256)).toNat = n % 256 := by
      simp [UInt8.toNat_ofNat']
    rw [h1, Nat.pow_succ, Nat.mul_comm (256 ^ k) 256, Nat.mod_mul]

theorem leNat_lt (bs : Bytes) : leNat bs < 256 ^ bs.length := by
  induction bs with
  | nil => simp [leNat]
  | cons b bs ih =>
    simp only [leNat, List.length_cons, Nat.pow_succ]
    have := b.toNat_lt
    omega

theorem toLE_leNat (bs : Bytes) : toLE bs.length (leNat bs) = bs := by
  induction bs with
  | nil => rfl
  | cons b bs ih =>
    simp only [List.length_cons, toLE, leNat]
    have hb := b.toNat_lt
    have h1 : (b.toNat + 256 * leNat bs) % 256 = b.toNat := by omega
    have h2 : (b.toNat + 256 * leNat bs) / 256 = leNat bs := by omega
    rw [h1, h2, ih]
    simp

theorem readN_append (n : Nat) (bs rest : Bytes) (h : bs.length = n) :
    readN n (bs ++ rest) = .ok (bs, rest) := by
  subst h
  simp [readN]

theorem readUIntLE_toLE (k n : Nat) (rest : Bytes) (h : n < 256 ^ k) :
    readUIntLE k (toLE k n ++ rest) = .ok (n, rest) := by
  simp [readUIntLE, readN_append _ _ _ (toLE_length k n), leNat_toLE, Nat.mod_eq_of_lt h, bind,
    Except.bind, pure, Except.pure]

theorem pow_two_eight (k : Nat) : 2 ^ (8 * k) = 256 ^ k := by
  rw [Nat.pow_mul]

theorem ofSigned_lt (k : Nat) (i : Int) : ofSigned k i < 256 ^ k := by
  unfold ofSigned
  rw [pow_two_eight]
  have hpos : (0 : Int) < ((256 ^ k : Nat) : Int) := by
    have : 0 < 256 ^ k := Nat.pow_pos (by decide)
    omega
  have h1 := Int.emod_lt_of_pos i hpos
  have h2 := Int.emod_nonneg i (Int.ne_of_gt hpos)
  omega

theorem toSigned_ofSigned (k : Nat) (hk : 0 < k) (i : Int)
    (h : -(2 ^ (8 * k - 1) : Nat) ≤ i ∧ i < (2 ^ (8 * k - 1) : Nat)) :
    toSigned k (ofSigned k i) = i := by
  unfold toSigned ofSigned
  have hp : 2 ^ (8 * k) = 2 * 2 ^ (8 * k - 1) := by
    have : 8 * k = (8 * k - 1) + 1 := by omega
    conv => lhs; rw [this, Nat.pow_succ]
    omega
  generalize 2 ^ (8 * k - 1) = m at *
  rw [hp]
  obtain ⟨h1, h2⟩ := h
  by_cases hi : 0 ≤ i
  · have : i % ((2 * m : Nat) : Int) = i := Int.emod_eq_of_lt hi (by omega)
    rw [this]
    have : (i.toNat : Int) = i := Int.toNat_of_nonneg hi
    split <;> omega
  · have e : i % ((2 * m : Nat) : Int) = i + (2 * m : Nat) := by
      have : (i + ((2 * m : Nat) : Int)) % ((2 * m : Nat) : Int) = i + (2 * m : Nat) :=
        Int.emod_eq_of_lt (by omega) (by omega)
      rw [← this, Int.add_emod_right]
    rw [e]
    have : ((i + ((2 * m : Nat) : Int)).toNat : Int) = i + (2 * m : Nat) :=
      Int.toNat_of_nonneg (by omega)
    split <;> omega

theorem unsigned_ofSigned (k : Nat) (i : Int) (h : 0 ≤ i ∧ i < (2 ^ (8 * k) : Nat)) :
    ((ofSigned k i : Nat) : Int) = i := by
  unfold ofSigned
  have : i % ((2 ^ (8 * k) : Nat) : Int) = i := Int.emod_eq_of_lt h.1 h.2
  rw [this]
  exact Int.toNat_of_nonneg h.1

theorem readPackedLen_writePackedLen (n : Nat) (rest : Bytes) (h : n < 2 ^ 24) :
    readPackedLen (writePackedLen n ++ rest) = .ok (n, rest) := by
  unfold writePackedLen readPackedLen
  split
  · rename_i h1
    have e : [UInt8.ofNat n] = toLE 1 n := by
      simp only [toLE]; rw [Nat.mod_eq_of_lt (by omega)]
    rw [e, readUIntLE_toLE 1 n rest (by omega)]
    simp [bind, Except.bind, pure, Except.pure]; omega
  · have e : (255 :: toLE 3 n ++ rest) = toLE 1 255 ++ (toLE 3 n ++ rest) := by simp [toLE]
    rw [e, readUIntLE_toLE 1 255 _ (by decide)]
    simp only [bind, Except.bind, if_true]
    exact readUIntLE_toLE 3 n rest (by omega)

theorem if_ok {α : Type} {c : Prop} [Decidable c] {x : Except Err α} {e : Err} {b : α} :
    (if c then x else .error e) = .ok b ↔ c ∧ x = .ok b := by
  split <;> simp_all

theorem map_ok {α β : Type} {f : α → β} {x : Except Err α} {b : β} :
    f <$> x = Except.ok b ↔ ∃ a, x = .ok a ∧ f a = b := by
  cases x <;> simp [Functor.map, Except.map]

end ReplayModel
