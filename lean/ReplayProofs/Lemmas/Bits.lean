import ReplayModel.Bits
namespace ReplayModel

def bitsValAcc (acc : Nat) (bs : List Bool) : Nat :=
  bs.foldl (fun acc b => 2 * acc + (if b then 1 else 0)) acc

theorem bitsVal_eq (bs : List Bool) : bitsVal bs = bitsValAcc 0 bs := rfl

@[simp] theorem bitsOfByte_length (b : UInt8) : (bitsOfByte b).length = 8 := by
  simp [bitsOfByte]

theorem pending_length (r : BitReader) :
    r.pending.length = r.cache.length + 8 * r.stream.length := by
  unfold BitReader.pending
  rw [List.length_append]
  congr 1
  induction r.stream with
  | nil => rfl
  | cons b bs ih => simp [List.flatMap_cons, ih]; omega

/-- one step of the reader in terms of the pending bit sequence -/
theorem nextBit_pending (r : BitReader) (b : Bool) (rest : List Bool)
    (hp : r.pending = b :: rest) :
    ∃ r', r.nextBit = .ok (b, r') ∧ r'.pending = rest ∧
      ((r'.stream = r.stream ∧ r'.cache.length + 1 = r.cache.length) ∨
       (r.cache = [] ∧ r'.stream = r.stream.drop 1 ∧ r'.cache.length = 7 ∧ r.stream ≠ [])) := by
  obtain ⟨stream, cache⟩ := r
  cases cache with
  | cons c cs =>
    simp only [BitReader.pending, List.cons_append, List.cons.injEq] at hp
    refine ⟨⟨stream, cs⟩, ?_, ?_, ?_⟩
    · simp [BitReader.nextBit, hp.1]
    · simpa [BitReader.pending] using hp.2
    · left; simp
  | nil =>
    cases stream with
    | nil => simp [BitReader.pending] at hp
    | cons x xs =>
      simp only [BitReader.pending, List.nil_append, List.flatMap_cons] at hp
      have h8 := bitsOfByte_length x
      match hx : bitsOfByte x with
      | [] => rw [hx] at h8; simp at h8
      | c :: cs =>
        rw [hx] at hp h8
        simp only [List.cons_append, List.cons.injEq] at hp
        refine ⟨⟨xs, cs⟩, ?_, ?_, ?_⟩
        · simp [BitReader.nextBit, hx, hp.1]
        · simpa [BitReader.pending] using hp.2
        · right; simp at h8; simp [h8]

theorem nextBit_exhausted (r : BitReader) (hp : r.pending = []) : r.nextBit = .error .other := by
  obtain ⟨stream, cache⟩ := r
  cases cache with
  | cons c cs => simp [BitReader.pending] at hp
  | nil =>
    cases stream with
    | nil => rfl
    | cons x xs =>
      have h8 := bitsOfByte_length x
      simp only [BitReader.pending, List.nil_append, List.flatMap_cons] at hp
      have : (bitsOfByte x).length = 0 := by
        have := congrArg List.length hp
        simp at this
      omega

/-- The reader state is consistent with having consumed bits of `bs`: the byte stream
is a suffix of `bs` and the cache holds fewer than 8 bits. -/
def BitReader.Inv (bs : Bytes) (r : BitReader) : Prop :=
  (∃ j, j ≤ bs.length ∧ r.stream = bs.drop j) ∧ r.cache.length < 8

theorem getAcc_pending (n : Nat) : ∀ (acc : Nat) (r : BitReader), n ≤ r.pending.length →
    ∃ r', r.getAcc n acc = .ok (bitsValAcc acc (r.pending.take n), r') ∧
      r'.pending = r.pending.drop n ∧ (∀ bs, r.Inv bs → r'.Inv bs) := by
  induction n with
  | zero => intro acc r _; exact ⟨r, by simp [BitReader.getAcc, bitsValAcc], by simp, fun _ h => h⟩
  | succ n ih =>
    intro acc r hn
    match hp : r.pending with
    | [] => rw [hp] at hn; simp at hn
    | b :: rest =>
      obtain ⟨r1, h1, h2, h3⟩ := nextBit_pending r b rest hp
      rw [hp] at hn
      have hn' : n ≤ r1.pending.length := by rw [h2]; simpa using hn
      obtain ⟨r2, g1, g2, g3⟩ := ih (2 * acc + (if b then 1 else 0)) r1 hn'
      refine ⟨r2, ?_, ?_, ?_⟩
      · simp only [BitReader.getAcc, h1, bind, Except.bind]
        rw [g1, h2]
        simp [bitsValAcc]
      · rw [g2, h2]; simp
      · intro bs hinv
        apply g3
        obtain ⟨⟨j, hj, hs⟩, hc⟩ := hinv
        rcases h3 with ⟨e1, e2⟩ | ⟨e0, e1, e2, e3⟩
        · exact ⟨⟨j, hj, by rw [e1, hs]⟩, by omega⟩
        · refine ⟨⟨j + 1, ?_, ?_⟩, by omega⟩
          · rw [hs] at e3
            have : j < bs.length := by
              rcases Nat.lt_or_ge j bs.length with h | h
              · exact h
              · exact absurd (List.drop_eq_nil_of_le h) e3
            omega
          · rw [e1, hs, List.drop_drop]

theorem getAcc_exhausted (n : Nat) : ∀ (acc : Nat) (r : BitReader), r.pending.length < n →
    r.getAcc n acc = .error .other := by
  induction n with
  | zero => intro acc r h; simp at h
  | succ n ih =>
    intro acc r hn
    match hp : r.pending with
    | [] => simp [BitReader.getAcc, nextBit_exhausted r hp, bind, Except.bind]
    | b :: rest =>
      obtain ⟨r1, h1, h2, _⟩ := nextBit_pending r b rest hp
      rw [hp] at hn
      simp only [BitReader.getAcc, h1, bind, Except.bind]
      exact ih _ r1 (by rw [h2]; simpa using hn)

end ReplayModel
