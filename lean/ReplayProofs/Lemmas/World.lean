import ReplayModel.World
namespace ReplayModel

/-! ### association lists with dict semantics -/

section assoc
variable {κ α : Type} [DecidableEq κ]

theorem find_map_update_other (l : List (κ × α)) (k k' : κ) (v : α) (hne : k' ≠ k) :
    (l.map (fun p => if p.1 == k then (k, v) else p)).find? (fun p => p.1 == k') =
      l.find? (fun p => p.1 == k') := by
  induction l with
  | nil => rfl
  | cons p l ih =>
    simp only [List.map_cons, List.find?_cons]
    by_cases hp : p.1 = k
    · have h2 : (k == k') = false := by simpa using (fun h => hne h.symm)
      have h3 : (p.1 == k') = false := by rw [hp]; exact h2
      have h1 : (p.1 == k) = true := by simpa using hp
      simp only [h1, if_true, h2, h3, Bool.false_eq_true, if_false]
      exact ih
    · have h1 : (p.1 == k) = false := by simpa using hp
      simp only [h1, Bool.false_eq_true, if_false]
      split
      · rfl
      · exact ih

theorem find_map_update_same (l : List (κ × α)) (k : κ) (v : α) (h : l.any (fun p => p.1 == k) = true) :
    (l.map (fun p => if p.1 == k then (k, v) else p)).find? (fun p => p.1 == k) = some (k, v) := by
  induction l with
  | nil => simp at h
  | cons p l ih =>
    simp only [List.map_cons, List.find?_cons]
    by_cases hp : p.1 = k
    · simp [hp]
    · have hp' : (p.1 == k) = false := by simpa using hp
      simp only [hp', Bool.false_eq_true, if_false]
      simp only [List.any_cons, hp', Bool.false_or] at h
      exact ih h

theorem find_append_new (l : List (κ × α)) (k : κ) (v : α) (h : l.any (fun p => p.1 == k) = false) :
    (l ++ [(k, v)]).find? (fun p => p.1 == k) = some (k, v) := by
  rw [List.find?_append]
  have : l.find? (fun p => p.1 == k) = none := by
    rw [List.find?_eq_none]
    intro x hx
    simp only [List.any_eq_false, beq_iff_eq] at h
    simpa using h x hx
  simp [this]

theorem find_append_other (l : List (κ × α)) (k k' : κ) (v : α) (hne : k' ≠ k) :
    (l ++ [(k, v)]).find? (fun p => p.1 == k') = l.find? (fun p => p.1 == k') := by
  rw [List.find?_append]
  have : (k == k') = false := by simpa using (fun h => hne h.symm)
  cases hd : l.find? (fun p => p.1 == k') <;> simp [this]

end assoc

theorem dictGet_dictSet_same {α : Type} (d : List (String × α)) (k : String) (v : α) :
    dictGet? (dictSet d k v) k = some v := by
  unfold dictSet dictGet?
  split
  · rename_i h
    rw [find_map_update_same d k v h]; rfl
  · rename_i h
    rw [find_append_new d k v (Bool.not_eq_true _ |>.mp h)]; rfl

theorem dictGet_dictSet_other {α : Type} (d : List (String × α)) (k k' : String) (v : α) (hne : k' ≠ k) :
    dictGet? (dictSet d k v) k' = dictGet? d k' := by
  unfold dictSet dictGet?
  split
  · rw [find_map_update_other d k k' v hne]
  · rw [find_append_other d k k' v hne]

/-- keys of a dict after an assignment: unchanged if present, appended otherwise -/
theorem dictSet_keys {α : Type} (d : List (String × α)) (k : String) (v : α) :
    (dictSet d k v).map (·.1) = if d.any (·.1 == k) then d.map (·.1) else d.map (·.1) ++ [k] := by
  unfold dictSet
  split
  · rw [List.map_map]
    apply List.map_congr_left
    intro p _
    simp only [Function.comp]
    split
    · rename_i h; simp at h; exact h.symm
    · rfl
  · simp

/-! ### the entity table -/

/-- keys agree with the ids stored in the entities -/
def World.WF (w : World) : Prop := ∀ p ∈ w.entities, p.2.id = p.1

theorem World.get_put_same (w : World) (e : Entity) : (w.put e).get? e.id = some e := by
  unfold World.put World.get?
  simp only
  split
  · rename_i h
    rw [find_map_update_same w.entities e.id e h]; rfl
  · rename_i h
    rw [find_append_new w.entities e.id e (Bool.not_eq_true _ |>.mp h)]; rfl

theorem World.get_put_other (w : World) (e : Entity) (j : Int) (hne : j ≠ e.id) :
    (w.put e).get? j = w.get? j := by
  unfold World.put World.get?
  simp only
  split
  · rw [find_map_update_other w.entities e.id j e hne]
  · rw [find_append_other w.entities e.id j e hne]

/-- ids in table order after `put`: unchanged if the id is known (replacement keeps the
position), appended otherwise -/
theorem World.put_ids (w : World) (e : Entity) :
    (w.put e).entities.map (·.1) =
      if w.entities.any (·.1 == e.id) then w.entities.map (·.1) else w.entities.map (·.1) ++ [e.id] := by
  unfold World.put
  simp only
  split
  · rw [List.map_map]
    apply List.map_congr_left
    intro p _
    simp only [Function.comp]
    split
    · rename_i h; simp at h; exact h.symm
    · rfl
  · simp

theorem World.put_wf (w : World) (e : Entity) (h : w.WF) : (w.put e).WF := by
  unfold World.WF World.put at *
  simp only
  split
  · intro p hp
    obtain ⟨q, hq, rfl⟩ := List.mem_map.mp hp
    split
    · rfl
    · exact h q hq
  · intro p hp
    rcases List.mem_append.mp hp with hp | hp
    · exact h p hp
    · simp at hp; subst hp; rfl

theorem World.get_wf (w : World) (h : w.WF) (i : Int) (e : Entity) (hg : w.get? i = some e) : e.id = i := by
  unfold World.get? at hg
  cases hf : w.entities.find? (fun p => p.1 == i) with
  | none => simp [hf] at hg
  | some p =>
    simp [hf] at hg
    have hm := List.mem_of_find?_eq_some hf
    have hk := List.find?_some hf
    simp at hk
    rw [← hg, h p hm, hk]

end ReplayModel
