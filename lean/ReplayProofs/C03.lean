/-
C03 — decoding of .def-declared types is exact and consumes exactly its bytes.
Property theorems only; helper lemmas live in `ReplayProofs/Lemmas`.
-/
import ReplayModel.Codec
import ReplayProofs.Lemmas.Codec
namespace ReplayModel.C03
open ReplayModel

/-- the bytes a reader left, if it succeeded -/
def restOf {α : Type} : Except Err (α × Bytes) → Option Bytes
  | .ok (_, r) => some r
  | .error _ => none

/-- fields part of the round trip, given the round trip for every field type -/
theorem decodeFields_encodeFields (h : Nat) (fs : List (String × Ty))
    (ih : ∀ p ∈ fs, ∀ v rest, hasTy p.2 v = true → userOK h p.2 v = true →
      decode h p.2 (encodeWire h p.2 v ++ rest) = .ok (v, rest))
    (vs : List (String × Val)) (rest : Bytes)
    (hv : hasTyFields fs vs = true) (hu : userOKFields h fs vs = true) :
    decodeFields h fs (encodeFields h fs vs ++ rest) = .ok (vs, rest) := by
  induction fs generalizing vs with
  | nil =>
    cases vs with
    | nil => simp [decodeFields, encodeFields]
    | cons v vs => simp [hasTyFields] at hv
  | cons f fs ihf =>
    obtain ⟨k, t⟩ := f
    cases vs with
    | nil => simp [hasTyFields] at hv
    | cons v vs =>
      obtain ⟨k', v⟩ := v
      simp only [hasTyFields, Bool.and_eq_true, beq_iff_eq] at hv
      simp only [userOKFields, Bool.and_eq_true] at hu
      obtain ⟨⟨hk, hv1⟩, hv2⟩ := hv
      subst hk
      simp only [decodeFields, encodeFields, List.append_assoc]
      rw [ih (k, t) (List.mem_cons_self ..) v _ hv1 hu.1]
      simp only [bind, Except.bind]
      rw [ihf (fun p hp => ih p (List.mem_cons_of_mem _ hp)) vs hv2 hu.2]
      rfl

/-- **C03 main theorem.** For every type tree, every value of that type and every
continuation `rest`, decoding the wire encoding returns exactly the value and leaves
exactly `rest` — for all header sizes, nesting depths, lengths below 2^24.
`userOK` confines USER_TYPE nodes with a non-blob inner type to the domain where
the code's header skipping is right (DESIGN §6 D7; see `userType_counterexample`). -/
theorem decode_encode (h : Nat) (t : Ty) : ∀ (v : Val) (rest : Bytes),
    hasTy t v = true → userOK h t v = true →
    decode h t (encodeWire h t v ++ rest) = .ok (v, rest) := by
  induction t using Ty.ind with
  | int k s =>
    intro v rest hv hu
    clear hu
    cases v <;> simp [hasTy] at hv
    rename_i i
    simp only [decode, encodeWire]
    rw [readUIntLE_toLE k _ _ (ofSigned_lt k i)]
    simp only [bind, Except.bind, pure, Except.pure]
    obtain ⟨hk, hv⟩ := hv
    cases s with
    | true =>
      simp only [if_true] at hv ⊢
      rw [toSigned_ofSigned k hk i (by simpa using hv)]
    | false =>
      simp only [Bool.false_eq_true, if_false] at hv ⊢
      rw [unsigned_ofSigned k i (by simpa using hv)]
  | f32 =>
    intro v rest hv hu
    clear hu
    cases v <;> simp [hasTy] at hv
    simp only [decode, encodeWire]
    rw [readUIntLE_toLE 4 _ _ (by omega)]; rfl
  | f64 =>
    intro v rest hv hu
    clear hu
    cases v <;> simp [hasTy] at hv
    simp only [decode, encodeWire]
    rw [readUIntLE_toLE 8 _ _ (by omega)]; rfl
  | vec n =>
    intro v rest hv hu
    clear hu
    cases v <;> simp [hasTy] at hv
    rename_i xs
    obtain ⟨hl, hx⟩ := hv
    subst hl
    have he : encodeWire h (.vec xs.length) (.vec xs) = xs.flatMap (toLE 4) := by
      simp only [encodeWire]
    rw [he]
    have hlen : (xs.flatMap (toLE 4) ++ rest).length = 4 * xs.length + rest.length := by
      rw [List.length_append, flatMap_toLE_length]
    simp only [decode]
    rw [if_neg (by omega), readF32s_flatMap xs rest hx]; rfl
  | blob =>
    intro v rest hv hu
    clear hu
    cases v <;> simp [hasTy] at hv
    rename_i b
    simp only [decode, encodeWire, List.append_assoc]
    rw [readPackedLen_writePackedLen _ _ hv]
    simp [bind, Except.bind, pure, Except.pure]
  | string =>
    intro v rest hv hu
    clear hu
    cases v <;> simp [hasTy] at hv <;> rename_i b
    all_goals
      simp only [decode, encodeWire, List.append_assoc]
      rw [readPackedLen_writePackedLen _ _ hv.1]
      simp [bind, Except.bind, pure, Except.pure, strOrBytes, hv.2]
  | python =>
    intro v rest hv hu
    clear hu
    cases v <;> simp [hasTy] at hv
    rename_i b
    simp only [decode, encodeWire, List.append_assoc]
    rw [readPackedLen_writePackedLen _ _ hv]
    simp [bind, Except.bind, pure, Except.pure]
  | mailbox =>
    intro v rest hv hu
    clear hu
    cases v <;> simp [hasTy, ipOK] at hv
    rename_i ip p
    obtain ⟨hip, hp⟩ := hv
    simp only [decode, encodeWire, List.append_assoc]
    have : ¬ (ip ++ (toBE 2 p ++ rest)).length < 4 := by simp; omega
    rw [if_neg this]
    have e1 : (ip ++ (toBE 2 p ++ rest)).drop 4 = toBE 2 p ++ rest := by
      rw [← hip]; simp
    have e2 : (ip ++ (toBE 2 p ++ rest)).take 4 = ip := by
      rw [← hip]; simp
    rw [e1, e2, readN_append 2 (toBE 2 p) rest (by simp [toBE])]
    simp only [bind, Except.bind, pure, Except.pure, beNat, toBE, List.reverse_reverse, leNat_toLE]
    rw [Nat.mod_eq_of_lt (by omega)]
  | array e sz ih =>
    intro v rest hv hu
    cases sz with
    | some n =>
      cases v <;> simp [hasTy] at hv
      rename_i vs
      obtain ⟨hl, hvs⟩ := hv
      subst hl
      simp only [userOK, List.all_eq_true] at hu
      simp only [decode, encodeWire]
      rw [repeatRd_flatMap (decode h e) (encodeWire h e) vs rest
        (fun v hm r => ih v r (hvs v hm) (hu v hm))]
      rfl
    | none =>
      cases v <;> simp [hasTy] at hv
      rename_i vs
      obtain ⟨hl, hvs⟩ := hv
      simp only [userOK, List.all_eq_true] at hu
      simp only [decode, encodeWire]
      have hcons : (UInt8.ofNat vs.length :: (vs.flatMap (encodeWire h e) ++ rest))
          = toLE 1 vs.length ++ (vs.flatMap (encodeWire h e) ++ rest) := by
        simp only [toLE]; rw [Nat.mod_eq_of_lt hl]; rfl
      rw [List.cons_append, hcons, readUIntLE_toLE 1 _ _ (by omega)]
      simp only [bind, Except.bind]
      rw [repeatRd_flatMap (decode h e) (encodeWire h e) vs rest
        (fun v hm r => ih v r (hvs v hm) (hu v hm))]
      rfl
  | fixedDict fs an ih =>
    intro v rest hv hu
    cases v <;> try (simp [hasTy] at hv; done)
    · -- none
      cases an <;> simp [hasTy] at hv
      simp [decode, encodeWire]
    · rename_i vs
      have hv' : hasTyFields fs vs = true := by
        cases an <;> simpa [hasTy] using hv
      have hu' : userOKFields h fs vs = true := by simpa [userOK] using hu
      have key := fun r => decodeFields_encodeFields h fs
        (fun p hp v rest => ih p hp v rest) vs r hv' hu'
      cases an with
      | false =>
        simp only [decode, encodeWire, Bool.false_eq_true, if_false, List.nil_append]
        rw [key rest]; rfl
      | true =>
        simp only [decode, encodeWire, if_true, List.cons_append, List.nil_append]
        rw [key rest]; rfl
  | userType t ih =>
    intro v rest hv hu
    simp only [hasTy] at hv
    simp only [decode, encodeWire]
    by_cases hb : t.isBlob = true
    · simp only [hb, if_true]
      exact ih v rest hv (by
        cases t <;> simp [Ty.isBlob] at hb
        cases v <;> simp [userOK])
    · simp only [hb, Bool.false_eq_true, if_false]
      simp only [userOK, hb, Bool.false_eq_true, if_false, Bool.and_eq_true,
        decide_eq_true_eq] at hu
      obtain ⟨⟨h1, hlen⟩, hu'⟩ := hu
      subst h1
      have : (writePackedLen (encodeWire 1 t v).length ++ encodeWire 1 t v ++ rest).drop 1
          = encodeWire 1 t v ++ rest := by
        simp [writePackedLen, hlen]
      rw [this]
      exact ih v rest hv hu'

/-- Non-vacuity: a nested value satisfying the hypotheses. -/
example : hasTy (.fixedDict [("a", .array (.int 2 true) none), ("b", .userType .blob),
            ("c", .fixedDict [("x", .string)] true)] false)
          (.dict [("a", .list [.int (-1), .int 300]), ("b", .bytes [1, 2, 3]), ("c", .none)]) = true
        ∧ userOK 2 (.fixedDict [("a", .array (.int 2 true) none), ("b", .userType .blob),
            ("c", .fixedDict [("x", .string)] true)] false)
          (.dict [("a", .list [.int (-1), .int 300]), ("b", .bytes [1, 2, 3]), ("c", .none)]) = true := by
  decide +kernel

/-- Types without problematic USER_TYPE nodes need no side condition. -/
theorem userOK_of_noUser (h : Nat) (t : Ty) : ∀ v, t.noUser = true → userOK h t v = true := by
  induction t using Ty.ind with
  | array e sz ih =>
    intro v hn
    cases v <;> simp [userOK]
    rename_i vs
    intro x _
    exact ih x (by simpa [Ty.noUser] using hn)
  | fixedDict fs an ih =>
    intro v hn
    cases v <;> simp [userOK]
    rename_i vs
    simp only [Ty.noUser] at hn
    induction fs generalizing vs with
    | nil => simp [userOKFields]
    | cons f fs ihf =>
      obtain ⟨k, t⟩ := f
      cases vs with
      | nil => simp [userOKFields]
      | cons v vs =>
        obtain ⟨k', v⟩ := v
        simp only [Ty.noUserFields, Bool.and_eq_true] at hn
        simp only [userOKFields, Bool.and_eq_true]
        exact ⟨ih (k, t) (List.mem_cons_self ..) v hn.1,
          ihf (fun p hp => ih p (List.mem_cons_of_mem _ hp)) hn.2 vs⟩
  | userType t ih =>
    intro v hn
    simp only [Ty.noUser] at hn
    simp [userOK, hn]
  | _ => intro v _; cases v <;> simp [userOK]

/-- Corollary: the unconditional form for definition sets without such nodes. -/
theorem decode_encode_noUser (h : Nat) (t : Ty) (v : Val) (rest : Bytes)
    (hv : hasTy t v = true) (hn : t.noUser = true) :
    decode h t (encodeWire h t v ++ rest) = .ok (v, rest) :=
  decode_encode h t v rest hv (userOK_of_noUser h t v hn)

/-- The packed length: one byte below 255, `0xFF` + 3 LE bytes up to 2^24 − 1. -/
theorem readLen_writeLen (n : Nat) (rest : Bytes) (h : n < 2 ^ 24) :
    readPackedLen (writePackedLen n ++ rest) = .ok (n, rest) :=
  readPackedLen_writePackedLen n rest h

example : writePackedLen 254 = [254] := by decide
example : writePackedLen 255 = [255, 255, 0, 0] := by decide
example : writePackedLen 256 = [255, 0, 1, 0] := by decide
example : writePackedLen 65535 = [255, 255, 255, 0] := by decide
example : writePackedLen 65536 = [255, 0, 0, 1] := by decide

/-- D7 (known finding): with header size 2 the code's reading of a USER_TYPE whose
inner type is not a blob leaves the stream misaligned — the full statement is false
outside `userOK`. Witness: FLAT_VECTOR-like `USER_TYPE<Type>UINT16` under header 2. -/
theorem userType_counterexample :
    ∃ (t : Ty) (v : Val), hasTy t v = true ∧
      decode 2 t (encodeWire 2 t v ++ [7]) ≠ .ok (v, [7]) := by
  refine ⟨.userType (.int 2 false), .int 513, by decide +kernel, ?_⟩
  intro hc
  have : restOf (decode 2 (.userType (.int 2 false))
      (encodeWire 2 (.userType (.int 2 false)) (.int 513) ++ [7])) = some [7] := by
    rw [hc]; rfl
  revert this
  decide +kernel

end ReplayModel.C03
