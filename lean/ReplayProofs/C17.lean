/-
C17 — bit-field arithmetic is exact.
-/
import ReplayModel.Bits
import ReplayProofs.Lemmas.Bits
namespace ReplayModel.C17
open ReplayModel

/-- `bitsRequired n = 0` for n ≤ 1. -/
theorem bitsRequired_small (n : Nat) (h : n ≤ 1) : bitsRequired n = 0 := by
  simp [bitsRequired, h]

/-- `bitsRequired n` is ⌈log₂ n⌉ for every n ≥ 2 (no bound on n):
`2^(k-1) < n ≤ 2^k`. -/
theorem bitsRequired_spec (n : Nat) (h : 2 ≤ n) :
    2 ^ (bitsRequired n - 1) < n ∧ n ≤ 2 ^ bitsRequired n := by
  have h1 : ¬ n ≤ 1 := by omega
  simp only [bitsRequired, h1, if_false, Nat.add_sub_cancel]
  have hne : n - 1 ≠ 0 := by omega
  have lo := Nat.log2_self_le hne
  have hi := Nat.lt_log2_self (n := n - 1)
  omega

/-- uniqueness: any `k ≥ 1` with `2^(k-1) < n ≤ 2^k` is `bitsRequired n`. -/
theorem bitsRequired_unique (n k : Nat) (hk : 1 ≤ k)
    (lo : 2 ^ (k - 1) < n) (hi : n ≤ 2 ^ k) : bitsRequired n = k := by
  have h2 : 2 ≤ n := by
    have : 1 ≤ 2 ^ (k - 1) := Nat.one_le_two_pow
    omega
  obtain ⟨lo', hi'⟩ := bitsRequired_spec n h2
  have hb : 1 ≤ bitsRequired n := by
    simp only [bitsRequired]; split <;> omega
  generalize bitsRequired n = m at *
  -- 2^(k-1) < n ≤ 2^m  ⇒ k-1 < m ;  2^(m-1) < n ≤ 2^k ⇒ m-1 < k
  have a : k - 1 < m := (Nat.pow_lt_pow_iff_right (by decide : 1 < 2)).mp (by omega)
  have b : m - 1 < k := (Nat.pow_lt_pow_iff_right (by decide : 1 < 2)).mp (by omega)
  omega

/-- the step-function form: constant on (2^k, 2^(k+1)] -/
theorem bitsRequired_breakpoints (k n : Nat) (lo : 2 ^ k < n) (hi : n ≤ 2 ^ (k + 1)) :
    bitsRequired n = k + 1 :=
  bitsRequired_unique n (k + 1) (by omega) (by simpa using lo) hi

/-- monotone -/
theorem bitsRequired_mono (a b : Nat) (h : a ≤ b) : bitsRequired a ≤ bitsRequired b := by
  by_cases ha : a ≤ 1
  · simp [bitsRequired_small a ha]
  · have ha2 : 2 ≤ a := by omega
    have hb2 : 2 ≤ b := by omega
    obtain ⟨la, _⟩ := bitsRequired_spec a ha2
    obtain ⟨_, hb⟩ := bitsRequired_spec b hb2
    have : 2 ^ (bitsRequired a - 1) < 2 ^ bitsRequired b := by omega
    have := (Nat.pow_lt_pow_iff_right (by decide : 1 < 2)).mp this
    omega

/-- bits of a byte are delivered most significant first -/
theorem bitsOfByte_msb_first (b : UInt8) : bitsVal (bitsOfByte b) = b.toNat := by
  have key : ∀ n : Fin 256, bitsVal (bitsOfByte (UInt8.ofNat n.val)) = n.val := by decide +kernel
  have := key ⟨b.toNat, b.toNat_lt⟩
  simpa using this

/-- **Single-step law of the reader**: with `pending r` the bits still to come
(cache, then the stream bytes MSB first), `get w` returns the big-endian value of the
first `w` pending bits and a reader whose pending is the rest — for every width,
including 0, across byte boundaries. This is the form that composes for a dependent
parser (each width may depend on values read before). -/
theorem get_pending (r : BitReader) (w : Nat) (h : w ≤ r.pending.length) :
    ∃ r', r.get w = .ok (bitsVal (r.pending.take w), r') ∧ r'.pending = r.pending.drop w := by
  obtain ⟨r', h1, h2, _⟩ := getAcc_pending w 0 r h
  exact ⟨r', h1, h2⟩

/-- reading more bits than are left fails (the `Exception('I am empty')` path) -/
theorem get_exhausted (r : BitReader) (w : Nat) (h : r.pending.length < w) :
    r.get w = .error .other :=
  getAcc_exhausted w 0 r h

/-- zero-width fields read nothing -/
theorem get_zero (r : BitReader) : r.get 0 = .ok (0, r) := rfl

/-- read a sequence of widths -/
def getMany : List Nat → BitReader → R (List Nat × BitReader)
  | [], r => .ok ([], r)
  | w :: ws, r => do
    let (v, r1) ← r.get w
    let (vs, r2) ← getMany ws r1
    pure (v :: vs, r2)

/-- cut a bit list into fields of the given widths -/
def fields : List Nat → List Bool → List Nat
  | [], _ => []
  | w :: ws, bits => bitsVal (bits.take w) :: fields ws (bits.drop w)

/-- all bits of a byte string -/
def bitsOf (bs : Bytes) : List Bool := bs.flatMap bitsOfByte

theorem bitsOf_length (bs : Bytes) : (bitsOf bs).length = 8 * bs.length := by
  have := pending_length ⟨bs, []⟩
  simpa [BitReader.pending, bitsOf] using this

theorem getMany_inv (ws : List Nat) : ∀ (r : BitReader), ws.sum ≤ r.pending.length →
    ∃ r', getMany ws r = .ok (fields ws r.pending, r') ∧ r'.pending = r.pending.drop ws.sum ∧
      (∀ bs, r.Inv bs → r'.Inv bs) := by
  induction ws with
  | nil => intro r _; exact ⟨r, rfl, by simp, fun _ h => h⟩
  | cons w ws ih =>
    intro r hs
    simp only [List.sum_cons] at hs
    obtain ⟨r1, h1, h2, h3⟩ := getAcc_pending w 0 r (by omega)
    obtain ⟨r2, g1, g2, g3⟩ := ih r1 (by rw [h2]; simp; omega)
    refine ⟨r2, ?_, ?_, fun bs hb => g3 bs (h3 bs hb)⟩
    · simp only [getMany, BitReader.get, h1, bind, Except.bind, g1, h2, fields, bitsVal_eq]
      rfl
    · rw [g2, h2, List.drop_drop, List.sum_cons]

/-- **Field sequences and the remainder.** Reading widths `ws` from a fresh reader over
`bs` (enough bits present) yields the MSB-first fields of the bit string of `bs`, and the
remainder handed on by `get_rest` starts at the next whole byte: `bs.drop ⌈Σws / 8⌉`. -/
theorem getMany_spec (bs : Bytes) (ws : List Nat) (h : ws.sum ≤ 8 * bs.length) :
    ∃ r', getMany ws (BitReader.ofBytes bs) = .ok (fields ws (bitsOf bs), r') ∧
      r'.getRest = bs.drop ((ws.sum + 7) / 8) := by
  have hp : (BitReader.ofBytes bs).pending = bitsOf bs := by simp [BitReader.ofBytes, BitReader.pending, bitsOf]
  have hlen : (BitReader.ofBytes bs).pending.length = 8 * bs.length := by rw [hp, bitsOf_length]
  obtain ⟨r', h1, h2, h3⟩ := getMany_inv ws (BitReader.ofBytes bs) (by omega)
  refine ⟨r', by rw [h1, hp], ?_⟩
  have hinv : (BitReader.ofBytes bs).Inv bs := ⟨⟨0, by omega, by simp [BitReader.ofBytes]⟩, by simp [BitReader.ofBytes]⟩
  obtain ⟨⟨j, hj, hs⟩, hc⟩ := h3 bs hinv
  have hl := pending_length r'
  rw [h2, List.length_drop, hlen, hs, List.length_drop] at hl
  have : j = (ws.sum + 7) / 8 := by omega
  simp [BitReader.getRest, hs, this]

/-- alias in the wording of the property: after k bits the rest starts at byte ⌈k/8⌉ -/
theorem getRest_aligned (bs : Bytes) (k : Nat) (h : k ≤ 8 * bs.length) :
    ∃ r', getMany [k] (BitReader.ofBytes bs) = .ok ([bitsVal ((bitsOf bs).take k)], r') ∧
      r'.getRest = bs.drop ((k + 7) / 8) := by
  simpa [fields] using getMany_spec bs [k] (by simpa using h)

/-- Non-vacuity / example across a byte boundary: fields 3,7,6 of A5 FF 01 33. -/
example : getMany [3, 7, 6] (BitReader.ofBytes [0xA5, 0xFF, 0x01, 0x33])
    = .ok ([5, 23, 63], ⟨[0x01, 0x33], []⟩) := by rfl

end ReplayModel.C17
