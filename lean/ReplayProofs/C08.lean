/-
C08 — entity pose follows the position packets addressed to it.
-/
import ReplayModel.World
import ReplayProofs.Lemmas.World
import ReplayProofs.C05
import ReplayProofs.Lemmas.Bytes
namespace ReplayModel.C08
open ReplayModel

/-- pose component of an entity -/
def poseOf (e : Entity) (k : String) : Option Val := dictGet? e.volatile k

theorem withVol_nil (e : Entity) : e.withVol [] = e := rfl

theorem withVol_cons (e : Entity) (k : String) (v : Val) (rest : List (String × Val)) :
    e.withVol ((k, v) :: rest) = ({ e with volatile := dictSet e.volatile k v } : Entity).withVol rest := rfl

/-- after `setPose` the four components are the packet's, whatever they were before -/
theorem setPose_reads (e : Entity) (p : Pose) :
    poseOf (setPose e p) "position" = some (.vec p.pos) ∧ poseOf (setPose e p) "yaw" = some (.f32 p.yaw) ∧
    poseOf (setPose e p) "pitch" = some (.f32 p.pitch) ∧ poseOf (setPose e p) "roll" = some (.f32 p.roll) := by
  unfold setPose poseOf
  simp only [withVol_cons, withVol_nil]
  refine ⟨?_, ?_, ?_, ?_⟩
  · rw [dictGet_dictSet_other _ _ _ _ (by decide), dictGet_dictSet_other _ _ _ _ (by decide),
      dictGet_dictSet_other _ _ _ _ (by decide), dictGet_dictSet_same]
  · rw [dictGet_dictSet_other _ _ _ _ (by decide), dictGet_dictSet_other _ _ _ _ (by decide),
      dictGet_dictSet_same]
  · rw [dictGet_dictSet_other _ _ _ _ (by decide), dictGet_dictSet_same]
  · rw [dictGet_dictSet_same]

/-- only the pose changes -/
theorem setPose_rest (e : Entity) (p : Pose) :
    (setPose e p).client = e.client ∧ (setPose e p).base = e.base ∧ (setPose e p).cell = e.cell ∧
    (setPose e p).id = e.id := ⟨rfl, rfl, rfl, rfl⟩

/-- **Position packet**: a known entity takes exactly the packet's pose; an unknown id is an
error that changes nothing. -/
theorem position_spec (w : World) (id : Int) (pose : Pose) (hwf : w.WF) :
    (∀ e, w.get? id = some e →
      (stepPosition w id pose).err = none ∧ (stepPosition w id pose).world.get? id = some (setPose e pose)) ∧
    (w.get? id = none → (stepPosition w id pose) = fail w .unknownEntity) := by
  constructor
  · intro e he
    have hid : e.id = id := World.get_wf w hwf id e he
    unfold stepPosition
    simp only [he]
    refine ⟨by first | rfl | trivial, ?_⟩
    have := World.get_put_same w (setPose e pose)
    rw [C05.setPose_id, hid] at this
    exact this
  · intro hn
    unfold stepPosition
    simp [hn]

/-- a newly created entity has the definition's defaults: position (0,0,0), angles 0.0 -/
theorem pose_default (m : Masks) (id : Int) (d : EntityDef) :
    (Entity.new m id d).volatile = defaultVolatile d.volatile := rfl

/-- **Own-player position, the three cases stated outright.** -/
theorem player_position_set (w : World) (id1 : Int) (pose : Pose) (e : Entity) (hwf : w.WF)
    (h1 : id1 ≠ 0) (he : w.get? id1 = some e) :
    (stepPlayerPosition w id1 0 pose).err = none ∧
    (stepPlayerPosition w id1 0 pose).world.get? id1 = some (setPose e pose) := by
  have hid : e.id = id1 := World.get_wf w hwf id1 e he
  unfold stepPlayerPosition
  have hb : (id1 != 0) = true := by simpa using h1
  simp only [bne_self_eq_false, Bool.false_eq_true, if_false, hb, if_true, he]
  refine ⟨by first | rfl | trivial, ?_⟩
  have := World.get_put_same w (setPose e pose)
  rw [C05.setPose_id, hid] at this
  exact this

/-- naming a second entity copies that entity's *current* pose (all four components) -/
theorem player_position_copy (w : World) (id1 id2 : Int) (pose : Pose) (master slave : Entity)
    (p y pt r : Val) (hwf : w.WF) (h2 : id2 ≠ 0) (hm : w.get? id2 = some master) (hs : w.get? id1 = some slave)
    (hp : poseOf master "position" = some p) (hy : poseOf master "yaw" = some y)
    (hpt : poseOf master "pitch" = some pt) (hr : poseOf master "roll" = some r) :
    (stepPlayerPosition w id1 id2 pose).err = none ∧
    (stepPlayerPosition w id1 id2 pose).world.get? id1 =
      some (slave.withVol [("position", p), ("yaw", y), ("pitch", pt), ("roll", r)]) := by
  have hid : slave.id = id1 := World.get_wf w hwf id1 slave hs
  unfold stepPlayerPosition
  have hb : (id2 != 0) = true := by simpa using h2
  unfold poseOf at hp hy hpt hr
  simp only [hb, if_true, hm, hs, copyPose, hp, hy, hpt, hr]
  refine ⟨by first | rfl | trivial, ?_⟩
  have := World.get_put_same w (slave.withVol [("position", p), ("yaw", y), ("pitch", pt), ("roll", r)])
  rw [C05.withVol_id, hid] at this
  exact this

/-- a not-yet-created entity (first or second) is ignored: no change, no error -/
theorem player_position_unknown_ignored (w : World) (id1 id2 : Int) (pose : Pose)
    (h : (id2 ≠ 0 ∧ (w.get? id2 = none ∨ w.get? id1 = none)) ∨ (id2 = 0 ∧ w.get? id1 = none)) :
    stepPlayerPosition w id1 id2 pose = ok w := by
  unfold stepPlayerPosition
  rcases h with ⟨h2, hu⟩ | ⟨h2, hu⟩
  · have hb : (id2 != 0) = true := by simpa using h2
    simp only [hb, if_true]
    rcases hu with hu | hu
    · simp [hu]
    · cases hm : w.get? id2 <;> simp [hu]
  · subst h2
    simp only [bne_self_eq_false, Bool.false_eq_true, if_false]
    split
    · simp [hu]
    · rfl

/-- no ids at all: nothing happens -/
theorem player_position_zero (w : World) (pose : Pose) : stepPlayerPosition w 0 0 pose = ok w := by
  unfold stepPlayerPosition; simp

/-- **Entities never share pose state**: a pose packet for entity `i` leaves the pose (and
everything else) of every other entity — same type or not — untouched. -/
theorem pose_frame (cfg : Config) (w : World) (p : Packet) (hwf : w.WF) (j : Int)
    (hj : ∀ i, C05.target p = some i → j ≠ i) : (step cfg w p).world.get? j = w.get? j :=
  C05.step_frame cfg w p hwf j hj

/-- property updates do not touch poses -/
theorem property_keeps_pose (reg : Registry) (e : Entity) (idx : Nat) (bs : Bytes) :
    (setClientProperty reg e idx bs).1.volatile = e.volatile := by
  unfold setClientProperty
  split
  · rfl
  · split <;> rfl

/-- Non-vacuity of `player_position_copy`'s hypotheses. -/
example : poseOf (setPose { id := 1, view := default } ⟨[1, 2, 3], 4, 5, 6⟩) "yaw" = some (.f32 4) :=
  (setPose_reads _ _).2.1

/-! ### updates and poses over whole histories -/

/-- the poses a packet list sends to entity `id`, in stream order -/
def posesTo (id : Nat) : List Packet → List Pose
  | [] => []
  | .position id' pose :: ps => if id' = (id : Int) then pose :: posesTo id ps else posesTo id ps
  | _ :: ps => posesTo id ps

theorem posesTo_other (id : Nat) (p : Packet) (ps : List Packet)
    (h : C05.target p ≠ some (id : Int)) : posesTo id (p :: ps) = posesTo id ps := by
  cases p <;> simp only [posesTo]
  rename_i id' pose
  have : id' ≠ (id : Int) := by
    intro hc; apply h; simp [C05.target, hc]
  simp [this]

theorem step_position_eq (cfg : Config) (hg : cfg.dialect.game ≠ .wowp) (w : World) (id : Int) (pose : Pose) :
    step cfg w (.position id pose) = stepPosition w id pose := by
  unfold step
  cases hgame : cfg.dialect.game <;> simp_all

theorem writesTo_position (view : EntityView) (id : Nat) (i : Int) (pose : Pose) (ps : List Packet) :
    C05.writesTo view id (.position i pose :: ps) = C05.writesTo view id ps := rfl

theorem posesTo_property (id id' idx : Nat) (data : Bytes) (ps : List Packet) :
    posesTo id (.entityProperty id' idx data :: ps) = posesTo id ps := rfl

theorem setPose_view (e : Entity) (p : Pose) : (setPose e p).view = e.view := rfl

theorem setClientProperty_volatile (reg : Registry) (e : Entity) (idx : Nat) (bs : Bytes) :
    (setClientProperty reg e idx bs).1.volatile = e.volatile := property_keeps_pose reg e idx bs

/-- **An entity's state after any history of updates and positions.** The packets
addressed to `id` are property updates and position packets, in any interleaving, among
arbitrary packets for other entities: the client bucket is the initial one with the
successful updates applied in order, the pose is the initial one overwritten by the
position packets in order (so it is the last packet's pose, `setPose_reads`), and the
two never disturb each other. -/
theorem entity_history (cfg : Config) (hg : cfg.dialect.game ≠ .wowp) (id : Nat) :
    ∀ (ps : List Packet) (w : World) (e : Entity), w.WF → w.get? (id : Int) = some e →
      (∀ p ∈ ps, C05.target p = some (id : Int) →
        (∃ idx data, p = .entityProperty id idx data) ∨ (∃ pose, p = .position (id : Int) pose)) →
      ∃ e', (C05.runAll cfg w ps).get? (id : Int) = some e' ∧ e'.view = e.view ∧ e'.id = e.id ∧
        e'.client = C05.applyWrites e.client (C05.writesTo e.view id ps) ∧
        e'.volatile = ((posesTo id ps).foldl setPose e).volatile ∧
        e'.cell = e.cell ∧ e'.base = e.base := by
  intro ps
  induction ps with
  | nil => intro w e _ hget _; exact ⟨e, hget, rfl, rfl, rfl, rfl, rfl, rfl⟩
  | cons p ps ih =>
    intro w e hwf hget hps
    have hwf' : (step cfg w p).world.WF := C05.step_wf cfg w p hwf
    have hps' : ∀ q ∈ ps, C05.target q = some (id : Int) →
        (∃ idx data, q = .entityProperty id idx data) ∨ (∃ pose, q = .position (id : Int) pose) :=
      fun q hq => hps q (List.mem_cons_of_mem _ hq)
    show ∃ e', (C05.runAll cfg (step cfg w p).world ps).get? (id : Int) = some e' ∧ _
    -- the pose fold only depends on the volatile bucket of its start
    have fold_vol : ∀ (qs : List Pose) (a b : Entity), a.volatile = b.volatile →
        (qs.foldl setPose a).volatile = (qs.foldl setPose b).volatile := by
      intro qs
      induction qs with
      | nil => intro a b h; exact h
      | cons q qs ihq =>
        intro a b h
        apply ihq
        show (a.withVol _).volatile = (b.withVol _).volatile
        simp only [withVol_cons, withVol_nil, h]
    by_cases ht : C05.target p = some (id : Int)
    · rcases hps p (List.mem_cons_self ..) ht with ⟨idx, data, rfl⟩ | ⟨pose, rfl⟩
      · rw [C05.step_entityProperty_eq cfg hg] at hwf' ⊢
        have hg1 := C05.stepEntityProperty_get cfg w id idx data e hwf hget
        have hvol := setClientProperty_volatile cfg.reg e idx data
        rw [C05.setClientProperty_entity] at hg1 hvol
        cases hw : C05.propWrite e.view idx data with
        | none =>
          rw [hw] at hg1
          obtain ⟨e', h1, h2, h3, h4, h5, h6, h7⟩ := ih _ e hwf' hg1 hps'
          refine ⟨e', h1, h2, h3, ?_, ?_, h6, h7⟩
          · rw [h4]; simp [C05.writesTo, hw]
          · rw [h5, posesTo_property]
        | some kv =>
          rw [hw] at hg1
          obtain ⟨e', h1, h2, h3, h4, h5, h6, h7⟩ := ih _ _ hwf' hg1 hps'
          refine ⟨e', h1, h2, h3, ?_, ?_, h6, h7⟩
          · rw [h4]
            simp only [C05.writesTo, if_true, hw, Option.toList_some]
            rw [C05.applyWrites_append]
            rfl
          · rw [h5, posesTo_property]
            exact fold_vol _ _ _ rfl
      · rw [step_position_eq cfg hg] at hwf' ⊢
        have hg1 := ((position_spec w (id : Int) pose hwf).1 e hget).2
        obtain ⟨e', h1, h2, h3, h4, h5, h6, h7⟩ := ih _ _ hwf' hg1 hps'
        refine ⟨e', h1, h2, h3, ?_, ?_, h6, h7⟩
        · rw [h4, writesTo_position]; rfl
        · rw [h5]; simp [posesTo]
    · have hfr : (step cfg w p).world.get? (id : Int) = some e := by
        rw [C05.step_frame cfg w p hwf (id : Int) (fun i hi hc => ht (hc ▸ hi))]
        exact hget
      obtain ⟨e', h1, h2, h3, h4, h5, h6, h7⟩ := ih _ e hwf' hfr hps'
      refine ⟨e', h1, h2, h3, ?_, ?_, h6, h7⟩
      · rw [h4, C05.writesTo_other e.view id p ps ht]
      · rw [h5, posesTo_other id p ps ht]

/-! ### the vehicle field of a position packet -/

/-- **The vehicle field of a position packet is not interpreted**: two payloads that differ only in
bytes 4..8 (the id of the vehicle the entity rides on) deserialise to the same packet, hence
have the same effect — the pose set is the one the packet carries, for the entity it addresses. -/
theorem position_vehicle_irrelevant (jsonOk : Bytes → Bool) (idb v1 v2 rest : Bytes)
    (hid : idb.length = 4) (h1 : v1.length = 4) (h2 : v2.length = 4) :
    deserialize jsonOk .position (idb ++ v1 ++ rest) = deserialize jsonOk .position (idb ++ v2 ++ rest) := by
  have e1 : readIntLE 4 (idb ++ v1 ++ rest) = .ok (toSigned 4 (leNat idb), v1 ++ rest) := by
    simp [readIntLE, List.append_assoc, readN_append 4 idb (v1 ++ rest) hid, bind, Except.bind, pure, Except.pure]
  have e2 : readIntLE 4 (idb ++ v2 ++ rest) = .ok (toSigned 4 (leNat idb), v2 ++ rest) := by
    simp [readIntLE, List.append_assoc, readN_append 4 idb (v2 ++ rest) hid, bind, Except.bind, pure, Except.pure]
  have f1 : readIntLE 4 (v1 ++ rest) = .ok (toSigned 4 (leNat v1), rest) := by
    simp [readIntLE, readN_append 4 v1 rest h1, bind, Except.bind, pure, Except.pure]
  have f2 : readIntLE 4 (v2 ++ rest) = .ok (toSigned 4 (leNat v2), rest) := by
    simp [readIntLE, readN_append 4 v2 rest h2, bind, Except.bind, pure, Except.pure]
  simp only [deserialize, e1, e2, f1, f2, bind, Except.bind]

end ReplayModel.C08
