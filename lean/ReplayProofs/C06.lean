/-
C06 — nested (path-addressed) updates and slices follow list/dict semantics.

Proved here: Python slice-assignment semantics of `sliceAssign` (all clamping cases), the
leaf operations and the descent steps of the walk as ordinary `List.set` / dict assignment
(compositional: an update at depth d is d nested `List.set`/`dictSet`s and the leaf
operation), and the frame property (nothing else changes on that entity or any other).
The bit-level layout of the path (MSB-first fields of width bitsRequired(size)) is carried
by C17.get_pending for every single field; the closed-form encoder/decoder round trip for
whole paths is exercised by the correspondence, not proved (DESIGN §5 C06, partial).
-/
import ReplayModel.World
import ReplayProofs.Lemmas.World
import ReplayProofs.C05
namespace ReplayModel.C06
open ReplayModel

/-! ### Python slice assignment -/

/-- `obj[i:j] = xs` with `i ≤ j ≤ len`: the elements i..j-1 are replaced by `xs` -/
theorem slice_in_range (l xs : List Val) (i j : Nat) (hij : i ≤ j) (hj : j ≤ l.length) :
    sliceAssign l i j xs = l.take i ++ xs ++ l.drop j := by
  unfold sliceAssign
  have h1 : min i l.length = i := by omega
  have h2 : max i (min j l.length) = j := by omega
  simp only [h1, h2]

/-- `j < i` (an "empty" slice): pure insertion at `i`, nothing is removed -/
theorem slice_reversed (l xs : List Val) (i j : Nat) (hji : j < i) (hi : i ≤ l.length) :
    sliceAssign l i j xs = l.take i ++ xs ++ l.drop i := by
  unfold sliceAssign
  have h1 : min i l.length = i := by omega
  have h2 : max i (min j l.length) = i := by omega
  simp only [h1, h2]

/-- bounds beyond the end are clamped to the length -/
theorem slice_clamp (l xs : List Val) (i j : Nat) :
    sliceAssign l i j xs = sliceAssign l (min i l.length) (min j l.length) xs := by
  unfold sliceAssign
  have h1 : min (min i l.length) l.length = min i l.length := by omega
  have h2 : min (min j l.length) l.length = min j l.length := by omega
  simp only [h1, h2]

/-- insert at the end -/
theorem slice_append (l xs : List Val) : sliceAssign l l.length l.length xs = l ++ xs := by
  rw [slice_in_range l xs l.length l.length (Nat.le_refl _) (Nat.le_refl _)]
  simp

/-- delete -/
theorem slice_delete (l : List Val) (i j : Nat) (hij : i ≤ j) (hj : j ≤ l.length) :
    sliceAssign l i j [] = l.take i ++ l.drop j := by
  rw [slice_in_range l [] i j hij hj]; simp

theorem slice_length (l xs : List Val) (i j : Nat) (hij : i ≤ j) (hj : j ≤ l.length) :
    (sliceAssign l i j xs).length = l.length - (j - i) + xs.length := by
  rw [slice_in_range l xs i j hij hj]
  simp only [List.length_append, List.length_take, List.length_drop]
  omega

/-- elements before the slice are untouched -/
theorem slice_prefix (l xs : List Val) (i j k : Nat) (hij : i ≤ j) (hj : j ≤ l.length) (hk : k < i) :
    (sliceAssign l i j xs)[k]? = l[k]? := by
  rw [slice_in_range l xs i j hij hj, List.append_assoc, List.getElem?_append_left (by simp; omega)]
  rw [List.getElem?_take]; simp [hk]

/-! ### leaf operations are ordinary dict / list assignment -/

/-- set one field of a fixed dict -/
theorem leaf_dict_set (fs : List (String × Ty)) (an : Bool) (vs : List (String × Val)) (r r' : BitReader)
    (i : Nat) (name : String) (ft : Ty) (nv : Val) (rest : Bytes)
    (hg : r.get (bitsRequired vs.length) = .ok (i, r')) (hf : fs[i]? = some (name, ft))
    (hd : decode 1 ft r'.getRest = .ok (nv, rest)) :
    nestedLeaf false (.fixedDict fs an) (.dict vs) r =
      .ok ⟨.dict (dictSet vs name nv), [name], some (.dict (dictSet vs name nv))⟩ := by
  simp [nestedLeaf, hg, hf, hd]

/-- a slice flag on a dict leaf is refused -/
theorem leaf_dict_slice_refused (fs : List (String × Ty)) (an : Bool) (vs : List (String × Val)) (r : BitReader) :
    nestedLeaf true (.fixedDict fs an) (.dict vs) r = .error (.err .assertion) := by
  simp [nestedLeaf]

/-- set one element of a list: `List.set` -/
theorem leaf_list_set (et : Ty) (sz : Option Nat) (xs : List Val) (r r1 : BitReader) (i : Nat)
    (nv : Val) (more : List Val)
    (hg : r.get (bitsRequired xs.length) = .ok (i, r1)) (hne : r1.getRest.isEmpty = false)
    (hd : decodeAll et (r1.getRest.length + 1) r1.getRest = .ok (nv :: more)) (hi : i < xs.length) :
    nestedLeaf false (.array et sz) (.list xs) r =
      .ok ⟨.list (xs.set i nv), [natStr i], some (.list (xs.set i nv))⟩ := by
  simp [nestedLeaf, hg, hne, hd, hi]

/-- a value-less set leaves `None` at that index and notifies nobody -/
theorem leaf_list_clear (et : Ty) (sz : Option Nat) (xs : List Val) (r r1 : BitReader) (i : Nat)
    (hg : r.get (bitsRequired xs.length) = .ok (i, r1)) (he : r1.getRest.isEmpty = true) (hi : i < xs.length) :
    nestedLeaf false (.array et sz) (.list xs) r = .ok ⟨.list (xs.set i .none), [natStr i], none⟩ := by
  simp [nestedLeaf, hg, he, hi]

/-- replace / insert a slice: bounds have width `bitsRequired (len + 1)` -/
theorem leaf_slice_assign (et : Ty) (sz : Option Nat) (xs new : List Val) (r r1 r2 : BitReader) (i j : Nat)
    (h1 : r.get (bitsRequired (xs.length + 1)) = .ok (i, r1))
    (h2 : r1.get (bitsRequired (xs.length + 1)) = .ok (j, r2)) (hne : r2.getRest.isEmpty = false)
    (hd : decodeAll et (r2.getRest.length + 1) r2.getRest = .ok new) :
    nestedLeaf true (.array et sz) (.list xs) r =
      .ok ⟨.list (sliceAssign xs i j new), [natStr i ++ ":" ++ natStr j], some (.list (sliceAssign xs i j new))⟩ := by
  simp [nestedLeaf, h1, h2, hne, hd]

/-- delete a slice (no element data) -/
theorem leaf_slice_delete (et : Ty) (sz : Option Nat) (xs : List Val) (r r1 r2 : BitReader) (i j : Nat)
    (h1 : r.get (bitsRequired (xs.length + 1)) = .ok (i, r1))
    (h2 : r1.get (bitsRequired (xs.length + 1)) = .ok (j, r2)) (he : r2.getRest.isEmpty = true) :
    nestedLeaf true (.array et sz) (.list xs) r =
      .ok ⟨.list (sliceAssign xs i j []), [natStr i ++ ":" ++ natStr j], none⟩ := by
  simp [nestedLeaf, h1, h2, he]

/-! ### descent: an update below index `i` is `List.set i` / dict assignment of the updated child -/

theorem walk_descend_list (sl : Bool) (fuel : Nat) (et : Ty) (sz : Option Nat) (xs : List Val)
    (r r1 r2 : BitReader) (i : Nat) (child : Val) (out : NestedOut)
    (hb : r.get 1 = .ok (1, r1)) (ht : xs ≠ [])
    (hi : r1.get (bitsRequired xs.length) = .ok (i, r2)) (hc : xs[i]? = some child)
    (hr : nestedWalk sl fuel et child r2 = .ok out) :
    nestedWalk sl (fuel + 1) (.array et sz) (.list xs) r =
      .ok ⟨.list (xs.set i out.val), natStr i :: out.path, out.notify⟩ := by
  have hne : xs.isEmpty = false := by cases xs <;> simp_all
  simp [nestedWalk, hb, pyTruthy, hne, Ty.peel, hi, hc, hr, bind, Except.bind, pure, Except.pure]

theorem walk_descend_dict (sl : Bool) (fuel : Nat) (fs : List (String × Ty)) (an : Bool)
    (vs : List (String × Val)) (r r1 r2 : BitReader) (i : Nat) (name : String) (ft : Ty) (child : Val)
    (out : NestedOut) (hb : r.get 1 = .ok (1, r1)) (ht : vs ≠ [])
    (hi : r1.get (bitsRequired vs.length) = .ok (i, r2)) (hf : fs[i]? = some (name, ft))
    (hc : dictGet? vs name = some child) (hr : nestedWalk sl fuel ft child r2 = .ok out) :
    nestedWalk sl (fuel + 1) (.fixedDict fs an) (.dict vs) r =
      .ok ⟨.dict (dictSet vs name out.val), name :: out.path, out.notify⟩ := by
  have hne : vs.isEmpty = false := by cases vs <;> simp_all
  simp [nestedWalk, hb, pyTruthy, hne, Ty.peel, hi, hf, hc, hr, bind, Except.bind, pure, Except.pure]

/-- the zero stop bit ends the walk: the leaf operation applies to the container reached -/
theorem walk_stop (sl : Bool) (fuel : Nat) (t : Ty) (v : Val) (r r1 : BitReader)
    (hb : r.get 1 = .ok (0, r1)) :
    nestedWalk sl (fuel + 1) t v r = nestedLeaf sl t.peel v r1 := by
  simp [nestedWalk, hb]

/-- an empty (falsy) container also ends the walk, whatever the continuation bit says -/
theorem walk_stop_falsy (sl : Bool) (fuel : Nat) (t : Ty) (v : Val) (r r1 : BitReader) (b : Nat)
    (hb : r.get 1 = .ok (b, r1)) (hf : pyTruthy v = false) :
    nestedWalk sl (fuel + 1) t v r = nestedLeaf sl t.peel v r1 := by
  simp [nestedWalk, hb, hf]

/-! ### frame -/

/-- a nested update changes only the `client` bucket of the addressed entity -/
theorem nested_entity_frame (reg : Registry) (e e' : Entity) (sl : Bool) (payload : Bytes)
    (l : List LogEntry) (raised : Bool) (h : applyNested reg e sl payload = .ok (e', l, raised)) :
    e'.id = e.id ∧ e'.base = e.base ∧ e'.cell = e.cell ∧ e'.volatile = e.volatile ∧ e'.view = e.view := by
  unfold applyNested at h
  simp only at h
  repeat' split at h
  all_goals first | (cases h; done) | skip
  all_goals (simp only [Except.ok.injEq, Prod.mk.injEq] at h; rw [← h.1]; exact ⟨rfl, rfl, rfl, rfl, rfl⟩)

/-- … and within that bucket only the addressed property -/
theorem nested_property_frame (reg : Registry) (e e' : Entity) (sl : Bool) (payload : Bytes)
    (l : List LogEntry) (raised : Bool) (h : applyNested reg e sl payload = .ok (e', l, raised)) :
    ∃ name v, e'.client = dictSet e.client name v := by
  unfold applyNested at h
  simp only at h
  repeat' split at h
  all_goals first | (cases h; done) | skip
  all_goals (simp only [Except.ok.injEq, Prod.mk.injEq] at h; rw [← h.1]; exact ⟨_, _, rfl⟩)

/-- no other entity changes, of the same type or not -/
theorem nested_world_frame (cfg : Config) (w : World) (id : Nat) (sl : Bool) (payload : Bytes)
    (hwf : w.WF) (j : Int) (hj : j ≠ (id : Int)) :
    (step cfg w (.nested id sl payload)).world.get? j = w.get? j :=
  C05.step_frame cfg w _ hwf j (by intro i hi; simp [C05.target] at hi; rw [← hi]; exact hj)

/-- a failing nested update leaves the world exactly as it was -/
theorem nested_failure_clean (cfg : Config) (w : World) (id : Int) (sl : Bool) (payload : Bytes) (e : Entity)
    (he : w.get? id = some e) (er : NErr) (hf : applyNested cfg.reg e sl payload = .error er) :
    (stepNested cfg w id sl payload).world = w := by
  unfold stepNested
  simp only [he, hf]
  cases er <;> rfl

/-- Non-vacuity: the slice lemmas on a concrete list (`[a,b,c,d][1:3] = [x]`). -/
example : sliceAssign [.int 1, .int 2, .int 3, .int 4] 1 3 [.int 9] = [.int 1, .int 9, .int 4] := by
  rw [slice_in_range _ _ 1 3 (by decide) (by decide)]; rfl

end ReplayModel.C06
