/-
C06 — nested (path-addressed) updates and slices follow list/dict semantics.

Proved here: Python slice-assignment semantics of `sliceAssign` (all clamping cases), the
leaf operations and the descent steps of the walk as ordinary `List.set` / dict assignment
(compositional: an update at depth d is d nested `List.set`/`dictSet`s and the leaf
operation), and the frame property (nothing else changes on that entity or any other).
The bit-level layout is closed by `walk_reach` (a written index path of any depth is
decoded to exactly that path), `leaf_encoded` (every leaf operation an encoder may write)
and `nested_update_decodes` (the whole of `read_and_apply` on a written payload).
-/
import ReplayModel.World
import ReplayModel.NestedEnc
import ReplayProofs.Lemmas.World
import ReplayProofs.C05
import ReplayProofs.C03
import ReplayProofs.C17
namespace ReplayModel.C06
open ReplayModel

/-! ### Python slice assignment -/

/-- `obj[i:j] = xs` with `i ≤ j ≤ len`: the elements i..j-1 are replaced by `xs` -/
theorem slice_in_range (l xs : List Val) (i j : Nat) (hij : i ≤ j) (hj : j ≤ l.length) :
    sliceAssign l i j xs = l.take i ++ xs ++ l.drop j := by
  unfold sliceAssign
  have h1 : min i l.length = i := by omega
  have h2 : max i (min j l.length) = j := by omega
  simp only [h1, h2]

/-- `j < i` (an "empty" slice): pure insertion at `i`, nothing is removed -/
theorem slice_reversed (l xs : List Val) (i j : Nat) (hji : j < i) (hi : i ≤ l.length) :
    sliceAssign l i j xs = l.take i ++ xs ++ l.drop i := by
  unfold sliceAssign
  have h1 : min i l.length = i := by omega
  have h2 : max i (min j l.length) = i := by omega
  simp only [h1, h2]

/-- bounds beyond the end are clamped to the length -/
theorem slice_clamp (l xs : List Val) (i j : Nat) :
    sliceAssign l i j xs = sliceAssign l (min i l.length) (min j l.length) xs := by
  unfold sliceAssign
  have h1 : min (min i l.length) l.length = min i l.length := by omega
  have h2 : min (min j l.length) l.length = min j l.length := by omega
  simp only [h1, h2]

/-- insert at the end -/
theorem slice_append (l xs : List Val) : sliceAssign l l.length l.length xs = l ++ xs := by
  rw [slice_in_range l xs l.length l.length (Nat.le_refl _) (Nat.le_refl _)]
  simp

/-- delete -/
theorem slice_delete (l : List Val) (i j : Nat) (hij : i ≤ j) (hj : j ≤ l.length) :
    sliceAssign l i j [] = l.take i ++ l.drop j := by
  rw [slice_in_range l [] i j hij hj]; simp

theorem slice_length (l xs : List Val) (i j : Nat) (hij : i ≤ j) (hj : j ≤ l.length) :
    (sliceAssign l i j xs).length = l.length - (j - i) + xs.length := by
  rw [slice_in_range l xs i j hij hj]
  simp only [List.length_append, List.length_take, List.length_drop]
  omega

/-- elements before the slice are untouched -/
theorem slice_prefix (l xs : List Val) (i j k : Nat) (hij : i ≤ j) (hj : j ≤ l.length) (hk : k < i) :
    (sliceAssign l i j xs)[k]? = l[k]? := by
  rw [slice_in_range l xs i j hij hj, List.append_assoc, List.getElem?_append_left (by simp; omega)]
  rw [List.getElem?_take]; simp [hk]

/-! ### leaf operations are ordinary dict / list assignment -/

/-- set one field of a fixed dict -/
theorem leaf_dict_set (fs : List (String × Ty)) (an : Bool) (vs : List (String × Val)) (r r' : BitReader)
    (i : Nat) (name : String) (ft : Ty) (nv : Val) (rest : Bytes)
    (hg : r.get (bitsRequired vs.length) = .ok (i, r')) (hf : fs[i]? = some (name, ft))
    (hd : decode 1 ft r'.getRest = .ok (nv, rest)) :
    nestedLeaf false (.fixedDict fs an) (.dict vs) r =
      .ok ⟨.dict (dictSet vs name nv), [name], some (.dict (dictSet vs name nv))⟩ := by
  simp [nestedLeaf, hg, hf, hd]

/-- a slice flag on a dict leaf is refused -/
theorem leaf_dict_slice_refused (fs : List (String × Ty)) (an : Bool) (vs : List (String × Val)) (r : BitReader) :
    nestedLeaf true (.fixedDict fs an) (.dict vs) r = .error (.err .assertion) := by
  simp [nestedLeaf]

/-- set one element of a list: `List.set` -/
theorem leaf_list_set (et : Ty) (sz : Option Nat) (xs : List Val) (r r1 : BitReader) (i : Nat)
    (nv : Val) (more : List Val)
    (hg : r.get (bitsRequired xs.length) = .ok (i, r1)) (hne : r1.getRest.isEmpty = false)
    (hd : decodeAll et (r1.getRest.length + 1) r1.getRest = .ok (nv :: more)) (hi : i < xs.length) :
    nestedLeaf false (.array et sz) (.list xs) r =
      .ok ⟨.list (xs.set i nv), [natStr i], some (.list (xs.set i nv))⟩ := by
  simp [nestedLeaf, hg, hne, hd, hi]

/-- a value-less set leaves `None` at that index and notifies nobody -/
theorem leaf_list_clear (et : Ty) (sz : Option Nat) (xs : List Val) (r r1 : BitReader) (i : Nat)
    (hg : r.get (bitsRequired xs.length) = .ok (i, r1)) (he : r1.getRest.isEmpty = true) (hi : i < xs.length) :
    nestedLeaf false (.array et sz) (.list xs) r = .ok ⟨.list (xs.set i .none), [natStr i], none⟩ := by
  simp [nestedLeaf, hg, he, hi]

/-- replace / insert a slice: bounds have width `bitsRequired (len + 1)` -/
theorem leaf_slice_assign (et : Ty) (sz : Option Nat) (xs new : List Val) (r r1 r2 : BitReader) (i j : Nat)
    (h1 : r.get (bitsRequired (xs.length + 1)) = .ok (i, r1))
    (h2 : r1.get (bitsRequired (xs.length + 1)) = .ok (j, r2)) (hne : r2.getRest.isEmpty = false)
    (hd : decodeAll et (r2.getRest.length + 1) r2.getRest = .ok new) :
    nestedLeaf true (.array et sz) (.list xs) r =
      .ok ⟨.list (sliceAssign xs i j new), [natStr i ++ ":" ++ natStr j], some (.list (sliceAssign xs i j new))⟩ := by
  simp [nestedLeaf, h1, h2, hne, hd]

/-- delete a slice (no element data) -/
theorem leaf_slice_delete (et : Ty) (sz : Option Nat) (xs : List Val) (r r1 r2 : BitReader) (i j : Nat)
    (h1 : r.get (bitsRequired (xs.length + 1)) = .ok (i, r1))
    (h2 : r1.get (bitsRequired (xs.length + 1)) = .ok (j, r2)) (he : r2.getRest.isEmpty = true) :
    nestedLeaf true (.array et sz) (.list xs) r =
      .ok ⟨.list (sliceAssign xs i j []), [natStr i ++ ":" ++ natStr j], none⟩ := by
  simp [nestedLeaf, h1, h2, he]

/-! ### descent: an update below index `i` is `List.set i` / dict assignment of the updated child -/

theorem walk_descend_list (sl : Bool) (fuel : Nat) (et : Ty) (sz : Option Nat) (xs : List Val)
    (r r1 r2 : BitReader) (i : Nat) (child : Val) (out : NestedOut)
    (hb : r.get 1 = .ok (1, r1)) (ht : xs ≠ [])
    (hi : r1.get (bitsRequired xs.length) = .ok (i, r2)) (hc : xs[i]? = some child)
    (hr : nestedWalk sl fuel et child r2 = .ok out) :
    nestedWalk sl (fuel + 1) (.array et sz) (.list xs) r =
      .ok ⟨.list (xs.set i out.val), natStr i :: out.path, out.notify⟩ := by
  have hne : xs.isEmpty = false := by cases xs <;> simp_all
  simp [nestedWalk, hb, pyTruthy, hne, Ty.peel, hi, hc, hr, bind, Except.bind, pure, Except.pure]

theorem walk_descend_dict (sl : Bool) (fuel : Nat) (fs : List (String × Ty)) (an : Bool)
    (vs : List (String × Val)) (r r1 r2 : BitReader) (i : Nat) (name : String) (ft : Ty) (child : Val)
    (out : NestedOut) (hb : r.get 1 = .ok (1, r1)) (ht : vs ≠ [])
    (hi : r1.get (bitsRequired vs.length) = .ok (i, r2)) (hf : fs[i]? = some (name, ft))
    (hc : dictGet? vs name = some child) (hr : nestedWalk sl fuel ft child r2 = .ok out) :
    nestedWalk sl (fuel + 1) (.fixedDict fs an) (.dict vs) r =
      .ok ⟨.dict (dictSet vs name out.val), name :: out.path, out.notify⟩ := by
  have hne : vs.isEmpty = false := by cases vs <;> simp_all
  simp [nestedWalk, hb, pyTruthy, hne, Ty.peel, hi, hf, hc, hr, bind, Except.bind, pure, Except.pure]

/-- the zero stop bit ends the walk: the leaf operation applies to the container reached -/
theorem walk_stop (sl : Bool) (fuel : Nat) (t : Ty) (v : Val) (r r1 : BitReader)
    (hb : r.get 1 = .ok (0, r1)) :
    nestedWalk sl (fuel + 1) t v r = nestedLeaf sl t.peel v r1 := by
  simp [nestedWalk, hb]

/-- an empty (falsy) container also ends the walk, whatever the continuation bit says -/
theorem walk_stop_falsy (sl : Bool) (fuel : Nat) (t : Ty) (v : Val) (r r1 : BitReader) (b : Nat)
    (hb : r.get 1 = .ok (b, r1)) (hf : pyTruthy v = false) :
    nestedWalk sl (fuel + 1) t v r = nestedLeaf sl t.peel v r1 := by
  simp [nestedWalk, hb, hf]

/-! ### frame -/

/-- a nested update changes only the `client` bucket of the addressed entity -/
theorem nested_entity_frame (reg : Registry) (e e' : Entity) (sl : Bool) (payload : Bytes)
    (l : List LogEntry) (raised : Bool) (h : applyNested reg e sl payload = .ok (e', l, raised)) :
    e'.id = e.id ∧ e'.base = e.base ∧ e'.cell = e.cell ∧ e'.volatile = e.volatile ∧ e'.view = e.view := by
  unfold applyNested at h
  simp only at h
  repeat' split at h
  all_goals first | (cases h; done) | skip
  all_goals (simp only [Except.ok.injEq, Prod.mk.injEq] at h; rw [← h.1]; exact ⟨rfl, rfl, rfl, rfl, rfl⟩)

/-- … and within that bucket only the addressed property -/
theorem nested_property_frame (reg : Registry) (e e' : Entity) (sl : Bool) (payload : Bytes)
    (l : List LogEntry) (raised : Bool) (h : applyNested reg e sl payload = .ok (e', l, raised)) :
    ∃ name v, e'.client = dictSet e.client name v := by
  unfold applyNested at h
  simp only at h
  repeat' split at h
  all_goals first | (cases h; done) | skip
  all_goals (simp only [Except.ok.injEq, Prod.mk.injEq] at h; rw [← h.1]; exact ⟨_, _, rfl⟩)

/-- no other entity changes, of the same type or not -/
theorem nested_world_frame (cfg : Config) (w : World) (id : Nat) (sl : Bool) (payload : Bytes)
    (hwf : w.WF) (j : Int) (hj : j ≠ (id : Int)) :
    (step cfg w (.nested id sl payload)).world.get? j = w.get? j :=
  C05.step_frame cfg w _ hwf j (by intro i hi; simp [C05.target] at hi; rw [← hi]; exact hj)

/-- a failing nested update leaves the world exactly as it was -/
theorem nested_failure_clean (cfg : Config) (w : World) (id : Int) (sl : Bool) (payload : Bytes) (e : Entity)
    (he : w.get? id = some e) (er : NErr) (hf : applyNested cfg.reg e sl payload = .error er) :
    (stepNested cfg w id sl payload).world = w := by
  unfold stepNested
  simp only [he, hf]
  cases er <;> rfl

/-- Non-vacuity: the slice lemmas on a concrete list (`[a,b,c,d][1:3] = [x]`). -/
example : sliceAssign [.int 1, .int 2, .int 3, .int 4] 1 3 [.int 9] = [.int 1, .int 9, .int 4] := by
  rw [slice_in_range _ _ 1 3 (by decide) (by decide)]; rfl

/-! ### bit-level layout of a nested update: encoder and closed-form decoding -/

theorem natBits_length (w n : Nat) : (natBits w n).length = w := by
  induction w generalizing n with
  | zero => rfl
  | succ w ih => simp [natBits, ih]

theorem bitsValAcc_natBits (w : Nat) : ∀ (n acc : Nat), n < 2 ^ w →
    bitsValAcc acc (natBits w n) = acc * 2 ^ w + n := by
  induction w with
  | zero => intro n acc h; simp at h; simp [natBits, bitsValAcc, h]
  | succ w ih =>
    intro n acc h
    have hlt : n % 2 ^ w < 2 ^ w := Nat.mod_lt _ (Nat.two_pow_pos w)
    rw [Nat.pow_succ] at h
    show bitsValAcc (2 * acc + (if decide (2 ^ w ≤ n) = true then 1 else 0)) (natBits w (n % 2 ^ w)) = _
    rw [ih _ _ hlt, Nat.pow_succ]
    by_cases hc : 2 ^ w ≤ n
    · have hm : n % 2 ^ w = n - 2 ^ w := by
        rw [Nat.mod_eq_sub_mod hc, Nat.mod_eq_of_lt (by omega)]
      simp only [hc, decide_true, if_true, hm]
      have e : acc * (2 ^ w * 2) = 2 * (acc * 2 ^ w) := by
        rw [Nat.mul_comm (2 ^ w) 2, ← Nat.mul_assoc, Nat.mul_comm acc 2, Nat.mul_assoc]
      rw [e, Nat.add_mul, Nat.mul_assoc]
      generalize acc * 2 ^ w = q
      generalize 2 ^ w = p at *
      omega
    · have hm : n % 2 ^ w = n := Nat.mod_eq_of_lt (by omega)
      simp only [hc, decide_false, Bool.false_eq_true, if_false, hm, Nat.add_zero]
      rw [Nat.mul_comm (2 ^ w) 2, ← Nat.mul_assoc, Nat.mul_comm acc 2]

theorem bitsVal_natBits (w n : Nat) (h : n < 2 ^ w) : bitsVal (natBits w n) = n := by
  rw [bitsVal_eq, bitsValAcc_natBits w n 0 h]; simp

/-- reading a field that was written with `natBits` returns the number and leaves the rest -/
theorem get_natBits (r : BitReader) (w n : Nat) (tail : List Bool) (h : n < 2 ^ w)
    (hp : r.pending = natBits w n ++ tail) :
    ∃ r', r.get w = .ok (n, r') ∧ r'.pending = tail ∧ (∀ bs, r.Inv bs → r'.Inv bs) := by
  have hl : w ≤ r.pending.length := by rw [hp]; simp [natBits_length]
  obtain ⟨r', h1, h2, h3⟩ := getAcc_pending w 0 r hl
  refine ⟨r', ?_, ?_, h3⟩
  · unfold BitReader.get
    rw [h1, hp]
    have : (natBits w n ++ tail).take w = natBits w n := by
      rw [List.take_append_of_le_length (by simp [natBits_length])]
      rw [List.take_of_length_le (by simp [natBits_length])]
    rw [this, ← bitsVal_eq, bitsVal_natBits w n h]
  · rw [h2, hp]
    rw [List.drop_append_of_le_length (by simp [natBits_length])]
    rw [List.drop_of_length_le (by simp [natBits_length])]
    rfl


theorem lt_two_pow_bitsRequired (i n : Nat) (h : i < n) : i < 2 ^ bitsRequired n := by
  by_cases h1 : n ≤ 1
  · have : i = 0 := by omega
    subst this; exact Nat.two_pow_pos _
  · have := (C17.bitsRequired_spec n (by omega)).2
    omega

/-- one bit as a 1-bit field -/
theorem get_bit (r : BitReader) (b : Bool) (tail : List Bool) (hp : r.pending = b :: tail) :
    ∃ r', r.get 1 = .ok ((if b then 1 else 0), r') ∧ r'.pending = tail ∧ (∀ bs, r.Inv bs → r'.Inv bs) := by
  have : natBits 1 (if b then 1 else 0) = [b] := by cases b <;> simp [natBits]
  exact get_natBits r 1 (if b then 1 else 0) tail (by cases b <;> simp) (by rw [this, hp]; rfl)

def wrap (R : Reach) (out : NestedOut) : NestedOut := ⟨R.rebuild out.val, R.names ++ out.path, out.notify⟩

/-- **The walk decodes exactly the path that was written.** For every path of indices that
exists in the value (any depth), followed by a stop bit (0, or anything when the container
reached is empty): the walk ends at that container with the reader positioned right after
the stop bit, performs the leaf operation there, and puts the result back by `List.set` /
dict assignment along the path. -/
theorem walk_reach (sl : Bool) : ∀ (path : List Nat) (t : Ty) (v : Val) (R : Reach) (r : BitReader)
    (stop : Bool) (tail : List Bool) (fuel : Nat),
    reach t v path = some R → (stop = true → pyTruthy R.val = false) → path.length < fuel →
    r.pending = R.bits ++ stop :: tail →
    ∃ r', r'.pending = tail ∧ (∀ bs, r.Inv bs → r'.Inv bs) ∧
      nestedWalk sl fuel t v r = (nestedLeaf sl R.ty.peel R.val r').map (wrap R) := by
  intro path
  induction path with
  | nil =>
    intro t v R r stop tail fuel hR hstop hfuel hp
    simp only [reach, Option.some.injEq] at hR
    subst hR
    simp only [List.nil_append] at hp
    obtain ⟨r', h1, h2, h3⟩ := get_bit r stop tail hp
    refine ⟨r', h2, h3, ?_⟩
    obtain ⟨f, rfl⟩ : ∃ f, fuel = f + 1 := ⟨fuel - 1, by simp at hfuel; omega⟩
    have hcond : ((if stop then 1 else 0) = 1 && pyTruthy v) = false := by
      cases stop with
      | false => simp
      | true => simp [hstop rfl]
    have hw : nestedWalk sl (f + 1) t v r = nestedLeaf sl t.peel v r' := by
      simp only [nestedWalk, h1]
      simp only [hcond, Bool.false_eq_true, if_false]
    rw [hw]
    cases nestedLeaf sl t.peel v r' with
    | error e => rfl
    | ok out => simp [Except.map, wrap]
  | cons i rest ih =>
    intro t v R r stop tail fuel hR hstop hfuel hp
    obtain ⟨f, rfl⟩ : ∃ f, fuel = f + 1 := ⟨fuel - 1, by simp at hfuel; omega⟩
    have hf : rest.length < f := by simp at hfuel; omega
    unfold reach at hR
    split at hR
    · -- list
      rename_i et sz xs hpeel
      cases hc : xs[i]? with
      | none => simp [hc] at hR
      | some child =>
        simp only [hc, Option.map_eq_some_iff] at hR
        obtain ⟨R', hR', rfl⟩ := hR
        have hi : i < xs.length := by
          rcases Nat.lt_or_ge i xs.length with h | h
          · exact h
          · rw [List.getElem?_eq_none h] at hc; cases hc
        simp only [List.cons_append, List.append_assoc] at hp
        obtain ⟨r1, g1, g2, g3⟩ := get_bit r true _ hp
        obtain ⟨r2, k1, k2, k3⟩ := get_natBits r1 (bitsRequired xs.length) i _ (lt_two_pow_bitsRequired i _ hi) g2
        obtain ⟨r', m1, m2, m3⟩ := ih et child R' r2 stop tail f hR' hstop hf k2
        refine ⟨r', m1, fun bs h => m2 bs (k3 bs (g3 bs h)), ?_⟩
        have hne : xs.isEmpty = false := by cases xs <;> simp_all
        simp only [nestedWalk, g1, if_true, pyTruthy, hne, hpeel, k1, hc, m3]
        cases nestedLeaf sl R'.ty.peel R'.val r' with
        | error e => rfl
        | ok out => simp [Except.map, wrap, bind, Except.bind, pure, Except.pure]
    · -- dict
      rename_i fs an vs hpeel
      split at hR
      · rename_i hi
        cases hfi : fs[i]? with
        | none => simp [hfi] at hR
        | some nf =>
          obtain ⟨name, ft⟩ := nf
          cases hc : dictGet? vs name with
          | none => simp [hfi, hc] at hR
          | some child =>
            simp only [hfi, hc, Option.map_eq_some_iff] at hR
            obtain ⟨R', hR', rfl⟩ := hR
            simp only [List.cons_append, List.append_assoc] at hp
            obtain ⟨r1, g1, g2, g3⟩ := get_bit r true _ hp
            obtain ⟨r2, k1, k2, k3⟩ := get_natBits r1 (bitsRequired vs.length) i _ (lt_two_pow_bitsRequired i _ hi) g2
            obtain ⟨r', m1, m2, m3⟩ := ih ft child R' r2 stop tail f hR' hstop hf k2
            refine ⟨r', m1, fun bs h => m2 bs (k3 bs (g3 bs h)), ?_⟩
            have hne : vs.isEmpty = false := by cases vs <;> simp_all
            simp only [nestedWalk, g1, if_true, pyTruthy, hne, hpeel, k1, hfi, hc, m3]
            cases nestedLeaf sl R'.ty.peel R'.val r' with
            | error e => rfl
            | ok out => simp [Except.map, wrap, bind, Except.bind, pure, Except.pure]
      · cases hR
    · cases hR


/-! ### the element data starts at the next byte boundary -/

theorem getRest_of_pending (r : BitReader) (bs pre data : Bytes) (pad : List Bool)
    (hinv : r.Inv bs) (hbs : bs = pre ++ data) (hp : r.pending = pad ++ C17.bitsOf data) (hpad : pad.length < 8) :
    r.getRest = data := by
  obtain ⟨⟨j, hj, hs⟩, hc⟩ := hinv
  have hl := pending_length r
  rw [hp, List.length_append, C17.bitsOf_length] at hl
  have hsl : r.stream.length = data.length := by omega
  unfold BitReader.getRest
  rw [hs] at hsl ⊢
  rw [List.length_drop, hbs, List.length_append] at hsl
  have hj' : j = pre.length := by rw [hbs, List.length_append] at hj; omega
  rw [hj', hbs, List.drop_left]

/-- the read-until-exhausted loop returns exactly the elements that were written -/
theorem decodeAll_encode (et : Ty) : ∀ (vs : List Val) (fuel : Nat),
    (∀ v ∈ vs, hasTy et v = true ∧ userOK 1 et v = true ∧ encodeWire 1 et v ≠ []) →
    (vs.flatMap (encodeWire 1 et)).length < fuel →
    decodeAll et fuel (vs.flatMap (encodeWire 1 et)) = .ok vs := by
  intro vs
  induction vs with
  | nil =>
    intro fuel _ hf
    obtain ⟨f, rfl⟩ : ∃ f, fuel = f + 1 := ⟨fuel - 1, by omega⟩
    simp [decodeAll]
  | cons v vs ih =>
    intro fuel hall hf
    obtain ⟨f, rfl⟩ : ∃ f, fuel = f + 1 := ⟨fuel - 1, by omega⟩
    obtain ⟨hv, hu, hne⟩ := hall v (List.mem_cons_self ..)
    have hpos : 0 < (encodeWire 1 et v).length := List.length_pos_iff.mpr hne
    simp only [List.flatMap_cons] at hf ⊢
    have hnonempty : (encodeWire 1 et v ++ vs.flatMap (encodeWire 1 et)).isEmpty = false := by
      cases h : encodeWire 1 et v with
      | nil => exact absurd h hne
      | cons a b => rfl
    unfold decodeAll
    simp only [hnonempty, Bool.false_eq_true, if_false, C03.decode_encode 1 et v _ hv hu]
    have hprog : ¬ (vs.flatMap (encodeWire 1 et)).length = (encodeWire 1 et v ++ vs.flatMap (encodeWire 1 et)).length := by
      rw [List.length_append]; omega
    simp only [hprog, if_false]
    rw [ih f (fun x hx => hall x (List.mem_cons_of_mem _ hx)) (by rw [List.length_append] at hf; omega)]
    rfl

/-! ### the leaf operations as written by an encoder -/

/-- what an encoder must respect: indices representable in their field (slice bounds may
exceed the length: Python clamps them) and, for element access, in range, values of the element
type, element encodings non-empty (no zero-width elements) -/
def leafOK (t : Ty) (v : Val) : LeafOp → Prop
  | .dictSet i nv => ∃ fs an vs name ft, t = .fixedDict fs an ∧ v = .dict vs ∧ i < vs.length ∧ fs[i]? = some (name, ft) ∧
      hasTy ft nv = true ∧ userOK 1 ft nv = true
  | .listSet i nv => ∃ et sz xs, t = .array et sz ∧ v = .list xs ∧ i < xs.length ∧
      hasTy et nv = true ∧ userOK 1 et nv = true ∧ encodeWire 1 et nv ≠ []
  | .listClear i => ∃ et sz xs, t = .array et sz ∧ v = .list xs ∧ i < xs.length
  | .slice i j new => ∃ et sz xs, t = .array et sz ∧ v = .list xs ∧
      i < 2 ^ bitsRequired (xs.length + 1) ∧ j < 2 ^ bitsRequired (xs.length + 1) ∧
      (∀ x ∈ new, hasTy et x = true ∧ userOK 1 et x = true ∧ encodeWire 1 et x ≠ [])

theorem flatMap_enc_empty (et : Ty) (new : List Val) (h : ∀ x ∈ new, encodeWire 1 et x ≠ []) :
    (new.flatMap (encodeWire 1 et)).isEmpty = new.isEmpty := by
  cases new with
  | nil => rfl
  | cons x xs =>
    simp only [List.flatMap_cons, List.isEmpty_cons]
    cases hx : encodeWire 1 et x with
    | nil => exact absurd hx (h x (List.mem_cons_self ..))
    | cons a b => rfl

/-- **Leaf operations decode to what was written**, for every container, every operation the
encoder may legally write, and any reader positioned at the index fields with the element
data starting at the next byte boundary. -/
theorem leaf_encoded (t : Ty) (v : Val) (op : LeafOp) (r : BitReader) (bs pre : Bytes) (pad : List Bool)
    (hok : leafOK t v op) (hinv : r.Inv bs) (hbs : bs = pre ++ leafData t op)
    (hp : r.pending = leafBits v op ++ (pad ++ C17.bitsOf (leafData t op))) (hpad : pad.length < 8) :
    ∃ out, leafResult t v op = some out ∧ nestedLeaf op.isSlice t v r = .ok out := by
  cases op with
  | dictSet i nv =>
    obtain ⟨fs, an, vs, name, ft, rfl, rfl, hi, hf, hv, hu⟩ := hok
    simp only [leafBits, leafData, hf] at hp hbs
    obtain ⟨r', g1, g2, g3⟩ := get_natBits r _ i _ (lt_two_pow_bitsRequired i _ hi) hp
    have hrest := getRest_of_pending r' bs pre _ pad (g3 bs hinv) hbs g2 hpad
    have hd : decode 1 ft r'.getRest = .ok (nv, []) := by
      rw [hrest]
      have := C03.decode_encode 1 ft nv [] hv hu
      simpa using this
    exact ⟨_, by simp [leafResult, hf], leaf_dict_set fs an vs r r' i name ft nv [] g1 hf hd⟩
  | listSet i nv =>
    obtain ⟨et, sz, xs, rfl, rfl, hi, hv, hu, hne⟩ := hok
    simp only [leafBits, leafData] at hp hbs
    obtain ⟨r', g1, g2, g3⟩ := get_natBits r _ i _ (lt_two_pow_bitsRequired i _ hi) hp
    have hrest := getRest_of_pending r' bs pre _ pad (g3 bs hinv) hbs g2 hpad
    have hne' : r'.getRest.isEmpty = false := by
      rw [hrest]; cases h : encodeWire 1 et nv with
      | nil => exact absurd h hne
      | cons a b => rfl
    have hd : decodeAll et (r'.getRest.length + 1) r'.getRest = .ok [nv] := by
      rw [hrest]
      have := decodeAll_encode et [nv] ((encodeWire 1 et nv).length + 1)
        (by intro x hx; simp only [List.mem_singleton] at hx; subst hx; exact ⟨hv, hu, hne⟩) (by simp)
      simpa using this
    exact ⟨_, rfl, leaf_list_set et sz xs r r' i nv [] g1 hne' hd hi⟩
  | listClear i =>
    obtain ⟨et, sz, xs, rfl, rfl, hi⟩ := hok
    simp only [leafBits, leafData] at hp hbs
    obtain ⟨r', g1, g2, g3⟩ := get_natBits r _ i _ (lt_two_pow_bitsRequired i _ hi) hp
    have hrest := getRest_of_pending r' bs pre _ pad (g3 bs hinv) hbs g2 hpad
    exact ⟨_, rfl, leaf_list_clear et sz xs r r' i g1 (by rw [hrest]; rfl) hi⟩
  | slice i j new =>
    obtain ⟨et, sz, xs, rfl, rfl, hi, hj, hall⟩ := hok
    simp only [leafBits, leafData, List.append_assoc] at hp hbs
    obtain ⟨r1, g1, g2, g3⟩ := get_natBits r _ i _ hi hp
    obtain ⟨r2, k1, k2, k3⟩ := get_natBits r1 _ j _ hj g2
    have hrest := getRest_of_pending r2 bs pre _ pad (k3 bs (g3 bs hinv)) hbs k2 hpad
    have hemp := flatMap_enc_empty et new (fun x hx => (hall x hx).2.2)
    by_cases hnew : new.isEmpty = true
    · have hnil : new = [] := by cases new <;> simp_all
      subst hnil
      refine ⟨_, rfl, ?_⟩
      have := leaf_slice_delete et sz xs r r1 r2 i j g1 k1 (by rw [hrest]; rfl)
      simpa [LeafOp.isSlice] using this
    · have hnew' : new.isEmpty = false := by simpa using hnew
      have hne' : r2.getRest.isEmpty = false := by rw [hrest, hemp]; exact hnew'
      have hd : decodeAll et (r2.getRest.length + 1) r2.getRest = .ok new := by
        rw [hrest]
        exact decodeAll_encode et new _ hall (by omega)
      refine ⟨_, rfl, ?_⟩
      have := leaf_slice_assign et sz xs new r r1 r2 i j g1 k1 hne' hd
      simpa [LeafOp.isSlice, hnew'] using this


theorem reach_bits_length : ∀ (path : List Nat) (t : Ty) (v : Val) (R : Reach),
    reach t v path = some R → path.length ≤ R.bits.length := by
  intro path
  induction path with
  | nil => intro t v R h; simp
  | cons i rest ih =>
    intro t v R h
    unfold reach at h
    split at h
    · rename_i et sz xs hpeel
      cases hc : xs[i]? with
      | none => simp [hc] at h
      | some child =>
        simp only [hc, Option.map_eq_some_iff] at h
        obtain ⟨R', hR', rfl⟩ := h
        have := ih _ _ _ hR'
        simp only [List.length_cons, List.length_append]; omega
    · rename_i fs an vs hpeel
      split at h
      · cases hfi : fs[i]? with
        | none => simp [hfi] at h
        | some nf =>
          obtain ⟨name, ft⟩ := nf
          cases hc : dictGet? vs name with
          | none => simp [hfi, hc] at h
          | some child =>
            simp only [hfi, hc, Option.map_eq_some_iff] at h
            obtain ⟨R', hR', rfl⟩ := h
            have := ih _ _ _ hR'
            simp only [List.length_cons, List.length_append]; omega
      · cases h
    · cases h

theorem ofBytes_inv (bs : Bytes) : (BitReader.ofBytes bs).Inv bs :=
  ⟨⟨0, Nat.zero_le _, rfl⟩, by simp [BitReader.ofBytes]⟩

/-- **A nested update decodes to exactly the operation that was written** — the closed form
of `NestedProperty.read_and_apply`. For every entity, every client property holding a
container, every index path that exists in it (any depth), every leaf operation an encoder
may legally write, and every payload whose leading bytes spell, MSB first,
`1, property index, (1, child index)*, 0, leaf index fields` padded to a byte boundary and
followed by the wire encoding of the new elements: the update succeeds and the entity's
property becomes the old value with the leaf operation applied at the end of the path
(`List.set` / dict assignment along the path, Python slice assignment at the leaf); nothing
else in the entity changes (`nested_entity_frame`). -/
theorem nested_update_decodes (reg : Registry) (e : Entity) (header : Bytes) (pi : Nat) (p : PropDef) (v : Val)
    (path : List Nat) (R : Reach) (op : LeafOp) (pad : List Bool)
    (hp : e.view.clientProps[pi]? = some p) (hv : dictGet? e.client p.name = some v)
    (hR : reach p.ty v path = some R) (hok : leafOK R.ty.peel R.val op)
    (hbits : C17.bitsOf header = true :: (natBits (bitsRequired e.view.clientProps.length) pi ++
      (R.bits ++ false :: (leafBits R.val op ++ pad))))
    (hpad : pad.length < 8) :
    ∃ out l raised, leafResult R.ty.peel R.val op = some out ∧
      applyNested reg e op.isSlice (header ++ leafData R.ty.peel op) =
        .ok ({ e with client := dictSet e.client p.name (R.rebuild out.val) }, l, raised) := by
  let payload := header ++ leafData R.ty.peel op
  have hpi : pi < e.view.clientProps.length := by
    rcases Nat.lt_or_ge pi e.view.clientProps.length with h | h
    · exact h
    · rw [List.getElem?_eq_none h] at hp; cases hp
  have hpend : (BitReader.ofBytes payload).pending = C17.bitsOf header ++ C17.bitsOf (leafData R.ty.peel op) := by
    simp [BitReader.ofBytes, BitReader.pending, C17.bitsOf, payload]
  rw [hbits] at hpend
  simp only [List.cons_append, List.append_assoc] at hpend
  obtain ⟨r1, g1, g2, g3⟩ := get_bit (BitReader.ofBytes payload) true _ hpend
  obtain ⟨r2, k1, k2, k3⟩ := get_natBits r1 _ pi _ (lt_two_pow_bitsRequired pi _ hpi) g2
  have hfuel : path.length < 8 * payload.length + 2 := by
    have h1 := reach_bits_length path p.ty v R hR
    have h2 := congrArg List.length hbits
    rw [C17.bitsOf_length] at h2
    simp only [List.length_cons, List.length_append] at h2
    have : header.length ≤ payload.length := by simp [payload]
    omega
  obtain ⟨r3, m1, m2, m3⟩ := walk_reach op.isSlice path p.ty v R r2 false _ (8 * payload.length + 2) hR
    (by intro h; cases h) hfuel k2
  have hinv3 : r3.Inv payload := m2 _ (k3 _ (g3 _ (ofBytes_inv payload)))
  obtain ⟨out, ho1, ho2⟩ := leaf_encoded R.ty.peel R.val op r3 payload header pad hok hinv3 rfl
    (by rw [m1]) hpad
  refine ⟨out, ?_⟩
  have hwalk : nestedWalk op.isSlice (8 * payload.length + 2) p.ty v r2 = .ok (wrap R out) := by
    rw [m3, ho2]; rfl
  have hg1 : (BitReader.ofBytes payload).get 1 = .ok (1, r1) := by simpa using g1
  unfold applyNested
  simp only [payload] at hg1 k1 hwalk
  simp only [hg1, k1, hp, hv, hwalk]
  simp only [show ((1 : Nat) = 0) = False by simp, if_false, wrap]
  cases out.notify with
  | none => exact ⟨[], false, ho1, rfl⟩
  | some obj => exact ⟨_, _, ho1, rfl⟩


/-! ### the encoder: bit packing and the full round trip -/

theorem bitsOfByte_byteOfBits (b0 b1 b2 b3 b4 b5 b6 b7 : Bool) :
    bitsOfByte (byteOfBits [b0, b1, b2, b3, b4, b5, b6, b7]) = [b0, b1, b2, b3, b4, b5, b6, b7] := by
  cases b0 <;> cases b1 <;> cases b2 <;> cases b3 <;> cases b4 <;> cases b5 <;> cases b6 <;> cases b7 <;> decide

/-- **Bit packing is inverted by the reader's bit order**: the bits of the packed bytes are the
bits written, followed by fewer than 8 zero padding bits. -/
theorem bitsOf_packBits (bs : List Bool) :
    ∃ pad : List Bool, pad.length < 8 ∧ C17.bitsOf (packBits bs) = bs ++ pad := by
  fun_induction packBits bs with
  | case1 b0 b1 b2 b3 b4 b5 b6 b7 rest ih =>
    obtain ⟨pad, h1, h2⟩ := ih
    refine ⟨pad, h1, ?_⟩
    simp only [C17.bitsOf, List.flatMap_cons] at h2 ⊢
    rw [h2, bitsOfByte_byteOfBits]; rfl
  | case2 => exact ⟨[], by simp, rfl⟩
  | case3 short h1 h2 =>
    rcases short with _ | ⟨a0, _ | ⟨a1, _ | ⟨a2, _ | ⟨a3, _ | ⟨a4, _ | ⟨a5, _ | ⟨a6, _ | ⟨a7, rest⟩⟩⟩⟩⟩⟩⟩⟩
    · exact absurd rfl h2
    · exact ⟨List.replicate 7 false, by simp, by simp [C17.bitsOf, bitsOfByte_byteOfBits]⟩
    · exact ⟨List.replicate 6 false, by simp, by simp [C17.bitsOf, bitsOfByte_byteOfBits]⟩
    · exact ⟨List.replicate 5 false, by simp, by simp [C17.bitsOf, bitsOfByte_byteOfBits]⟩
    · exact ⟨List.replicate 4 false, by simp, by simp [C17.bitsOf, bitsOfByte_byteOfBits]⟩
    · exact ⟨List.replicate 3 false, by simp, by simp [C17.bitsOf, bitsOfByte_byteOfBits]⟩
    · exact ⟨List.replicate 2 false, by simp, by simp [C17.bitsOf, bitsOfByte_byteOfBits]⟩
    · exact ⟨List.replicate 1 false, by simp, by simp [C17.bitsOf, bitsOfByte_byteOfBits]⟩
    · exact absurd rfl (h1 a0 a1 a2 a3 a4 a5 a6 a7 rest)

theorem leafOKb_sound (t : Ty) (v : Val) (op : LeafOp) (h : leafOKb t v op = true) : leafOK t v op := by
  cases op with
  | dictSet i nv =>
    simp only [leafOKb] at h
    split at h
    · rename_i fs an vs
      simp only [Bool.and_eq_true, decide_eq_true_eq] at h
      obtain ⟨hi, hrest⟩ := h
      cases hf : fs[i]? with
      | none => simp [hf] at hrest
      | some nf =>
        obtain ⟨name, ft⟩ := nf
        simp only [hf, Bool.and_eq_true] at hrest
        exact ⟨fs, an, vs, name, ft, rfl, rfl, hi, hf, hrest.1, hrest.2⟩
    · cases h
  | listSet i nv =>
    simp only [leafOKb] at h
    split at h
    · rename_i et sz xs
      simp only [Bool.and_eq_true, decide_eq_true_eq, Bool.not_eq_true', List.isEmpty_eq_false_iff] at h
      exact ⟨et, sz, xs, rfl, rfl, h.1.1.1, h.1.1.2, h.1.2, h.2⟩
    · cases h
  | listClear i =>
    simp only [leafOKb] at h
    split at h
    · rename_i et sz xs
      simp only [decide_eq_true_eq] at h
      exact ⟨et, sz, xs, rfl, rfl, h⟩
    · cases h
  | slice i j new =>
    simp only [leafOKb] at h
    split at h
    · rename_i et sz xs
      simp only [Bool.and_eq_true, decide_eq_true_eq, List.all_eq_true, Bool.not_eq_true', List.isEmpty_eq_false_iff] at h
      exact ⟨et, sz, xs, rfl, rfl, h.1.1, h.1.2, fun x hx => ⟨(h.2 x hx).1.1, (h.2 x hx).1.2, (h.2 x hx).2⟩⟩
    · cases h

/-- **Writing then applying a nested update is the list/dict operation** — the round trip of
`encodeNested` through `NestedProperty.read_and_apply`, for every entity, property, index
path of any depth and leaf operation for which an encoding exists. No hypothesis about the
shape of the header remains: the bytes are those `packBits` produces. -/
theorem nested_encode_apply (reg : Registry) (e : Entity) (pi : Nat) (path : List Nat) (op : LeafOp)
    (payload : Bytes) (h : encodeNested e pi path op = some payload) :
    ∃ p v R out l raised, e.view.clientProps[pi]? = some p ∧ dictGet? e.client p.name = some v ∧
      reach p.ty v path = some R ∧ leafResult R.ty.peel R.val op = some out ∧
      applyNested reg e op.isSlice payload =
        .ok ({ e with client := dictSet e.client p.name (R.rebuild out.val) }, l, raised) := by
  unfold encodeNested at h
  cases hp : e.view.clientProps[pi]? with
  | none => simp [hp] at h
  | some p =>
    cases hv : dictGet? e.client p.name with
    | none => simp [hp, hv] at h
    | some v =>
      cases hR : reach p.ty v path with
      | none => simp [hp, hv, hR] at h
      | some R =>
        simp only [hp, hv, hR] at h
        split at h
        · rename_i hok
          simp only [Option.some.injEq] at h
          subst h
          obtain ⟨pad, hpad, hbits⟩ := bitsOf_packBits (nestedBits e.view.clientProps.length pi R op)
          have hb : C17.bitsOf (packBits (nestedBits e.view.clientProps.length pi R op)) =
              true :: (natBits (bitsRequired e.view.clientProps.length) pi ++
                (R.bits ++ false :: (leafBits R.val op ++ pad))) := by
            rw [hbits]; simp [nestedBits]
          obtain ⟨out, l, raised, h1, h2⟩ := nested_update_decodes reg e _ pi p v path R op pad hp hv hR
            (leafOKb_sound _ _ _ hok) hb hpad
          exact ⟨p, v, R, out, l, raised, rfl, hv, hR, h1, h2⟩
        · cases h

/-! ### the packet around the body, and the whole step -/

/-- the packet layout around the body: id, slice flag, length, body -/
theorem nested_payload_deserialize (jsonOk : Bytes → Bool) (id : Nat) (sl : Bool) (body : Bytes)
    (hid : id < 2 ^ 32) (hlen : body.length < 2 ^ 32) :
    deserialize jsonOk .nestedProperty (nestedPayload id sl body) = .ok (.nested id sl body) := by
  have h1 : readUIntLE 4 (nestedPayload id sl body) =
      .ok (id, [if sl then 1 else 0] ++ toLE 4 body.length ++ body) := by
    have := readUIntLE_toLE 4 id ([if sl then 1 else 0] ++ toLE 4 body.length ++ body) (by simpa using hid)
    simpa [nestedPayload, List.append_assoc] using this
  have h2 : readIntLE 1 ([if sl then (1 : UInt8) else 0] ++ toLE 4 body.length ++ body) =
      .ok ((if sl then 1 else 0), toLE 4 body.length ++ body) := by
    cases sl <;> rfl
  have h3 : readUIntLE 4 (toLE 4 body.length ++ body) = .ok (body.length, body) :=
    readUIntLE_toLE 4 body.length body (by simpa using hlen)
  simp only [deserialize, h1, h2, h3, bind, Except.bind, pure, Except.pure, if_true]
  cases sl <;> rfl
/-- **A nested-update packet, end to end through `stepNet`**: framed payload → deserialise →
`read_and_apply` → world. For every non-wowp dialect, world, entity and encodable operation the
entity is replaced by the one with the list/dict operation applied at the path; the log grows
by the nested subscribers' calls; every other entity is untouched (`nested_world_frame`). -/
theorem nested_packet_step (jsonOk : Bytes → Bool) (cfg : Config) (w : World) (np : NetPacket) (e : Entity)
    (id pi : Nat) (path : List Nat) (op : LeafOp) (body : Bytes)
    (hgame : cfg.dialect.game ≠ .wowp) (hk : cfg.dialect.kindOf np.type = some .nestedProperty)
    (hpl : np.payload = nestedPayload id op.isSlice body) (hid : id < 2 ^ 32) (hlen : body.length < 2 ^ 32)
    (he : w.get? id = some e) (henc : encodeNested e pi path op = some body) :
    ∃ p v R out l, ∃ raised : Bool, e.view.clientProps[pi]? = some p ∧ dictGet? e.client p.name = some v ∧
      reach p.ty v path = some R ∧ leafResult R.ty.peel R.val op = some out ∧
      stepNet jsonOk cfg w np =
        ⟨{ (w.put { e with client := dictSet e.client p.name (R.rebuild out.val) }) with log := w.log ++ l },
          if raised then some .type else none⟩ := by
  obtain ⟨p, v, R, out, l, raised, h1, h2, h3, h4, h5⟩ := nested_encode_apply cfg.reg e pi path op body henc
  refine ⟨p, v, R, out, l, raised, h1, h2, h3, h4, ?_⟩
  have hstep : step cfg w (.nested id op.isSlice body) = stepNested cfg w id op.isSlice body := by
    unfold step
    cases hg : cfg.dialect.game <;> simp_all
  simp only [stepNet, hk, hpl, nested_payload_deserialize jsonOk id op.isSlice body hid hlen, hstep]
  simp only [stepNested, he, h5]
  cases raised <;> rfl

/-! Non-vacuity of `nested_update_decodes`: a concrete entity, path `crew[0].ys`, slice `1:2 := [8, 9]`.
Header bits `1 | prop 1 | 1 elem 0 | 1 field 1 | 0 | i=01 | j=10 | pad` = `EC C0`, data `08 09`. -/
def exView : EntityView :=
  { name := "E", methods := [],
    clientProps := [⟨"a", .int 1 false, 0⟩,
      ⟨"crew", .array (.fixedDict [("x", .int 1 false), ("ys", .array (.int 1 false) none)] false) none, 0⟩],
    clientPropsInternal := [], cellProps := [], baseProps := [], volatile := [] }
def exEnt : Entity :=
  { id := 7, view := exView,
    client := [("crew", .list [.dict [("x", .int 1), ("ys", .list [.int 5, .int 6, .int 7])], .dict [("x", .int 2), ("ys", .list [])]])] }

example : (applyNested {} exEnt true [0xEC, 0xC0, 8, 9]).toOption.map (·.1.client) =
    some [("crew", .list [.dict [("x", .int 1), ("ys", .list [.int 5, .int 8, .int 9, .int 7])], .dict [("x", .int 2), ("ys", .list [])]])] := by
  rfl

example : C17.bitsOf [0xEC, 0xC0] = true :: (natBits 1 1 ++ ([true, false, true, true] ++ false :: ((natBits 2 1 ++ natBits 2 2) ++ [false, false, false, false, false]))) := by
  decide

/-- the encoder produces exactly that payload, so `nested_encode_apply` / `nested_packet_step`
have a satisfiable premise -/
example : encodeNested exEnt 1 [0, 1] (.slice 1 2 [.int 8, .int 9]) = some [0xEC, 0xC0, 8, 9] := by
  rfl

example : packBits [true, true, true, false, true, true, false, false, true, true] = [0xEC, 0xC0] := by decide

end ReplayModel.C06
