/-
C13 — parsing is deterministic and independent of what was parsed before.

The only mutable state a parse reads that survives it is the class-level subscription
registry (`core/entity.py`). A parse starts by clearing it (`ControlledPlayerBase.__init__`
→ `Entity.clear_subscriptions`), then the controller of the selected version registers its
callbacks, then the stream is played. In the model a parse is therefore a function of the
registry it *finds*, the subscriptions the controller makes and the stream; the theorems say
the found registry is irrelevant. (Imported version modules and `sys.path` also persist; they
are immutable data for the parser — the tie checks that by comparing with fresh processes.)
-/
import ReplayModel.World
import ReplayModel.Play
namespace ReplayModel.C13
open ReplayModel

/-- `Entity.clear_subscriptions()` -/
def clear (_ : Registry) : Registry := {}

/-- the controller's `__init__`: a sequence of `subscribe_*` calls -/
inductive SubCall where
  | method (key : String) (s : Sub)
  | prop (key : String) (s : Sub)
  | nested (key : String) (s : Sub)

def register (r : Registry) : SubCall → Registry
  | .method k s => { r with methods := subscribe r.methods k s }
  | .prop k s => { r with props := subscribe r.props k s }
  | .nested k s => { r with nested := subscribe r.nested k s }

/-- one parse: clear, let the controller subscribe, play; returns the result and the registry
left behind -/
def parse (jsonOk : Bytes → Bool) (defs : Defs) (dialect : Dialect) (controller : List SubCall) (strict : Bool)
    (found : Registry) (stream : Bytes) : PlayResult × Registry :=
  let reg := controller.foldl register (clear found)
  (play jsonOk { defs := defs, dialect := dialect, reg := reg } strict {} stream, reg)

/-- **The result of a parse does not depend on the registry it finds** — i.e. on anything
parsed before in the same process (any game, version, mode, successful or failed). -/
theorem parse_result_local (jsonOk : Bytes → Bool) (defs : Defs) (dialect : Dialect) (controller : List SubCall)
    (strict : Bool) (r1 r2 : Registry) (stream : Bytes) :
    parse jsonOk defs dialect controller strict r1 stream = parse jsonOk defs dialect controller strict r2 stream := rfl

/-- in particular it equals the fresh-process result (empty registry) -/
theorem parse_eq_fresh (jsonOk : Bytes → Bool) (defs : Defs) (dialect : Dialect) (controller : List SubCall)
    (strict : Bool) (found : Registry) (stream : Bytes) :
    (parse jsonOk defs dialect controller strict found stream).1 =
      (parse jsonOk defs dialect controller strict {} stream).1 := rfl

/-- a whole sequence of parses: each file's result is its fresh-process result, whatever
the order, repetitions or mixture -/
def parseAll (jsonOk : Bytes → Bool) :
    Registry → List (Defs × Dialect × List SubCall × Bool × Bytes) → List PlayResult
  | _, [] => []
  | r, (d, dl, c, st, s) :: rest =>
    let out := parse jsonOk d dl c st r s
    out.1 :: parseAll jsonOk out.2 rest

theorem parse_sequence (jsonOk : Bytes → Bool) (jobs : List (Defs × Dialect × List SubCall × Bool × Bytes)) :
    ∀ r : Registry, parseAll jsonOk r jobs =
      jobs.map (fun j => (parse jsonOk j.1 j.2.1 j.2.2.1 j.2.2.2.1 {} j.2.2.2.2).1) := by
  induction jobs with
  | nil => intro r; rfl
  | cons j rest ih =>
    intro r
    obtain ⟨d, dl, c, st, s⟩ := j
    simp only [parseAll, List.map_cons]
    rw [ih]
    rfl

/-- the registry a parse leaves behind is exactly its own controller's: nothing of earlier
controllers survives (the repaired accumulation defect) -/
theorem registry_after_parse (jsonOk : Bytes → Bool) (defs : Defs) (dialect : Dialect) (controller : List SubCall)
    (strict : Bool) (found : Registry) (stream : Bytes) :
    (parse jsonOk defs dialect controller strict found stream).2 = controller.foldl register {} := rfl

/-- determinism: the model's parse is a function -/
theorem parse_deterministic (jsonOk : Bytes → Bool) (defs : Defs) (dialect : Dialect) (controller : List SubCall)
    (strict : Bool) (found : Registry) (stream : Bytes) :
    ∀ a b, a = parse jsonOk defs dialect controller strict found stream →
      b = parse jsonOk defs dialect controller strict found stream → a = b := by
  intro a b ha hb; rw [ha, hb]

/-- Non-vacuity: a stale registry with a raising subscriber on a key the new controller also
uses does not change the outcome. -/
example : (parse (fun _ => true) ⟨[]⟩ wowsOld [.method "Avatar_m" ⟨1, false⟩] true
      { methods := [("Avatar_m", [⟨0, true⟩])] } []).2.methods = [("Avatar_m", [⟨1, false⟩])] := by
  decide +kernel

end ReplayModel.C13
