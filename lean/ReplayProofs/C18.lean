/-
C18 — parsing a replay cannot execute code chosen by the file.
-/
import ReplayModel.PickleVM
import ReplayModel.Version
import ReplayModel.Generated.Facts
namespace ReplayModel.C18
open ReplayModel

/-! ### unpickling -/

/-- **A restricted unpickler only ever locates allow-listed classes** — for every byte
string, however malformed: every `find_class` event of a run with allow-list `a` is in `a`. -/
theorem restricted_unpickle_safe (a : List (Bytes × Bytes)) : ∀ (fuel : Nat) (bs : Bytes) (st : PState),
    (∀ e ∈ st.events, e ∈ a) → ∀ e ∈ (pickleRun (some a) fuel bs st).events, e ∈ a := by
  intro fuel
  induction fuel with
  | zero => intro bs st h e he; simp [pickleRun, PEnd.events] at he; exact h e he
  | succ n ih =>
    intro bs st h
    cases bs with
    | nil => intro e he; simp [pickleRun, PEnd.events] at he; exact h e he
    | cons op rest =>
      have hst : ∀ (s' : PState), s'.events = st.events → ∀ e ∈ s'.events, e ∈ a := by
        intro s' hs e he; rw [hs] at he; exact h e he
      have hcls : ∀ (m nm : Bytes) (r : Bytes) (stack : List PVal), ∀ e ∈
          (if allowed (some a) m nm then pickleRun (some a) n r { stack := .glob m nm :: stack, events := st.events ++ [(m, nm)] }
           else PEnd.refused st.events m nm).events, e ∈ a := by
        intro m nm r stack
        split
        · rename_i hal
          apply ih
          intro e he
          rcases List.mem_append.mp he with he | he
          · exact h e he
          · simp only [List.mem_singleton] at he
            rw [he]
            simpa [allowed] using hal
        · intro e he; exact h e he
      unfold pickleRun
      simp only
      -- every branch either stops with the events so far, recurses with the same events, or goes through `cls`
      repeat' split
      all_goals first
        | (intro e he; exact h e he)
        | exact hcls _ _ _ _
        | (apply ih; exact hst _ rfl)
        | (apply ih; intro e he; exact h e he)
        | (apply ih
           intro e he
           rcases List.mem_append.mp he with he | he
           · exact h e he
           · simp only [List.mem_singleton] at he
             rw [he]
             simp_all [allowed])

/-- from the empty state: every event of a restricted run is allow-listed -/
theorem restricted_events_allowed (a : List (Bytes × Bytes)) (fuel : Nat) (bs : Bytes) :
    ∀ e ∈ (pickleRun (some a) fuel bs {}).events, e ∈ a :=
  restricted_unpickle_safe a fuel bs {} (by intro e he; cases he)

theorem readLine_spec (l rest : Bytes) (h : (10 : UInt8) ∉ l) : readLine (l ++ 10 :: rest) = some (l, rest) := by
  induction l with
  | nil => simp [readLine]
  | cons b bs ih =>
    have hb : (b == 10) = false := by
      simp only [beq_eq_false_iff_ne, ne_eq]
      intro hc; exact h (hc ▸ List.mem_cons_self ..)
    simp only [List.cons_append, readLine, hb, Bool.false_eq_true, if_false,
      ih (fun hc => h (List.mem_cons_of_mem _ hc)), Option.map_some]

/-! ### the package's allow-list, regenerated from `replay_unpack/core/safe_pickle.py` -/

/-- the fixed set of plain data classes the format needs: the two fixture classes, and the
containers / object reconstruction helper the pickle format itself refers to by name
(Python 2 spelling as written by the client, and the Python 3 spelling) -/
def dataClasses : List (String × String) :=
  [ ("CamouflageInfo", "CamouflageInfo"), ("PlayerModeDef", "PlayerMode"),
    ("copy_reg", "_reconstructor"), ("copyreg", "_reconstructor"),
    ("__builtin__", "object"), ("builtins", "object"),
    ("__builtin__", "set"), ("builtins", "set"),
    ("__builtin__", "frozenset"), ("builtins", "frozenset"),
    ("collections", "OrderedDict") ]

/-- every entry of the shipped allow-list is one of the plain data classes -/
theorem allowed_globals_fact : Generated.allowedGlobals.all (fun g => dataClasses.contains g) = true := by decide

def asBytes (g : String × String) : Bytes × Bytes := (g.1.toUTF8.toList, g.2.toUTF8.toList)

/-- **Unpickling with the shipped allow-list only ever locates plain data classes**, for every
payload: every `find_class` event is (the byte spelling of) a member of `dataClasses`. -/
theorem package_unpickle_safe (fuel : Nat) (bs : Bytes) :
    ∀ e ∈ (pickleRun (some (Generated.allowedGlobals.map asBytes)) fuel bs {}).events,
      ∃ g ∈ dataClasses, e = asBytes g := by
  intro e he
  have h1 := restricted_events_allowed _ fuel bs e he
  rcases List.mem_map.mp h1 with ⟨g, hg, rfl⟩
  refine ⟨g, ?_, rfl⟩
  have h2 := List.all_eq_true.mp allowed_globals_fact g hg
  simpa using h2

/-- **The unrestricted unpickler locates whatever class the file names** (what the controllers did before
the fix, and what any reintroduced `pickle.loads` does):
for every module and attribute name there is a payload whose only `find_class` event is that
pair. -/
theorem unrestricted_unpickle_counterexample (m n : Bytes) (hm : (10 : UInt8) ∉ m) (hn : (10 : UInt8) ∉ n) :
    pickleRun none 2 (0x63 :: (m ++ 10 :: (n ++ 10 :: [0x2e]))) {} = .stop [(m, n)] := by
  unfold pickleRun
  simp only [readLine_spec m _ hm, readLine_spec n _ hn, allowed]
  unfold pickleRun
  rfl

/-- a protocol-2 pickle of plain data (ints, strings, tuples, lists, dicts) never reaches
`find_class`: example, the roster rows the harness writes -/
example : (pickleRun none 50 [0x80, 2, 0x5d, 0x71, 0, 0x28, 0x4b, 1, 0x55, 2, 0x61, 0x62, 0x86, 0x71, 1, 0x65, 0x2e] {}).events = [] := by
  decide +kernel

/-! ### the version module is the only import a file can steer, and it stays inside the package -/

/-- the module name handed to `import_module` is `.versions.` followed by the joined version
components: relative to the client package, so no top-level module can be named -/
def importName (comps : List String) (n : Nat) : String := ".versions." ++ underscored comps n

theorem import_name_confined (comps : List String) (n : Nat) :
    (importName comps n).toList = ".versions.".toList ++ (underscored comps n).toList := by
  unfold importName
  exact String.toList_append

/-! ### every code-executing / file / process primitive in the package, regenerated from /repo -/

/-- the call sites that exist today: the restricted `safe_pickle.loads` of the version
controllers and the one `Unpickler.load` inside it, the relative import of the version module, the
reads of the replay and of the bundled definition files, the explicitly requested dump,
and two `getattr`s on bundled data (flag names of .def files, log level of the CLI) -/
def allowedSite (s : String × String × String) : Bool :=
  [ ("etree.parse", "_initialize", "replay_unpack/core/entity_def/data_types/__init__.py"),
    ("etree.parse", "_parse", "replay_unpack/core/entity_def/definitions.py"),
    ("etree.parse", "_parse_entities", "replay_unpack/core/entity_def/definitions.py"),
    ("etree.parse", "_parse_implements", "replay_unpack/core/entity_def/base_definition.py"),
    ("getattr-dynamic", "<module>", "replay_parser.py"),
    ("getattr-dynamic", "__init__", "replay_unpack/core/entity_def/base_definition.py"),
    ("getattr-dynamic", "__repr__", "replay_unpack/core/pretty_print_mixin.py"),
    ("importlib.import_module", "get_controller", "replay_unpack/clients/wot/helper.py"),
    ("importlib.import_module", "get_controller", "replay_unpack/clients/wowp/helper.py"),
    ("importlib.import_module", "get_controller", "replay_unpack/clients/wows/helper.py"),
    ("open", "_get_hidden_data", "replay_parser.py"),
    ("open", "_initialize", "replay_unpack/core/entity_def/data_types/__init__.py"),
    ("open", "_save_decrypted_data", "replay_unpack/replay_reader.py"),
    ("open", "get_replay_data", "replay_unpack/replay_reader.py"),
    ("Unpickler.load", "loads", "replay_unpack/core/safe_pickle.py"),
    ("safe_pickle.loads", "onArenaStateReceived", "version"),
    ("safe_pickle.loads", "onNewPlayerSpawnedInBattle", "version"),
    ("safe_pickle.loads", "onPlayerInfoUpdate", "version"),
    ("safe_pickle.loads", "onSetConsumable", "version"),
    ("safe_pickle.loads", "receiveDamageStat", "version") ].contains s

theorem primitive_sites_fact : Generated.primitiveSites.all allowedSite = true := by decide

end ReplayModel.C18
