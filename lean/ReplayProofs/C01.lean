/-
C01 — container decoding is the exact inverse of the replay file format.
-/
import ReplayModel.Container
import ReplayModel.Generated.Facts
import ReplayProofs.Lemmas.Bytes
import ReplayModel.Pipeline
namespace ReplayModel.C01
open ReplayModel

/-! ### the XOR chain -/

theorem xor8_cancel : ∀ (a b : Bytes), a.length = b.length → xor8 (xor8 a b) b = a
  | [], [], _ => rfl
  | x :: a, y :: b, h => by
    simp only [xor8, List.zipWith_cons_cons] at *
    rw [UInt8.xor_assoc, UInt8.xor_self, UInt8.xor_zero]
    have := xor8_cancel a b (by simpa using h)
    simp only [xor8] at this
    rw [this]
  | [], _ :: _, h => by simp at h
  | _ :: _, [], h => by simp at h

theorem xor8_length (a b : Bytes) (h : a.length = b.length) : (xor8 a b).length = a.length := by
  simp [xor8, h]

theorem xor8_zero : ∀ (a b : Bytes), a.length = b.length → isZero b = true → xor8 a b = a
  | [], [], _, _ => rfl
  | x :: a, y :: b, h, hz => by
    simp only [isZero, List.all_cons, Bool.and_eq_true, beq_iff_eq] at hz
    simp only [xor8, List.zipWith_cons_cons, hz.1, UInt8.xor_zero]
    have := xor8_zero a b (by simpa using h) (by simpa [isZero] using hz.2)
    simp only [xor8] at this
    rw [this]
  | [], _ :: _, h, _ => by simp at h
  | _ :: _, [], h, _ => by simp at h

/-- **The chain is inverted exactly**, for every block permutation with `D ∘ E = id` on 8-byte
blocks, any number of blocks (including none), including all-zero plaintext blocks (where
the reader skips the XOR). -/
theorem chain_inverse (E D : Bytes → Bytes) (hD : ∀ b, b.length = 8 → D (E b) = b)
    (blocks : List Bytes) (h8 : ∀ b ∈ blocks, b.length = 8) :
    ∀ (prev : Option Bytes), (∀ q, prev = some q → q.length = 8) →
      unchain prev ((chain E prev blocks).map D) = blocks := by
  induction blocks with
  | nil => intro prev _; rfl
  | cons p ps ih =>
    intro prev hprev
    have hp : p.length = 8 := h8 p (List.mem_cons_self ..)
    simp only [chain, List.map_cons, unchain]
    cases prev with
    | none =>
      simp only
      rw [hD p hp, ih (fun b hb => h8 b (List.mem_cons_of_mem _ hb)) (some p) (by intro q hq; cases hq; exact hp)]
    | some q =>
      have hq : q.length = 8 := hprev q rfl
      simp only
      rw [hD _ (by rw [xor8_length p q (by omega)]; exact hp)]
      have : (if isZero q = true then xor8 p q else xor8 (xor8 p q) q) = p := by
        split
        · rename_i hz; exact xor8_zero p q (by omega) hz
        · exact xor8_cancel p q (by omega)
      rw [this, ih (fun b hb => h8 b (List.mem_cons_of_mem _ hb)) (some p) (by intro q' hq'; cases hq'; exact hp)]

/-! ### chunking -/

theorem chunks8_flatten (blocks : List Bytes) (h8 : ∀ b ∈ blocks, b.length = 8) :
    ∀ fuel, blocks.length < fuel → chunks8 fuel blocks.flatten = blocks := by
  induction blocks with
  | nil => intro fuel hf; cases fuel <;> simp [chunks8]
  | cons b bs ih =>
    intro fuel hf
    cases fuel with
    | zero => simp at hf
    | succ n =>
      have hb : b.length = 8 := h8 b (List.mem_cons_self ..)
      have hne : (b ++ bs.flatten).isEmpty = false := by
        cases b with
        | nil => simp at hb
        | cons x xs => rfl
      simp only [List.flatten_cons, chunks8, hne, Bool.false_eq_true, if_false]
      rw [List.take_append_of_le_length (by omega), List.take_of_length_le (by omega),
        List.drop_append_of_le_length (by omega), List.drop_of_length_le (by omega), List.nil_append,
        ih (fun x hx => h8 x (List.mem_cons_of_mem _ hx)) n (by simp at hf; omega)]

theorem flatten_length8 (blocks : List Bytes) (h8 : ∀ b ∈ blocks, b.length = 8) :
    blocks.flatten.length = 8 * blocks.length := by
  induction blocks with
  | nil => rfl
  | cons b bs ih =>
    simp only [List.flatten_cons, List.length_append, List.length_cons,
      ih (fun x hx => h8 x (List.mem_cons_of_mem _ hx)), h8 b (List.mem_cons_self ..)]
    omega

theorem chain_length8 (E : Bytes → Bytes) (hE : ∀ b, b.length = 8 → (E b).length = 8) (blocks : List Bytes)
    (h8 : ∀ b ∈ blocks, b.length = 8) : ∀ prev, (∀ q, prev = some q → q.length = 8) →
      ∀ c ∈ chain E prev blocks, c.length = 8 := by
  induction blocks with
  | nil => intro prev _ c hc; simp [chain] at hc
  | cons p ps ih =>
    intro prev hprev c hc
    have hp : p.length = 8 := h8 p (List.mem_cons_self ..)
    simp only [chain, List.mem_cons] at hc
    rcases hc with rfl | hc
    · apply hE
      cases prev with
      | none => exact hp
      | some q => simp only; rw [xor8_length p q (by rw [hp, hprev q rfl])]; exact hp
    · exact ih (fun b hb => h8 b (List.mem_cons_of_mem _ hb)) (some p) (by intro q hq; cases hq; exact hp) c hc

theorem chain_count (E : Bytes → Bytes) (blocks : List Bytes) : ∀ prev, (chain E prev blocks).length = blocks.length := by
  induction blocks with
  | nil => intro _; rfl
  | cons p ps ih => intro prev; simp [chain, ih]

/-- **Decryption of the payload area**: an arbitrary 8-byte prefix followed by the chained
blocks decrypts to exactly the concatenation of the plaintext blocks — whatever their
number, so for every stream length once padded to the cipher block. -/
theorem decrypt_inverse (E D : Bytes → Bytes) (hD : ∀ b, b.length = 8 → D (E b) = b)
    (hE : ∀ b, b.length = 8 → (E b).length = 8) (pre : Bytes) (hpre : pre.length = 8)
    (blocks : List Bytes) (h8 : ∀ b ∈ blocks, b.length = 8) :
    decryptData D (pre ++ (chain E none blocks).flatten) = .ok blocks.flatten := by
  unfold decryptData
  have hc8 := chain_length8 E hE blocks h8 none (by intro q hq; cases hq)
  have hall : ∀ b ∈ pre :: chain E none blocks, b.length = 8 := by
    intro b hb
    rcases List.mem_cons.mp hb with rfl | hb
    · exact hpre
    · exact hc8 b hb
  have hch : chunks8 ((pre ++ (chain E none blocks).flatten).length + 1) (pre ++ (chain E none blocks).flatten)
      = pre :: chain E none blocks := by
    have : pre ++ (chain E none blocks).flatten = (pre :: chain E none blocks).flatten := rfl
    rw [this]
    apply chunks8_flatten _ hall
    rw [flatten_length8 _ hall]
    simp only [List.length_cons]; omega
  simp only [hch, List.drop_succ_cons, List.drop_zero]
  have hok : (chain E none blocks).all (fun b => b.length == 8) = true := by
    rw [List.all_eq_true]; intro b hb; simpa using hc8 b hb
  simp only [hok, if_true]
  rw [chain_inverse E D hD blocks h8 none (by intro q hq; cases hq)]

/-! ### the block table -/

def blockOK (b : Option Bytes) : Prop :=
  match b with
  | some d => d ≠ [] ∧ d.length < 2 ^ 31
  | none => True

theorem readIntLE_toLE (n : Nat) (rest : Bytes) (h : n < 2 ^ 31) :
    readIntLE 4 (toLE 4 n ++ rest) = .ok ((n : Int), rest) := by
  unfold readIntLE
  rw [readN_append 4 _ _ (toLE_length 4 n)]
  simp only [bind, Except.bind, pure, Except.pure, leNat_toLE]
  have : n % 256 ^ 4 = n := Nat.mod_eq_of_lt (by omega)
  rw [this]
  unfold toSigned
  have : n < 2 ^ (8 * 4 - 1) := by simpa using h
  simp [this]

/-- every further block comes back in order; an empty block as `None` -/
theorem blocks_roundtrip (extra : List (Option Bytes)) (h : ∀ b ∈ extra, blockOK b) (rest : Bytes) :
    readBlocks extra.length ((extra.map encodeBlock).flatten ++ rest) = .ok (extra, rest) := by
  induction extra with
  | nil => rfl
  | cons b bs ih =>
    have hb := h b (List.mem_cons_self ..)
    have ih' := ih (fun x hx => h x (List.mem_cons_of_mem _ hx))
    simp only [List.length_cons, List.map_cons, List.flatten_cons, readBlocks, List.append_assoc]
    cases b with
    | none =>
      simp only [encodeBlock]
      rw [readIntLE_toLE 0 _ (by decide)]
      simp only [bind, Except.bind, readSigned32]
      have hz : ¬ (((0 : Nat) : Int) < 0) := by omega
      simp only [hz, if_false, Int.toNat_natCast, List.take_zero, List.drop_zero]
      rw [ih']
      rfl
    | some d =>
      simp only [blockOK] at hb
      simp only [encodeBlock, List.append_assoc]
      rw [readIntLE_toLE d.length _ hb.2]
      simp only [bind, Except.bind, readSigned32]
      have hneg : ¬ ((d.length : Int) < 0) := by omega
      simp only [hneg, if_false, Int.toNat_natCast]
      rw [List.take_append_of_le_length (Nat.le_refl _), List.take_of_length_le (Nat.le_refl _),
        List.drop_append_of_le_length (Nat.le_refl _), List.drop_of_length_le (Nat.le_refl _), List.nil_append, ih']
      have : d.isEmpty = false := by cases d <;> simp_all
      simp [this, pure, Except.pure]

/-! ### the whole file -/

/-- **Reading inverts writing.** For every block permutation `(E, D)` with `D ∘ E = id`, every
`inflate` that inverts the compressor on the padded data, every open-info block, every list
of further blocks (empty ones as `None`), every 8-byte prefix and every list of plaintext
blocks: reading the written file returns the game of the extension, exactly the first block,
every further block in order and exactly the original stream. -/
theorem read_write (E D : Bytes → Bytes) (inflate : Bytes → Option Bytes) (ext : String) (game : GameId)
    (engine : Bytes) (extra : List (Option Bytes)) (pre : Bytes) (blocks : List Bytes) (stream : Bytes)
    (hext : gameOfExt ext = some game)
    (hD : ∀ b, b.length = 8 → D (E b) = b) (hE : ∀ b, b.length = 8 → (E b).length = 8)
    (hinf : inflate blocks.flatten = some stream)
    (heng : engine.length < 2 ^ 31) (hcount : extra.length + 1 < 2 ^ 31) (hx : ∀ b ∈ extra, blockOK b)
    (hpre : pre.length = 8) (h8 : ∀ b ∈ blocks, b.length = 8) :
    readContainer D inflate ext (writeContainer E engine extra pre blocks) =
      .ok ⟨game, engine, extra, stream⟩ := by
  unfold readContainer writeContainer
  simp only [hext]
  have hm : (magic ++ toLE 4 (1 + extra.length) ++ (toLE 4 engine.length ++ engine) ++
      (extra.map encodeBlock).flatten ++ pre ++ (chain E none blocks).flatten).take 4 = magic := by
    simp only [List.append_assoc]
    rw [List.take_append_of_le_length (by simp [magic])]
    rfl
  have hd : (magic ++ toLE 4 (1 + extra.length) ++ (toLE 4 engine.length ++ engine) ++
      (extra.map encodeBlock).flatten ++ pre ++ (chain E none blocks).flatten).drop 4 =
      toLE 4 (1 + extra.length) ++ ((toLE 4 engine.length ++ (engine ++
      ((extra.map encodeBlock).flatten ++ (pre ++ (chain E none blocks).flatten))))) := by
    simp only [List.append_assoc]
    rw [List.drop_append_of_le_length (by simp [magic])]
    rfl
  rw [hm, hd]
  simp only [bne_self_eq_false, Bool.false_eq_true, if_false]
  rw [readIntLE_toLE _ _ (by omega)]
  simp only [bind, Except.bind]
  rw [readIntLE_toLE _ _ heng]
  simp only [readSigned32]
  have hneg : ¬ ((engine.length : Int) < 0) := by omega
  simp only [hneg, if_false, Int.toNat_natCast]
  rw [List.take_append_of_le_length (Nat.le_refl _), List.take_of_length_le (Nat.le_refl _),
    List.drop_append_of_le_length (Nat.le_refl _), List.drop_of_length_le (Nat.le_refl _), List.nil_append]
  have hc : (((1 + extra.length : Nat) : Int) - 1).toNat = extra.length := by omega
  rw [hc, blocks_roundtrip extra hx]
  simp only
  rw [decrypt_inverse E D hD hE pre hpre blocks h8]
  simp only [hinf]
  rfl

/-- a wrong magic number is rejected with `ValueError`, whatever follows it -/
theorem bad_magic_rejected (D : Bytes → Bytes) (inflate : Bytes → Option Bytes) (ext : String) (file : Bytes)
    (h : file.take 4 ≠ magic) : readContainer D inflate ext file = .error .value := by
  unfold readContainer
  cases gameOfExt ext with
  | none => rfl
  | some g =>
    have : (file.take 4 != magic) = true := by simpa using h
    simp [this]

/-- an unknown extension is rejected with `ValueError` without looking at the file -/
theorem bad_extension_rejected (D : Bytes → Bytes) (inflate : Bytes → Option Bytes) (ext : String)
    (h : gameOfExt ext = none) : ∀ file, readContainer D inflate ext file = .error .value := by
  intro file; unfold readContainer; simp [h]

/-! ### facts regenerated from /repo -/

theorem magic_fact : Generated.magic = magic.map (·.toNat) := by decide

theorem extensions_fact :
    ∀ e ∈ Generated.extensions, (gameOfExt e).isSome = true := by decide

/-- the three keys are the ones the format documents (one per extension) -/
theorem keys_fact : Generated.keys = [
    ("wotreplay", [222, 114, 190, 160, 222, 4, 190, 177, 222, 254, 190, 239, 222, 173, 190, 239]),
    ("wowpreplay", [222, 114, 190, 239, 222, 173, 190, 239, 222, 173, 190, 239, 222, 173, 190, 239]),
    ("wowsreplay", [41, 183, 201, 9, 56, 63, 132, 136, 250, 152, 236, 78, 19, 25, 121, 251])] := by decide

/-- Non-vacuity of `read_write`'s hypotheses: the identity permutation and two blocks, the
second all zero (the XOR-skipping case). -/
example : decryptData id ([9, 9, 9, 9, 9, 9, 9, 9] ++ (chain id none [[1, 2, 3, 4, 5, 6, 7, 8], [0, 0, 0, 0, 0, 0, 0, 0],
    [5, 5, 5, 5, 5, 5, 5, 5]]).flatten) = .ok [1, 2, 3, 4, 5, 6, 7, 8, 0, 0, 0, 0, 0, 0, 0, 0, 5, 5, 5, 5, 5, 5, 5, 5] := by
  rfl

/-! ### the optional raw dump -/

/-- **The raw dump is exactly the decoded stream**, for every written file whose version resolves —
whatever the stream contains (it is not played before the dump is written), in either mode. -/
theorem rawDump_written (env : Env) (E : Bytes → Bytes) (ext : String) (game : GameId)
    (engine : Bytes) (extra : List (Option Bytes)) (pre : Bytes) (blocks : List Bytes) (stream : Bytes)
    (vs : String) (sel : Selection)
    (hext : gameOfExt ext = some game)
    (hD : ∀ b, b.length = 8 → env.D (E b) = b) (hE : ∀ b, b.length = 8 → (E b).length = 8)
    (hinf : env.inflate blocks.flatten = some stream)
    (heng : engine.length < 2 ^ 31) (hcount : extra.length + 1 < 2 ^ 31) (hx : ∀ b ∈ extra, blockOK b)
    (hpre : pre.length = 8) (h8 : ∀ b ∈ blocks, b.length = 8)
    (hv : env.versionOf game engine = some vs) (hs : selectVersion env.bundled game vs = .ok sel) :
    rawDump env ext (writeContainer E engine extra pre blocks) = some stream := by
  have hr := read_write E env.D env.inflate ext game engine extra pre blocks stream hext hD hE hinf heng hcount hx hpre h8
  unfold rawDump
  simp only [hr, hv, hs]

end ReplayModel.C01
