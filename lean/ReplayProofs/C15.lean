/-
C15 — damaged input never hangs or crashes the parser (the part that is logic).

Every loop of the model is a recursion on bytes actually present: framing consumes ≥ 12
bytes per packet (`C02.parse_bound`), value decoding consumes at least `minBytes t` bytes per
successful value, so the element loop of nested slices — the one loop of the real code that
could spin — makes progress whenever the element type cannot be empty (`NoZeroWidth`, which
the harness evaluates on every bundled definition set). Lenient play never raises out of the
packet loop (`C12.lenient_no_raise`). Wall time, memory and the zlib / pickle cost are
measured by the harness, not proved (partial).
-/
import ReplayModel.World
import ReplayModel.Play
import ReplayProofs.Lemmas.Codec
import ReplayProofs.C02
import ReplayProofs.C12
namespace ReplayModel.C15
open ReplayModel

/-- the element type of a list can never decode from zero bytes -/
def NoZeroWidth (t : Ty) : Prop := 1 ≤ minBytes t

theorem readUIntLE_len (k : Nat) (bs rest : Bytes) (n : Nat) (h : readUIntLE k bs = .ok (n, rest)) :
    rest.length + k = bs.length := by
  unfold readUIntLE readN at h
  split at h
  · simp [bind, Except.bind] at h
  · simp only [bind, Except.bind, pure, Except.pure, Except.ok.injEq, Prod.mk.injEq] at h
    rw [← h.2, List.length_drop]; omega

theorem readPackedLen_len (bs rest : Bytes) (n : Nat) (h : readPackedLen bs = .ok (n, rest)) :
    rest.length + 1 ≤ bs.length := by
  unfold readPackedLen at h
  cases h1 : readUIntLE 1 bs with
  | error e => simp [h1, bind, Except.bind] at h
  | ok p =>
    obtain ⟨m, r⟩ := p
    have l1 := readUIntLE_len 1 bs r m h1
    simp only [h1, bind, Except.bind] at h
    split at h
    · have l2 := readUIntLE_len 3 r rest n h; omega
    · simp only [pure, Except.pure, Except.ok.injEq, Prod.mk.injEq] at h; rw [← h.2]; omega

theorem readF32s_len (n : Nat) : ∀ (bs rest : Bytes) (xs : List Nat), readF32s n bs = .ok (xs, rest) →
    rest.length + 4 * n = bs.length := by
  induction n with
  | zero => intro bs rest xs h; simp [readF32s] at h; rw [h.2]; omega
  | succ n ih =>
    intro bs rest xs h
    simp only [readF32s] at h
    cases h1 : readUIntLE 4 bs with
    | error e => simp [h1, bind, Except.bind] at h
    | ok p =>
      obtain ⟨x, r⟩ := p
      have l1 := readUIntLE_len 4 bs r x h1
      simp only [h1, bind, Except.bind] at h
      cases h2 : readF32s n r with
      | error e => simp [h2] at h
      | ok q =>
        obtain ⟨ys, r'⟩ := q
        have l2 := ih r r' ys h2
        simp only [h2, pure, Except.pure, Except.ok.injEq, Prod.mk.injEq] at h
        rw [← h.2]; omega

theorem repeatRd_len (f : Bytes → Except Err (Val × Bytes)) (m : Nat)
    (hf : ∀ bs v rest, f bs = .ok (v, rest) → rest.length + m ≤ bs.length) (n : Nat) :
    ∀ (bs rest : Bytes) (vs : List Val), repeatRd f n bs = .ok (vs, rest) → rest.length + n * m ≤ bs.length := by
  induction n with
  | zero => intro bs rest vs h; simp [repeatRd] at h; rw [h.2]; omega
  | succ n ih =>
    intro bs rest vs h
    simp only [repeatRd] at h
    cases h1 : f bs with
    | error e => simp [h1, bind, Except.bind] at h
    | ok p =>
      obtain ⟨v, r⟩ := p
      have l1 := hf bs v r h1
      simp only [h1, bind, Except.bind] at h
      cases h2 : repeatRd f n r with
      | error e => simp [h2] at h
      | ok q =>
        obtain ⟨ws, r'⟩ := q
        have l2 := ih r r' ws h2
        simp only [h2, pure, Except.pure, Except.ok.injEq, Prod.mk.injEq] at h
        rw [← h.2, Nat.succ_mul]; omega

/-- **Progress**: a successful decode of `t` consumes at least `minBytes t` bytes and never
more than are there — for every type tree and every byte string, well-formed or not. -/
theorem decode_consumes (h : Nat) (t : Ty) : ∀ (bs rest : Bytes) (v : Val),
    decode h t bs = .ok (v, rest) → rest.length + minBytes t ≤ bs.length := by
  induction t using Ty.ind with
  | int k s =>
    intro bs rest v hd
    simp only [decode] at hd
    cases h1 : readUIntLE k bs with
    | error e => simp [h1, bind, Except.bind] at hd
    | ok p =>
      obtain ⟨n, r⟩ := p
      have := readUIntLE_len k bs r n h1
      simp only [h1, bind, Except.bind, pure, Except.pure, Except.ok.injEq, Prod.mk.injEq] at hd
      rw [← hd.2]; simp only [minBytes]; omega
  | f32 =>
    intro bs rest v hd
    simp only [decode] at hd
    cases h1 : readUIntLE 4 bs with
    | error e => simp [h1, bind, Except.bind] at hd
    | ok p =>
      obtain ⟨n, r⟩ := p
      have := readUIntLE_len 4 bs r n h1
      simp only [h1, bind, Except.bind, pure, Except.pure, Except.ok.injEq, Prod.mk.injEq] at hd
      rw [← hd.2]; simp only [minBytes]; omega
  | f64 =>
    intro bs rest v hd
    simp only [decode] at hd
    cases h1 : readUIntLE 8 bs with
    | error e => simp [h1, bind, Except.bind] at hd
    | ok p =>
      obtain ⟨n, r⟩ := p
      have := readUIntLE_len 8 bs r n h1
      simp only [h1, bind, Except.bind, pure, Except.pure, Except.ok.injEq, Prod.mk.injEq] at hd
      rw [← hd.2]; simp only [minBytes]; omega
  | vec n =>
    intro bs rest v hd
    simp only [decode] at hd
    split at hd
    · cases hd
    · cases h1 : readF32s n bs with
      | error e => simp [h1, bind, Except.bind] at hd
      | ok p =>
        obtain ⟨xs, r⟩ := p
        have := readF32s_len n bs r xs h1
        simp only [h1, bind, Except.bind, pure, Except.pure, Except.ok.injEq, Prod.mk.injEq] at hd
        rw [← hd.2]; simp only [minBytes]; omega
  | blob =>
    intro bs rest v hd
    simp only [decode] at hd
    cases h1 : readPackedLen bs with
    | error e => simp [h1, bind, Except.bind] at hd
    | ok p =>
      obtain ⟨n, r⟩ := p
      have := readPackedLen_len bs r n h1
      simp only [h1, bind, Except.bind] at hd
      split at hd
      · cases hd
      · simp only [pure, Except.pure, Except.ok.injEq, Prod.mk.injEq] at hd
        rw [← hd.2, List.length_drop]; simp only [minBytes]; omega
  | string =>
    intro bs rest v hd
    simp only [decode] at hd
    cases h1 : readPackedLen bs with
    | error e => simp [h1, bind, Except.bind] at hd
    | ok p =>
      obtain ⟨n, r⟩ := p
      have := readPackedLen_len bs r n h1
      simp only [h1, bind, Except.bind, pure, Except.pure, Except.ok.injEq, Prod.mk.injEq] at hd
      rw [← hd.2, List.length_drop]; simp only [minBytes]; omega
  | python =>
    intro bs rest v hd
    simp only [decode] at hd
    cases h1 : readPackedLen bs with
    | error e => simp [h1, bind, Except.bind] at hd
    | ok p =>
      obtain ⟨n, r⟩ := p
      have := readPackedLen_len bs r n h1
      simp only [h1, bind, Except.bind, pure, Except.pure, Except.ok.injEq, Prod.mk.injEq] at hd
      rw [← hd.2, List.length_drop]; simp only [minBytes]; omega
  | mailbox =>
    intro bs rest v hd
    simp only [decode] at hd
    split at hd
    · cases hd
    · unfold readN at hd
      split at hd
      · simp [bind, Except.bind] at hd
      · rename_i h4 h2
        simp only [bind, Except.bind, pure, Except.pure, Except.ok.injEq, Prod.mk.injEq] at hd
        rw [← hd.2]
        simp only [List.length_drop, minBytes] at *
        omega
  | array e sz ih =>
    intro bs rest v hd
    cases sz with
    | some n =>
      simp only [decode] at hd
      cases h1 : repeatRd (decode h e) n bs with
      | error er => simp [h1, bind, Except.bind] at hd
      | ok p =>
        obtain ⟨vs, r⟩ := p
        have := repeatRd_len (decode h e) (minBytes e) (fun b v r hh => ih b r v hh) n bs r vs h1
        simp only [h1, bind, Except.bind, pure, Except.pure, Except.ok.injEq, Prod.mk.injEq] at hd
        rw [← hd.2]; simp only [minBytes]; exact this
    | none =>
      simp only [decode] at hd
      cases h0 : readUIntLE 1 bs with
      | error er => simp [h0, bind, Except.bind] at hd
      | ok p0 =>
        obtain ⟨n, r0⟩ := p0
        have l0 := readUIntLE_len 1 bs r0 n h0
        simp only [h0, bind, Except.bind] at hd
        cases h1 : repeatRd (decode h e) n r0 with
        | error er => simp [h1] at hd
        | ok p =>
          obtain ⟨vs, r⟩ := p
          have := repeatRd_len (decode h e) (minBytes e) (fun b v r hh => ih b r v hh) n r0 r vs h1
          simp only [h1, pure, Except.pure, Except.ok.injEq, Prod.mk.injEq] at hd
          rw [← hd.2]; simp only [minBytes]; omega
  | fixedDict fs an ih =>
    intro bs rest v hd
    have key : ∀ (bs rest : Bytes) (vs : List (String × Val)), decodeFields h fs bs = .ok (vs, rest) →
        rest.length + minBytesFields fs ≤ bs.length := by
      clear hd
      induction fs with
      | nil => intro bs rest vs hh; simp [decodeFields] at hh; rw [hh.2]; simp [minBytesFields]
      | cons f fs ihf =>
        obtain ⟨k, t⟩ := f
        intro bs rest vs hh
        simp only [decodeFields] at hh
        cases h1 : decode h t bs with
        | error er => simp [h1, bind, Except.bind] at hh
        | ok p =>
          obtain ⟨v1, r1⟩ := p
          have l1 := ih (k, t) (List.mem_cons_self ..) bs r1 v1 h1
          simp only [h1, bind, Except.bind] at hh
          cases h2 : decodeFields h fs r1 with
          | error er => simp [h2] at hh
          | ok q =>
            obtain ⟨ws, r2⟩ := q
            have l2 := ihf (fun p hp => ih p (List.mem_cons_of_mem _ hp)) r1 r2 ws h2
            simp only [h2, pure, Except.pure, Except.ok.injEq, Prod.mk.injEq] at hh
            rw [← hh.2]; simp only [minBytesFields] at *; omega
    simp only [decode] at hd
    cases an with
    | false =>
      simp only [Bool.false_eq_true, if_false] at hd
      cases h1 : decodeFields h fs bs with
      | error er => simp [h1, bind, Except.bind] at hd
      | ok p =>
        obtain ⟨vs, r⟩ := p
        have := key bs r vs h1
        simp only [h1, bind, Except.bind, pure, Except.pure, Except.ok.injEq, Prod.mk.injEq] at hd
        rw [← hd.2]; simp only [minBytes, Bool.false_eq_true, if_false]; exact this
    | true =>
      simp only [if_true] at hd
      simp only [minBytes, if_true]
      split at hd
      · simp only [Except.ok.injEq, Prod.mk.injEq] at hd; rw [← hd.2]; simp only [List.length_cons]; omega
      · rename_i r
        cases h1 : decodeFields h fs r with
        | error er => simp [h1, bind, Except.bind] at hd
        | ok p =>
          obtain ⟨vs, r'⟩ := p
          have := key r r' vs h1
          simp only [h1, bind, Except.bind, pure, Except.pure, Except.ok.injEq, Prod.mk.injEq] at hd
          rw [← hd.2]; simp only [List.length_cons]; omega
      · cases h1 : decodeFields h fs bs with
        | error er => simp [h1, bind, Except.bind] at hd
        | ok p =>
          obtain ⟨vs, r'⟩ := p
          have := key bs r' vs h1
          simp only [h1, bind, Except.bind, pure, Except.pure, Except.ok.injEq, Prod.mk.injEq] at hd
          rw [← hd.2]; omega
  | userType t ih =>
    intro bs rest v hd
    simp only [decode] at hd
    simp only [minBytes]
    split at hd
    · exact ih bs rest v hd
    · have := ih (bs.drop h) rest v hd
      simp only [List.length_drop] at this
      omega

/-- **The nested element loop terminates**: with an element type that cannot be empty the
loop never reports lack of progress, for every byte string. -/
theorem nested_loop_terminates (t : Ty) (hz : NoZeroWidth t) : ∀ (fuel : Nat) (bs : Bytes), bs.length < fuel →
    decodeAll t fuel bs ≠ .error (.inr ()) := by
  intro fuel
  induction fuel with
  | zero => intro bs h; omega
  | succ n ih =>
    intro bs hlen
    unfold decodeAll
    split
    · simp
    · cases hd : decode 1 t bs with
      | error e => simp
      | ok p =>
        obtain ⟨v, rest⟩ := p
        have hc := decode_consumes 1 t bs rest v hd
        unfold NoZeroWidth at hz
        have hne : ¬ rest.length = bs.length := by omega
        simp only [hne, if_false]
        have := ih rest (by omega)
        cases hr : decodeAll t n rest with
        | error e =>
          cases e with
          | inl er => simp [bind, Except.bind]
          | inr u => exact absurd hr this
        | ok vs => simp [bind, Except.bind, pure, Except.pure]

/-- the number of elements the loop produces is bounded by the bytes present -/
theorem decodeAll_bound (t : Ty) (hz : NoZeroWidth t) : ∀ (fuel : Nat) (bs : Bytes) (vs : List Val),
    decodeAll t fuel bs = .ok vs → vs.length ≤ bs.length := by
  intro fuel
  induction fuel with
  | zero => intro bs vs h; simp [decodeAll] at h
  | succ n ih =>
    intro bs vs h
    unfold decodeAll at h
    split at h
    · simp only [Except.ok.injEq] at h; rw [← h]; simp
    · cases hd : decode 1 t bs with
      | error e => simp [hd] at h
      | ok p =>
        obtain ⟨v, rest⟩ := p
        have hc := decode_consumes 1 t bs rest v hd
        unfold NoZeroWidth at hz
        simp only [hd] at h
        split at h
        · cases h
        · cases hr : decodeAll t n rest with
          | error e => simp [hr, bind, Except.bind] at h
          | ok ws =>
            have := ih rest ws hr
            simp only [hr, bind, Except.bind, pure, Except.pure, Except.ok.injEq] at h
            rw [← h]; simp only [List.length_cons]; omega

/-- framing work is linear in the stream (`C02.parse_bound`) -/
theorem framing_linear (bs : Bytes) : 12 * (parsePackets bs).1.length ≤ bs.length := C02.parse_bound bs

/-- with the container intact, lenient play ends normally or with the short-header error of
a truncated stream — never with an exception of a packet handler -/
theorem lenient_total (jsonOk : Bytes → Bool) (cfg : Config) (w : World) (stream : Bytes) :
    (play jsonOk cfg false w stream).ending = .finished ∨ (play jsonOk cfg false w stream).ending = .headerShort :=
  C12.lenient_total jsonOk cfg w stream

/-- Non-vacuity: the types of the bundled sets are of this kind, e.g. an array of dicts. -/
example : NoZeroWidth (.fixedDict [("id", .int 1 false), ("n", .array (.int 2 true) none)] false) := by
  unfold NoZeroWidth; decide +kernel

/-- … and the hypothesis is needed: a zero-width element type makes the real loop spin -/
theorem zero_width_counterexample : decodeAll (.array (.int 1 false) (some 0)) 5 [1, 2] = .error (.inr ()) := by
  rfl

end ReplayModel.C15
