/-
C04 — numeric ids on the wire resolve to the right definition members.
-/
import ReplayModel.Defs
import ReplayModel.Generated.Facts
namespace ReplayModel.C04
open ReplayModel

/-! ### Entity ids -/

/-- an entity type id denotes the 1-based position in the entities list; 0, negative ids
and ids past the end are refused -/
theorem entity_index (d : Defs) (k : Int) (e : EntityDef) :
    d.byIndex k = .ok e ↔ 1 ≤ k ∧ d.entities[(k - 1).toNat]? = some e := by
  unfold Defs.byIndex
  by_cases hk : 1 ≤ k
  · simp only [hk, if_true, true_and]
    cases h : d.entities[(k - 1).toNat]? <;> simp
  · simp [hk]

theorem entity_index_nat (d : Defs) (n : Nat) (e : EntityDef) (h : d.entities[n]? = some e) :
    d.byIndex ((n : Int) + 1) = .ok e := by
  rw [entity_index]
  refine ⟨by omega, ?_⟩
  have : ((n : Int) + 1 - 1).toNat = n := by omega
  rw [this, h]

/-! ### Methods: first definition of a name wins, declaration order otherwise -/

/-- specification: an entry is kept iff no earlier entry (nor anything in `seen`) has its
name; kept entries stay in order -/
def keepFirstAux (seen : List String) : List MethodDef → List MethodDef
  | [] => []
  | m :: ms => if seen.contains m.name then keepFirstAux seen ms else m :: keepFirstAux (m.name :: seen) ms

def keepFirst (ms : List MethodDef) : List MethodDef := keepFirstAux [] ms

theorem keepFirstAux_congr (s1 s2 : List String) (h : ∀ x, x ∈ s1 ↔ x ∈ s2) (l : List MethodDef) :
    keepFirstAux s1 l = keepFirstAux s2 l := by
  induction l generalizing s1 s2 with
  | nil => rfl
  | cons m ms ih =>
    simp only [keepFirstAux, List.contains_iff_mem, h m.name]
    split
    · exact ih s1 s2 h
    · rw [ih (m.name :: s1) (m.name :: s2) (by intro x; simp [h x])]

/-- **First wins, declaration order.** Folding a section's methods into the list built so
far keeps that list as a prefix (earlier definitions keep position and content) and
appends, in order, exactly the methods whose name has not been seen before. -/
theorem methods_first_wins (acc new : List MethodDef) :
    mergeFirstWins acc new = acc ++ keepFirstAux (acc.map (·.name)) new := by
  unfold mergeFirstWins
  induction new generalizing acc with
  | nil => simp [keepFirstAux]
  | cons m new ih =>
    simp only [List.foldl_cons, keepFirstAux]
    have hc : acc.any (·.name == m.name) = (acc.map (·.name)).contains m.name := by
      rw [Bool.eq_iff_iff]
      simp only [List.any_eq_true, beq_iff_eq, List.contains_iff_mem, List.mem_map]
    rw [hc]
    split
    · exact ih acc
    · rw [ih (acc ++ [m])]
      simp only [List.append_assoc, List.cons_append, List.nil_append, List.map_append, List.map_cons,
        List.map_nil]
      rw [keepFirstAux_congr (acc.map (·.name) ++ [m.name]) (m.name :: acc.map (·.name))
        (by intro x; simp [or_comm])]

/-- from an empty table: the method list is `keepFirst` of everything parsed, in order -/
theorem methods_order (new : List MethodDef) : mergeFirstWins [] new = keepFirst new := by
  rw [methods_first_wins]; rfl

/-- the kept definition of a name is the first one -/
theorem keepFirstAux_find (seen : List String) (l : List MethodDef) (n : String) (h : n ∉ seen) :
    (keepFirstAux seen l).find? (·.name == n) = l.find? (·.name == n) := by
  induction l generalizing seen with
  | nil => rfl
  | cons m ms ih =>
    simp only [keepFirstAux, List.contains_iff_mem]
    by_cases hm : m.name = n
    · subst hm
      simp [h]
    · split
      · simp only [List.find?_cons]
        have : (m.name == n) = false := by simpa using hm
        rw [this]; exact ih seen h
      · simp only [List.find?_cons]
        have : (m.name == n) = false := by simpa using hm
        rw [this]
        exact ih (m.name :: seen) (by simp [h]; exact fun hc => hm hc.symm)

theorem first_definition_kept (l : List MethodDef) (n : String) :
    (keepFirst l).find? (·.name == n) = l.find? (·.name == n) :=
  keepFirstAux_find [] l n (by simp)

/-! ### Properties: a redefinition replaces the earlier one and takes the later position -/

/-- specification: an entry survives iff no later entry has its name; order preserved -/
def keepLast : List PropDef → List PropDef
  | [] => []
  | p :: ps => if ps.any (·.name == p.name) then keepLast ps else p :: keepLast ps

def notIn (b : List PropDef) (x : PropDef) : Bool := !(b.any (·.name == x.name))

theorem keepLast_append (a b : List PropDef) :
    keepLast (a ++ b) = (keepLast a).filter (notIn b) ++ keepLast b := by
  induction a with
  | nil => simp [keepLast]
  | cons x a ih =>
    simp only [List.cons_append, keepLast, List.any_append]
    by_cases h1 : a.any (·.name == x.name) = true
    · simp [h1, ih]
    · simp only [Bool.not_eq_true] at h1
      simp only [h1, Bool.false_or, Bool.false_eq_true, if_false]
      by_cases h2 : b.any (·.name == x.name) = true
      · simp [h2, ih, notIn]
      · simp only [Bool.not_eq_true] at h2
        simp [h2, ih, notIn]

theorem keepLast_of_nodup (l : List PropDef) (h : (l.map (·.name)).Nodup) : keepLast l = l := by
  induction l with
  | nil => rfl
  | cons p ps ih =>
    simp only [List.map_cons, List.nodup_cons] at h
    have : ps.any (·.name == p.name) = false := by
      rw [Bool.eq_false_iff]
      intro hc
      simp only [List.any_eq_true, beq_iff_eq] at hc
      obtain ⟨x, hx, hxn⟩ := hc
      exact h.1 (List.mem_map.mpr ⟨x, hx, hxn⟩)
    simp [keepLast, this, ih h.2]

theorem keepLast_nodup (l : List PropDef) : ((keepLast l).map (·.name)).Nodup := by
  induction l with
  | nil => simp [keepLast]
  | cons p ps ih =>
    simp only [keepLast]
    split
    · exact ih
    · rename_i hc
      simp only [List.map_cons, List.nodup_cons]
      refine ⟨?_, ih⟩
      intro hm
      apply hc
      obtain ⟨x, hx, hxn⟩ := List.mem_map.mp hm
      have hsub : ∀ (l : List PropDef) (x : PropDef), x ∈ keepLast l → x ∈ l := by
        intro l
        induction l with
        | nil => intro x hx; simp [keepLast] at hx
        | cons q qs ihq =>
          intro x hx
          simp only [keepLast] at hx
          split at hx
          · exact List.mem_cons_of_mem _ (ihq x hx)
          · rcases List.mem_cons.mp hx with rfl | hx
            · exact List.mem_cons_self ..
            · exact List.mem_cons_of_mem _ (ihq x hx)
      simp only [List.any_eq_true, beq_iff_eq]
      exact ⟨x, hsub ps x hx, hxn⟩

/-- **Last wins, later position.** Folding a section's properties into the table built so
far gives exactly `keepLast` of the concatenation: a redefined name disappears from its old
position and the new definition sits where it was declared last. -/
theorem props_last_wins (acc new : List PropDef) (h : (acc.map (·.name)).Nodup) :
    mergeLastWins acc new = keepLast (acc ++ new) := by
  unfold mergeLastWins
  induction new generalizing acc with
  | nil => simp [keepLast_of_nodup acc h]
  | cons p ps ih =>
    simp only [List.foldl_cons]
    have hf : ((acc.filter (·.name != p.name)).map (·.name)).Nodup :=
      List.Nodup.sublist (List.Sublist.map _ List.filter_sublist) h
    have hnd : ((acc.filter (·.name != p.name) ++ [p]).map (·.name)).Nodup := by
      simp only [List.map_append, List.map_cons, List.map_nil]
      rw [List.nodup_append]
      refine ⟨hf, by simp, ?_⟩
      intro a ha b hb
      simp only [List.mem_singleton] at hb
      subst hb
      obtain ⟨x, hx, hxa⟩ := List.mem_map.mp ha
      simp only [List.mem_filter, bne_iff_ne, ne_eq] at hx
      rw [← hxa]; exact hx.2
    rw [ih _ hnd]
    rw [keepLast_append, keepLast_append acc (p :: ps), keepLast_of_nodup _ hnd, keepLast_of_nodup acc h]
    simp only [List.filter_append, List.filter_filter, List.append_assoc]
    congr 1
    · apply List.filter_congr
      intro x _
      simp only [notIn, List.any_cons, Bool.not_or, bne, Bool.and_comm]
      cases hx : (x.name == p.name) <;> simp [BEq.comm]
      · intro _ hc; simp [hc] at hx
      · intro hc; simp at hx; exact absurd hx.symm hc
    · simp only [keepLast, List.filter_cons, List.filter_nil, notIn]
      by_cases hc : ps.any (·.name == p.name) = true
      · simp [hc]
      · simp only [Bool.not_eq_true] at hc
        simp [hc]

/-! ### The exposed index: stable order by wire size -/

section sort
variable {α : Type} (key : α → Nat)

theorem le_trans_key (a b c : α) : (decide (key a ≤ key b)) = true → (decide (key b ≤ key c)) = true →
    (decide (key a ≤ key c)) = true := by
  simp only [decide_eq_true_eq]; omega

theorem le_total_key (a b : α) : (decide (key a ≤ key b) || decide (key b ≤ key a)) = true := by
  simp only [Bool.or_eq_true, decide_eq_true_eq]; omega

/-- the exposed list is a permutation of the filtered list (nothing lost, nothing added) -/
theorem exposed_perm (l : List α) : (stableSortBy key l).Perm l :=
  List.mergeSort_perm l _

/-- it is non-decreasing in wire size -/
theorem exposed_sorted (l : List α) : (stableSortBy key l).Pairwise (fun a b => key a ≤ key b) := by
  have := List.pairwise_mergeSort (le := fun a b => decide (key a ≤ key b)) (le_trans_key key) (le_total_key key) l
  exact this.imp (by intro a b h; simpa using h)

/-- members of equal size keep their declaration order (stability): more generally every
size-sorted sublist of the declaration list is still a sublist of the exposed list -/
theorem exposed_stable (l c : List α) (hc : c.Pairwise (fun a b => key a ≤ key b)) (h : c.Sublist l) :
    c.Sublist (stableSortBy key l) :=
  List.sublist_mergeSort (le := fun a b => decide (key a ≤ key b)) (le_trans_key key) (le_total_key key)
    (hc.imp (by intro a b h; simpa using h)) h

theorem exposed_stable_pair (l : List α) (a b : α) (hab : key a = key b) (h : [a, b].Sublist l) :
    [a, b].Sublist (stableSortBy key l) :=
  exposed_stable key l [a, b] (by simp [hab]) h

/-- an already size-sorted declaration list is its own exposed list -/
theorem exposed_of_sorted (l : List α) (h : l.Pairwise (fun a b => key a ≤ key b)) :
    stableSortBy key l = l :=
  List.mergeSort_of_pairwise (le := fun a b => decide (key a ≤ key b)) (h.imp (by intro a b h; simpa using h))

end sort

/-- the size of a method whose arguments are all fixed-size -/
def isFixed (m : MethodDef) : Bool := decide ((m.args.map (·.2.sizeInBytes)).sum < INFINITY)

/-- `WFDefs` for a method list: fixed sizes plus header stay below `INFINITY` -/
def wfMethods (ms : List MethodDef) : Prop :=
  ∀ m ∈ ms, isFixed m = true → (m.args.map (·.2.sizeInBytes)).sum + m.header < INFINITY

/-- **Every variable-size method comes after every fixed-size one** in the exposed list. -/
theorem variable_after_fixed (ms : List MethodDef) (hwf : wfMethods ms) :
    ∀ (i j : Nat) (a b : MethodDef), (exposedMethods ms)[i]? = some a → (exposedMethods ms)[j]? = some b →
      isFixed a = false → isFixed b = true → j < i := by
  intro i j a b hi hj ha hb
  have hsorted := exposed_sorted MethodDef.size (ms.filter (·.exposed))
  have hmemb : b ∈ ms := by
    have : b ∈ exposedMethods ms := List.mem_of_getElem? hj
    have := (exposed_perm MethodDef.size (ms.filter (·.exposed))).mem_iff.mp this
    exact (List.mem_filter.mp this).1
  have hbs : b.size < INFINITY := by
    have := hwf b hmemb hb
    unfold isFixed at hb
    simp only [decide_eq_true_eq] at hb
    unfold MethodDef.size
    simp only [ge_iff_le]
    rw [if_neg (by omega)]
    exact this
  have has : INFINITY ≤ a.size := by
    unfold isFixed at ha
    simp only [decide_eq_false_iff_not, Nat.not_lt] at ha
    unfold MethodDef.size
    simp only [ge_iff_le]
    rw [if_pos ha]
    omega
  rcases Nat.lt_trichotomy j i with h | h | h
  · exact h
  · subst h
    rw [hi] at hj
    cases hj
    rw [ha] at hb; cases hb
  · exfalso
    have := List.pairwise_iff_getElem.mp hsorted i j
      (by have := (List.getElem?_eq_some_iff.mp hi).1; exact this)
      (by have := (List.getElem?_eq_some_iff.mp hj).1; exact this) h
    have e1 := (List.getElem?_eq_some_iff.mp hi).2
    have e2 := (List.getElem?_eq_some_iff.mp hj).2
    unfold exposedMethods at e1 e2
    have hle : a.size ≤ b.size := by rw [← e1, ← e2]; exact this
    omega

/-! ### Player-creation lists: declaration order restricted to the visibility masks -/

/-- the internal lists are order-preserving sublists of the declaration list, selected
exactly by the mask -/
theorem internal_sublist (ps : List PropDef) (mask : Nat) :
    (propsByFlags ps mask).Sublist ps ∧ ∀ p, p ∈ propsByFlags ps mask ↔ p ∈ ps ∧ p.flags &&& mask ≠ 0 := by
  refine ⟨List.filter_sublist, ?_⟩
  intro p
  simp [propsByFlags, List.mem_filter]

/-! ### Facts regenerated from /repo, re-checked by the kernel -/

/-- the masks `Entity.__init__` passes (observed on the live code) are client 118,
internal 102, cell 33, base 16, and only the first call asks for the exposed index -/
theorem masks_fact : Generated.masks = [({} : Masks).client, ({} : Masks).internal, ({} : Masks).cell,
    ({} : Masks).base, 1, 0, 0, 0] := by decide

theorem flagValues_fact : Generated.flagValues = ReplayModel.flagValues := by decide

theorem infinity_fact : Generated.infinity = INFINITY := by decide

theorem defaultHeader_fact : Generated.defaultHeaderSize = 1 := by decide

/-- class behind each alias-language type name, as the model's `simpleTypes` assumes -/
def simpleKindName : SimpleKind → String
  | .leaf (.int 1 true) => "Int8" | .leaf (.int 2 true) => "Int16" | .leaf (.int 4 true) => "Int32"
  | .leaf (.int 8 true) => "Int64" | .leaf (.int 1 false) => "UInt8" | .leaf (.int 2 false) => "UInt16"
  | .leaf (.int 4 false) => "UInt32" | .leaf (.int 8 false) => "UInt64"
  | .leaf .f32 => "Float32" | .leaf .f64 => "Float64"
  | .leaf (.vec 2) => "Vector2" | .leaf (.vec 3) => "Vector3" | .leaf (.vec 4) => "Vector4"
  | .leaf .blob => "Blob" | .leaf .string => "String" | .leaf .python => "Python" | .leaf .mailbox => "Mailbox"
  | .fixedDict => "FixedDict" | .array => "Array" | .userType => "UserType"
  | _ => "?"

theorem simpleTypes_fact :
    ∀ p ∈ Generated.simpleTypes, (dictGet? ReplayModel.simpleTypes p.1).map simpleKindName = some p.2 := by
  decide

theorem simpleTypes_count_fact : Generated.simpleTypes.length = ReplayModel.simpleTypes.length := by decide

/-! ### interface traversal order -/

/-- what one section contributes by itself (everything of `parseSection` except the interfaces) -/
def ownPart (al : Aliases) (tyFuel : Nat) (d : EntityDef) (sec : Xml) : R EntityDef := do
  let props ← match sec.find "Properties" with
    | some p => addProps al tyFuel d.props p | none => pure d.props
  let vol := match sec.find "Volatile" with | some v => addVolatile d.volatile v | none => d.volatile
  let client ← match sec.find "ClientMethods" with
    | some m => addMethods al tyFuel true d.client m | none => pure d.client
  let cell ← match sec.find "CellMethods" with
    | some m => addMethods al tyFuel false d.cell m | none => pure d.cell
  let base ← match sec.find "BaseMethods" with
    | some m => addMethods al tyFuel false d.base m | none => pure d.base
  pure { d with props := props, volatile := vol, client := client, cell := cell, base := base }

/-- the sections in the order their own parts are applied: for every `<Implements>` entry, in
declaration order, everything that interface visits (depth first), then the section itself -/
def visitOrder (ifaces : List (String × Xml)) : Nat → Xml → R (List Xml)
  | 0, _ => .error .other
  | fuel+1, sec => do
    let subs ← match sec.find "Implements" with
      | none => pure []
      | some impl => impl.children.foldlM (fun acc it => do
          let nm ← it.stripped
          match dictGet? ifaces nm with
          | none => .error .other
          | some root => do
            let vs ← visitOrder ifaces fuel root
            pure (acc ++ vs)) []
    pure (subs ++ [sec])


theorem parseSection_succ (al : Aliases) (ifaces : List (String × Xml)) (tyFuel fuel : Nat) (d : EntityDef) (sec : Xml) :
    parseSection al ifaces tyFuel (fuel + 1) d sec =
      (do let d1 ← (match sec.find "Implements" with
            | none => pure d
            | some impl => impl.children.foldlM (fun acc it => do
                let nm ← it.stripped
                match dictGet? ifaces nm with
                | none => .error .other
                | some root => parseSection al ifaces tyFuel fuel acc root) d)
          ownPart al tyFuel d1 sec) := by
  rw [parseSection]
  cases hi : sec.find "Implements" <;> rfl

/-- the interface loop of a section, flattened -/
theorem children_flat (al : Aliases) (ifaces : List (String × Xml)) (tyFuel fuel : Nat)
    (ih : ∀ (d d' : EntityDef) (sec : Xml), parseSection al ifaces tyFuel fuel d sec = .ok d' →
      ∃ vs, visitOrder ifaces fuel sec = .ok vs ∧ vs.foldlM (ownPart al tyFuel) d = .ok d') :
    ∀ (children : List Xml) (d d' : EntityDef) (accV : List Xml),
      children.foldlM (fun acc it => do
          let nm ← it.stripped
          match dictGet? ifaces nm with
          | none => .error .other
          | some root => parseSection al ifaces tyFuel fuel acc root) d = .ok d' →
      ∃ vs, children.foldlM (fun acc it => do
          let nm ← it.stripped
          match dictGet? ifaces nm with
          | none => (.error .other : R (List Xml))
          | some root => do
            let vs ← visitOrder ifaces fuel root
            pure (acc ++ vs)) accV = .ok (accV ++ vs) ∧ vs.foldlM (ownPart al tyFuel) d = .ok d' := by
  intro children
  induction children with
  | nil =>
    intro d d' accV h
    simp only [List.foldlM_nil, pure, Except.pure, Except.ok.injEq] at h
    exact ⟨[], by simp [pure, Except.pure], by simp [h, pure, Except.pure]⟩
  | cons it rest ihc =>
    intro d d' accV h
    simp only [List.foldlM_cons] at h ⊢
    cases hs : it.stripped with
    | error e => simp [hs, bind, Except.bind] at h
    | ok nm =>
      simp only [hs, bind, Except.bind] at h ⊢
      cases hl : dictGet? ifaces nm with
      | none => simp [hl] at h
      | some root =>
        simp only [hl] at h ⊢
        cases hp : parseSection al ifaces tyFuel fuel d root with
        | error e => simp [hp] at h
        | ok d1 =>
          simp only [hp] at h
          obtain ⟨vs1, hv1, hf1⟩ := ih d d1 root hp
          obtain ⟨vs2, hv2, hf2⟩ := ihc d1 d' (accV ++ vs1) h
          refine ⟨vs1 ++ vs2, ?_, ?_⟩
          · simp only [hv1, pure, Except.pure]
            rw [← List.append_assoc]
            exact hv2
          · rw [List.foldlM_append, hf1]
            exact hf2

/-- **Interface recursion is a flat fold.** Whenever a section parses, the result is the
left fold of the sections' own parts (properties last-wins, methods first-wins, volatiles)
over the depth-first visiting order: each `<Implements>` entry in declaration order with
everything it implements before it, the section itself last. -/
theorem parseSection_flat (al : Aliases) (ifaces : List (String × Xml)) (tyFuel : Nat) :
    ∀ (fuel : Nat) (d d' : EntityDef) (sec : Xml), parseSection al ifaces tyFuel fuel d sec = .ok d' →
      ∃ vs, visitOrder ifaces fuel sec = .ok vs ∧ vs.foldlM (ownPart al tyFuel) d = .ok d' := by
  intro fuel
  induction fuel with
  | zero => intro d d' sec h; simp [parseSection] at h
  | succ fuel ih =>
    intro d d' sec h
    rw [parseSection_succ] at h
    unfold visitOrder
    cases hi : sec.find "Implements" with
    | none =>
      simp only [hi, pure, Except.pure, bind, Except.bind] at h ⊢
      exact ⟨[sec], rfl, by simp [List.foldlM_cons, h, bind, Except.bind, pure, Except.pure]⟩
    | some impl =>
      simp only [hi, bind, Except.bind] at h ⊢
      cases hc : impl.children.foldlM (fun acc it => do
          let nm ← it.stripped
          match dictGet? ifaces nm with
          | none => .error .other
          | some root => parseSection al ifaces tyFuel fuel acc root) d with
      | error e => simp [bind, Except.bind] at hc; rw [hc] at h; simp at h
      | ok d1 =>
        simp only [bind, Except.bind] at hc
        rw [hc] at h
        obtain ⟨vs, hv, hf⟩ := children_flat al ifaces tyFuel fuel ih impl.children d d1 [] hc
        simp only [List.nil_append, bind, Except.bind] at hv
        refine ⟨vs ++ [sec], ?_, ?_⟩
        · rw [hv]; rfl
        · rw [List.foldlM_append, hf]
          simp [List.foldlM_cons, h, bind, Except.bind, pure, Except.pure]

/-! ### the order of the top-level sections of a .def file -/

/-- the six top-level sections `parseSection` looks at -/
def sectionTags : List String := ["Implements", "Properties", "Volatile", "ClientMethods", "CellMethods", "BaseMethods"]

/-- `parseSection` sees a section only through `find` on those six tags -/
theorem parseSection_congr (al : Aliases) (ifaces : List (String × Xml)) (tyFuel fuel : Nat) (d : EntityDef) (sec sec' : Xml)
    (h : ∀ t ∈ sectionTags, sec.find t = sec'.find t) :
    parseSection al ifaces tyFuel fuel d sec = parseSection al ifaces tyFuel fuel d sec' := by
  cases fuel with
  | zero => rfl
  | succ fuel =>
    simp only [parseSection]
    rw [h "Implements" (by simp [sectionTags]), h "Properties" (by simp [sectionTags]), h "Volatile" (by simp [sectionTags]),
      h "ClientMethods" (by simp [sectionTags]), h "CellMethods" (by simp [sectionTags]), h "BaseMethods" (by simp [sectionTags])]

theorem find_unique {α : Type} (p : α → Bool) : ∀ (l : List α) (x : α), x ∈ l → p x = true →
    (∀ y ∈ l, p y = true → y = x) → l.find? p = some x := by
  intro l
  induction l with
  | nil => intro x hx; cases hx
  | cons a l ih =>
    intro x hx hp hu
    by_cases ha : p a = true
    · have : a = x := hu a (List.mem_cons_self ..) ha
      subst this
      simp [List.find?, ha]
    · have hne : a ≠ x := fun e => ha (e ▸ hp)
      have hx' : x ∈ l := by
        cases hx with
        | head => exact absurd rfl hne
        | tail _ h => exact h
      simp only [List.find?, ha]
      exact ih x hx' hp (fun y hy hpy => hu y (List.mem_cons_of_mem _ hy) hpy)

theorem find_none_of_forall {α : Type} (p : α → Bool) (l : List α) (h : ∀ y ∈ l, p y = false) : l.find? p = none := by
  induction l with
  | nil => rfl
  | cons a l ih =>
    simp only [List.find?, h a (List.mem_cons_self ..)]
    exact ih (fun y hy => h y (List.mem_cons_of_mem _ hy))

theorem nodup_map_inj {α β : Type} (f : α → β) : ∀ (l : List α), (l.map f).Nodup → ∀ x ∈ l, ∀ y ∈ l, f x = f y → x = y := by
  intro l
  induction l with
  | nil => intro _ x hx; cases hx
  | cons a l ih =>
    intro hnd x hx y hy hxy
    rw [List.map_cons, List.nodup_cons] at hnd
    obtain ⟨hna, hl⟩ := hnd
    cases hx with
    | head =>
      cases hy with
      | head => rfl
      | tail _ hy' => exact absurd (List.mem_map.mpr ⟨y, hy', hxy.symm⟩) hna
    | tail _ hx' =>
      cases hy with
      | head => exact absurd (List.mem_map.mpr ⟨x, hx', hxy⟩) hna
      | tail _ hy' => exact ih hl x hx' y hy' hxy

/-- `find` does not depend on the order of the children when every tag occurs at most once -/
theorem find_perm (c c' : List Xml) (hperm : c.Perm c') (hnd : (c.map Xml.tag).Nodup) (t : String) :
    c.find? (·.tag == t) = c'.find? (·.tag == t) := by
  have hnd' : (c'.map Xml.tag).Nodup := (hperm.map Xml.tag).nodup_iff.mp hnd
  by_cases hex : ∃ x ∈ c, x.tag = t
  · obtain ⟨x, hx, hxt⟩ := hex
    have uniq : ∀ (l : List Xml), (l.map Xml.tag).Nodup → x ∈ l → ∀ y ∈ l, (y.tag == t) = true → y = x := by
      intro l hl hxl y hy hyt
      have hyt' : y.tag = x.tag := by rw [hxt]; simpa using hyt
      exact nodup_map_inj Xml.tag l hl y hy x hxl hyt'
    rw [find_unique _ c x hx (by simpa using hxt) (uniq c hnd hx),
      find_unique _ c' x (hperm.mem_iff.mp hx) (by simpa using hxt) (uniq c' hnd' (hperm.mem_iff.mp hx))]
  · have hn : ∀ y ∈ c, (y.tag == t) = false := by
      intro y hy
      have : y.tag ≠ t := fun e => hex ⟨y, hy, e⟩
      simpa using this
    have hn' : ∀ y ∈ c', (y.tag == t) = false := fun y hy => hn y (hperm.mem_iff.mpr hy)
    rw [find_none_of_forall _ c hn, find_none_of_forall _ c' hn']

/-- **The order of the top-level sections of a `.def` file carries no meaning**: two sections
whose children are a permutation of each other (each tag at most once) parse to the same
definition — interfaces first, then the file's own members, whatever the document order. -/
theorem parseSection_order_irrelevant (al : Aliases) (ifaces : List (String × Xml)) (tyFuel fuel : Nat) (d : EntityDef)
    (tag : String) (text text' : Option String) (c c' : List Xml) (hperm : c.Perm c') (hnd : (c.map Xml.tag).Nodup) :
    parseSection al ifaces tyFuel fuel d (.node tag text c) = parseSection al ifaces tyFuel fuel d (.node tag text' c') :=
  parseSection_congr al ifaces tyFuel fuel d _ _ (fun t _ => find_perm c c' hperm hnd t)


/-- non-vacuity: `<Properties>` before `<Implements>` is a permutation with distinct tags -/
example : [Xml.node "Properties" none [], Xml.node "Implements" none []].Perm [Xml.node "Implements" none [], Xml.node "Properties" none []] ∧
    ([Xml.node "Properties" none [], Xml.node "Implements" none []].map Xml.tag).Nodup := by
  exact ⟨List.Perm.swap _ _ _, by decide⟩

end ReplayModel.C04
