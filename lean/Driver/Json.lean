/-
JSON glue between the harness and the model (trusted: not part of any theorem).
-/
import Lean.Data.Json
import ReplayModel
open Lean
namespace Driver
open ReplayModel

def hexDigit (n : Nat) : Char :=
  if n < 10 then Char.ofNat (48 + n) else Char.ofNat (87 + n)

def toHex (bs : Bytes) : String :=
  String.ofList (bs.foldr (fun b acc => hexDigit (b.toNat / 16) :: hexDigit (b.toNat % 16) :: acc) [])

def hexVal (c : Char) : Option Nat :=
  if '0' ≤ c ∧ c ≤ '9' then some (c.toNat - 48)
  else if 'a' ≤ c ∧ c ≤ 'f' then some (c.toNat - 87)
  else if 'A' ≤ c ∧ c ≤ 'F' then some (c.toNat - 55)
  else none

partial def fromHexAux : List Char → Array UInt8 → Option (Array UInt8)
  | [], acc => some acc
  | a :: b :: rest, acc => do
    let x ← hexVal a
    let y ← hexVal b
    fromHexAux rest (acc.push (UInt8.ofNat (16 * x + y)))
  | _, _ => none

def fromHex (s : String) : Option Bytes := (fromHexAux s.toList #[]).map (·.toList)

def getHex (j : Json) (k : String) : Except String Bytes := do
  let s ← j.getObjValAs? String k
  match fromHex s with
  | some b => pure b
  | none => throw s!"bad hex in {k}"

def natOfJson (j : Json) : Except String Nat := do
  let n ← j.getNum?
  if n.exponent = 0 ∧ 0 ≤ n.mantissa then pure n.mantissa.toNat else throw "expected nat"

def intOfJson (j : Json) : Except String Int := do
  let n ← j.getNum?
  if n.exponent = 0 then pure n.mantissa else throw "expected int"

def getNat (j : Json) (k : String) : Except String Nat := do natOfJson (← j.getObjVal? k)

partial def tyOfJson (j : Json) : Except String Ty := do
  let k ← j.getObjValAs? String "k"
  match k with
  | "int" => pure (.int (← getNat j "size") (← j.getObjValAs? Bool "signed"))
  | "f32" => pure .f32
  | "f64" => pure .f64
  | "vec" => pure (.vec (← getNat j "n"))
  | "blob" => pure .blob
  | "string" => pure .string
  | "python" => pure .python
  | "mailbox" => pure .mailbox
  | "array" =>
    let e ← tyOfJson (← j.getObjVal? "of")
    let sz ← j.getObjVal? "size"
    if sz.isNull then pure (.array e none) else pure (.array e (some (← natOfJson sz)))
  | "dict" =>
    let fs ← j.getObjValAs? (Array Json) "fields"
    let an ← j.getObjValAs? Bool "allowNone"
    let fields ← fs.toList.mapM fun f => do
      let a ← f.getArr?
      if h : a.size = 2 then
        let n ← a[0].getStr?
        let t ← tyOfJson a[1]
        pure (n, t)
      else throw "bad field"
    pure (.fixedDict fields an)
  | "user" => pure (.userType (← tyOfJson (← j.getObjVal? "of")))
  | _ => throw s!"bad type kind {k}"

partial def tyToJson : Ty → Json
  | .int k s => Json.mkObj [("k", "int"), ("size", k), ("signed", s)]
  | .f32 => Json.mkObj [("k", "f32")]
  | .f64 => Json.mkObj [("k", "f64")]
  | .vec n => Json.mkObj [("k", "vec"), ("n", n)]
  | .blob => Json.mkObj [("k", "blob")]
  | .string => Json.mkObj [("k", "string")]
  | .python => Json.mkObj [("k", "python")]
  | .mailbox => Json.mkObj [("k", "mailbox")]
  | .array e sz => Json.mkObj [("k", "array"), ("of", tyToJson e),
      ("size", match sz with | some n => (n : Json) | none => Json.null)]
  | .fixedDict fs an => Json.mkObj [("k", "dict"),
      ("fields", Json.arr (fs.map fun (n, t) => Json.arr #[n, tyToJson t]).toArray), ("allowNone", an)]
  | .userType t => Json.mkObj [("k", "user"), ("of", tyToJson t)]

partial def valToJson : Val → Json
  | .int i => Json.num (JsonNumber.fromInt i)
  | .f32 b => Json.mkObj [("f32", b)]
  | .f64 b => Json.mkObj [("f64", b)]
  | .vec xs => Json.mkObj [("vec", Json.arr (xs.map fun (x : Nat) => (toJson x)).toArray)]
  | .bytes b => Json.mkObj [("b", toHex b)]
  | .str b => Json.mkObj [("s", toHex b)]
  | .none => Json.null
  | .list vs => Json.arr (vs.map valToJson).toArray
  | .dict fs => Json.mkObj [("d", Json.arr (fs.map fun (k, v) => Json.arr #[k, valToJson v]).toArray)]
  | .mailbox ip p => Json.mkObj [("mb", Json.arr #[toHex ip, p])]

partial def valOfJson (j : Json) : Except String Val := do
  match j with
  | .null => pure .none
  | .num n => if n.exponent = 0 then pure (.int n.mantissa) else throw "non-integer number"
  | .arr a => do pure (.list (← a.toList.mapM valOfJson))
  | .obj _ =>
    if let .ok x := j.getObjVal? "f32" then return .f32 (← natOfJson x)
    if let .ok x := j.getObjVal? "f64" then return .f64 (← natOfJson x)
    if let .ok x := j.getObjVal? "vec" then
      let a ← x.getArr?
      return .vec (← a.toList.mapM natOfJson)
    if let .ok _ := j.getObjVal? "b" then return .bytes (← getHex j "b")
    if let .ok _ := j.getObjVal? "s" then return .str (← getHex j "s")
    if let .ok x := j.getObjVal? "d" then
      let a ← x.getArr?
      let fs ← a.toList.mapM fun f => do
        let p ← f.getArr?
        if h : p.size = 2 then
          let n ← p[0].getStr?
          let v ← valOfJson p[1]
          pure (n, v)
        else throw "bad dict entry"
      return .dict fs
    if let .ok x := j.getObjVal? "mb" then
      let a ← x.getArr?
      if h : a.size = 2 then
        let ips ← a[0].getStr?
        match fromHex ips with
        | some ip => return .mailbox ip (← natOfJson a[1])
        | none => throw "bad ip"
      else throw "bad mailbox"
    throw "bad value object"
  | _ => throw "bad value"

/-- XML tree: [tag, text|null, [children]] -/
partial def xmlOfJson (j : Json) : Except String Xml := do
  let a ← j.getArr?
  if h : a.size = 3 then
    let tag ← a[0].getStr?
    let text ← if a[1].isNull then pure none else do pure (some (← a[1].getStr?))
    let cs ← (← a[2].getArr?).toList.mapM xmlOfJson
    pure (.node tag text cs)
  else throw "bad xml node"

def xmlMapOfJson (j : Json) : Except String (List (String × Xml)) := do
  let a ← j.getArr?
  a.toList.mapM fun p => do
    let q ← p.getArr?
    if h : q.size = 2 then
      let n ← q[0].getStr?
      let x ← xmlOfJson q[1]
      pure (n, x)
    else throw "bad xml map entry"

def propToJson (p : PropDef) : Json :=
  Json.arr #[p.name, p.size, tyToJson p.ty, p.flags]

def methodToJson (m : MethodDef) : Json :=
  Json.mkObj [("name", m.name), ("size", m.size), ("header", m.header), ("exposed", m.exposed),
    ("args", Json.arr (m.args.map fun (n, t) =>
      Json.arr #[match n with | some s => (s : Json) | none => Json.null, tyToJson t]).toArray)]

def viewToJson (v : EntityView) : Json :=
  Json.mkObj [("name", v.name),
    ("methods", Json.arr (v.methods.map methodToJson).toArray),
    ("clientProps", Json.arr (v.clientProps.map propToJson).toArray),
    ("internal", Json.arr (v.clientPropsInternal.map propToJson).toArray),
    ("cell", Json.arr (v.cellProps.map propToJson).toArray),
    ("base", Json.arr (v.baseProps.map propToJson).toArray),
    ("volatile", Json.arr (v.volatile.map fun (s : String) => (s : Json)).toArray)]

partial def pyTermOfJson (j : Json) : Except String PyTerm := do
  match j with
  | .null => pure .none
  | .bool b => pure (.bool b)
  | .num n => if n.exponent = 0 then pure (.int n.mantissa) else pure (.float (toString n))
  | .str s => pure (.str s)
  | .arr a => do pure (.list (← a.toList.mapM pyTermOfJson))
  | .obj _ =>
    let tag ← j.getObjValAs? String "t"
    match tag with
    | "bytes" => pure (.bytes (← j.getObjValAs? String "v"))
    | "float" => pure (.float (← j.getObjValAs? String "v"))
    | "other" => pure (.other (← j.getObjValAs? String "v"))
    | "tuple" => do pure (.tuple (← (← j.getObjValAs? (Array Json) "v").toList.mapM pyTermOfJson))
    | "dict" => do
      let kvs ← (← j.getObjValAs? (Array Json) "v").toList.mapM fun e => do
        let a ← e.getArr?
        pure ((← pyTermOfJson (a[0]?.getD Json.null)), (← pyTermOfJson (a[1]?.getD Json.null)))
      pure (.dict kvs)
    | "obj" => do
      let fs ← (← j.getObjValAs? (Array Json) "v").toList.mapM fun e => do
        let a ← e.getArr?
        pure ((← (a[0]?.getD Json.null).getStr?), (← pyTermOfJson (a[1]?.getD Json.null)))
      pure (.obj (← j.getObjValAs? String "cls") fs)
    | t => throw s!"bad pyterm tag {t}"

def errJson (e : Err) : Json := Json.mkObj [("err", e.name)]

end Driver
