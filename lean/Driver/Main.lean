/-
`rmdriver` — JSON-lines driver around the model's executable definitions.
One request per line on stdin, one reply per line on stdout, same order.
-/
import Driver.Json
open Lean
namespace Driver
open ReplayModel

def opCodecDecode (j : Json) : Except String Json := do
  let t ← tyOfJson (← j.getObjVal? "ty")
  let h ← getNat j "h"
  let bs ← getHex j "bytes"
  match decode h t bs with
  | .ok (v, rest) => pure (Json.mkObj [("ok", valToJson v), ("used", bs.length - rest.length)])
  | .error e => pure (errJson e)

def opCodecEncode (j : Json) : Except String Json := do
  let t ← tyOfJson (← j.getObjVal? "ty")
  let h ← getNat j "h"
  let v ← valOfJson (← j.getObjVal? "val")
  pure (Json.mkObj [("ok", toHex (encodeWire h t v)), ("hasTy", hasTy t v), ("userOK", userOK h t v),
    ("size", t.sizeInBytes)])

def opCodecWrite (j : Json) : Except String Json := do
  let t ← tyOfJson (← j.getObjVal? "ty")
  let h ← getNat j "h"
  let v ← valOfJson (← j.getObjVal? "val")
  match writeImpl h t v with
  | .ok bs => pure (Json.mkObj [("ok", toHex bs)])
  | .error e => pure (errJson e)

def opBitsReq (j : Json) : Except String Json := do
  let n ← getNat j "n"
  pure (Json.mkObj [("ok", bitsRequired n)])

/-- breakpoints of `bitsRequired` on [0, 2^maxExp]: the list of (n, bitsRequired n) at which
the value changes -/
def opBitsTable (j : Json) : Except String Json := do
  let m ← getNat j "maxExp"
  let pts : List Nat := (List.range (m + 1)).flatMap fun k => [2 ^ k, 2 ^ k + 1]
  let pts : List Nat := 0 :: 1 :: pts
  pure (Json.mkObj [("ok", Json.arr (pts.map fun (n : Nat) =>
    Json.arr #[toJson n, toJson (bitsRequired n)]).toArray)])

def opBitsRead (j : Json) : Except String Json := do
  let bs ← getHex j "bytes"
  let ws ← (← j.getObjValAs? (Array Json) "widths").toList.mapM natOfJson
  let rec go (ws : List Nat) (r : BitReader) (acc : Array Json) : Json :=
    match ws with
    | [] => Json.mkObj [("ok", Json.arr acc), ("rest", toHex r.getRest)]
    | w :: ws' =>
      match r.get w with
      | .ok (v, r') => go ws' r' (acc.push v)
      | .error e => Json.mkObj [("err", e.name), ("got", Json.arr acc)]
  pure (go ws (BitReader.ofBytes bs) #[])

def dispatch (op : String) (j : Json) : Except String Json :=
  match op with
  | "codec.decode" => opCodecDecode j
  | "codec.encode" => opCodecEncode j
  | "codec.write" => opCodecWrite j
  | "bits.req" => opBitsReq j
  | "bits.table" => opBitsTable j
  | "bits.read" => opBitsRead j
  | _ => throw s!"unknown op {op}"

def handleLine (line : String) : String :=
  match Json.parse line with
  | .error e => (Json.mkObj [("fatal", s!"parse: {e}")]).compress
  | .ok j =>
    match j.getObjValAs? String "op" with
    | .error e => (Json.mkObj [("fatal", e)]).compress
    | .ok op =>
      match dispatch op j with
      | .ok r => r.compress
      | .error e => (Json.mkObj [("fatal", e)]).compress

partial def loop (hIn hOut : IO.FS.Stream) : IO Unit := do
  let line ← hIn.getLine
  if line.isEmpty then return ()
  let t := line.trimAscii.toString
  if t.isEmpty then loop hIn hOut
  else
    hOut.putStrLn (handleLine t)
    loop hIn hOut

end Driver

def main : IO Unit := do
  let hIn ← IO.getStdin
  let hOut ← IO.getStdout
  Driver.loop hIn hOut
  hOut.flush
