/-
`rmdriver` — JSON-lines driver around the model's executable definitions.
One request per line on stdin, one reply per line on stdout, same order.
-/
import Driver.Json
import Std.Data.HashMap
open Lean
namespace Driver
open ReplayModel

structure State where
  types : Std.HashMap String Ty := {}

def getTy (st : State) (j : Json) : Except String Ty := do
  match j.getObjValAs? String "tyref" with
  | .ok name =>
    match st.types.get? name with
    | some t => pure t
    | none => throw s!"unknown tyref {name}"
  | .error _ => tyOfJson (← j.getObjVal? "ty")

def opTyDef (st : State) (j : Json) : Except String (State × Json) := do
  let name ← j.getObjValAs? String "name"
  let t ← tyOfJson (← j.getObjVal? "ty")
  pure ({ st with types := st.types.insert name t }, Json.mkObj [("ok", true)])

def opCodecDecode (st : State) (j : Json) : Except String Json := do
  let t ← getTy st j
  let h ← getNat j "h"
  let bs ← getHex j "bytes"
  match decode h t bs with
  | .ok (v, rest) => pure (Json.mkObj [("ok", valToJson v), ("used", bs.length - rest.length)])
  | .error e => pure (errJson e)

def opCodecDecodeSeq (st : State) (j : Json) : Except String Json := do
  let refs ← j.getObjValAs? (Array String) "tyrefs"
  let tys ← refs.toList.mapM fun name =>
    match st.types.get? name with
    | some t => pure t
    | none => throw s!"unknown tyref {name}"
  let h ← getNat j "h"
  let bs ← getHex j "bytes"
  let rec go (tys : List Ty) (cur : Bytes) (acc : Array Json) : Json :=
    match tys with
    | [] => Json.mkObj [("ok", Json.arr acc), ("used", bs.length - cur.length)]
    | t :: ts =>
      match decode h t cur with
      | .ok (v, rest) => go ts rest (acc.push (valToJson v))
      | .error e => Json.mkObj [("err", e.name), ("at", acc.size)]
  pure (go tys bs #[])

def opCodecEncode (st : State) (j : Json) : Except String Json := do
  let t ← getTy st j
  let h ← getNat j "h"
  let v ← valOfJson (← j.getObjVal? "val")
  pure (Json.mkObj [("ok", toHex (encodeWire h t v)), ("hasTy", hasTy t v), ("userOK", userOK h t v),
    ("size", t.sizeInBytes)])

def opCodecWrite (st : State) (j : Json) : Except String Json := do
  let t ← getTy st j
  let h ← getNat j "h"
  let v ← valOfJson (← j.getObjVal? "val")
  match writeImpl h t v with
  | .ok bs => pure (Json.mkObj [("ok", toHex bs)])
  | .error e => pure (errJson e)

def opCodecWriteArgs (j : Json) : Except String Json := do
  let tys ← (← j.getObjValAs? (Array Json) "tys").toList.mapM tyOfJson
  let vals ← (← j.getObjValAs? (Array Json) "vals").toList.mapM valOfJson
  let h ← getNat j "h"
  match writeArgs h tys vals with
  | .error e => pure (errJson e)
  | .ok bs =>
    match decodeArgs h tys bs with
    | .ok (vs, rest) => pure (Json.mkObj [("ok", toHex bs), ("back", Json.arr (vs.map valToJson).toArray),
        ("left", rest.length)])
    | .error e => pure (Json.mkObj [("ok", toHex bs), ("backErr", e.name)])

def opBitsReq (j : Json) : Except String Json := do
  let n ← getNat j "n"
  pure (Json.mkObj [("ok", bitsRequired n)])

/-- breakpoints of `bitsRequired` on [0, 2^maxExp]: the list of (n, bitsRequired n) at which
the value changes -/
def opBitsTable (j : Json) : Except String Json := do
  let m ← getNat j "maxExp"
  let pts : List Nat := (List.range (m + 1)).flatMap fun k => [2 ^ k, 2 ^ k + 1]
  let pts : List Nat := 0 :: 1 :: pts
  pure (Json.mkObj [("ok", Json.arr (pts.map fun (n : Nat) =>
    Json.arr #[toJson n, toJson (bitsRequired n)]).toArray)])

def opBitsRead (j : Json) : Except String Json := do
  let bs ← getHex j "bytes"
  let ws ← (← j.getObjValAs? (Array Json) "widths").toList.mapM natOfJson
  let rec go (ws : List Nat) (r : BitReader) (acc : Array Json) : Json :=
    match ws with
    | [] => Json.mkObj [("ok", Json.arr acc), ("rest", toHex r.getRest)]
    | w :: ws' =>
      match r.get w with
      | .ok (v, r') => go ws' r' (acc.push v)
      | .error e => Json.mkObj [("err", e.name), ("got", Json.arr acc)]
  pure (go ws (BitReader.ofBytes bs) #[])

def pureOp (st : State) (r : Except String Json) : Except String (State × Json) := do
  pure (st, ← r)

def dispatch (st : State) (op : String) (j : Json) : Except String (State × Json) :=
  match op with
  | "ty.def" => opTyDef st j
  | "codec.decode" => pureOp st (opCodecDecode st j)
  | "codec.decodeSeq" => pureOp st (opCodecDecodeSeq st j)
  | "codec.encode" => pureOp st (opCodecEncode st j)
  | "codec.write" => pureOp st (opCodecWrite st j)
  | "codec.writeArgs" => pureOp st (opCodecWriteArgs j)
  | "bits.req" => pureOp st (opBitsReq j)
  | "bits.table" => pureOp st (opBitsTable j)
  | "bits.read" => pureOp st (opBitsRead j)
  | _ => throw s!"unknown op {op}"

def handleLine (st : State) (line : String) : State × String :=
  match Json.parse line with
  | .error e => (st, (Json.mkObj [("fatal", s!"parse: {e}")]).compress)
  | .ok j =>
    match j.getObjValAs? String "op" with
    | .error e => (st, (Json.mkObj [("fatal", e)]).compress)
    | .ok op =>
      match dispatch st op j with
      | .ok (st', r) => (st', r.compress)
      | .error e => (st, (Json.mkObj [("fatal", e)]).compress)

partial def loop (hIn hOut : IO.FS.Stream) (st : State) : IO Unit := do
  let line ← hIn.getLine
  if line.isEmpty then return ()
  let t := line.trimAscii.toString
  if t.isEmpty then loop hIn hOut st
  else
    let (st', out) := handleLine st t
    hOut.putStrLn out
    loop hIn hOut st'

end Driver

def main : IO Unit := do
  let hIn ← IO.getStdin
  let hOut ← IO.getStdout
  Driver.loop hIn hOut {}
  hOut.flush
