/-
`rmdriver` — JSON-lines driver around the model's executable definitions.
One request per line on stdin, one reply per line on stdout, same order.
-/
import Driver.Json
import Std.Data.HashMap
open Lean
namespace Driver
open ReplayModel

structure State where
  types : Std.HashMap String Ty := {}
  defs : Std.HashMap String Defs := {}
  masks : Masks := {}

def getTy (st : State) (j : Json) : Except String Ty := do
  match j.getObjValAs? String "tyref" with
  | .ok name =>
    match st.types.get? name with
    | some t => pure t
    | none => throw s!"unknown tyref {name}"
  | .error _ => tyOfJson (← j.getObjVal? "ty")

def opTyDef (st : State) (j : Json) : Except String (State × Json) := do
  let name ← j.getObjValAs? String "name"
  let t ← tyOfJson (← j.getObjVal? "ty")
  pure ({ st with types := st.types.insert name t }, Json.mkObj [("ok", true)])

def masksOfJson (j : Json) : Except String Masks := do
  pure { client := ← getNat j "client", internal := ← getNat j "internal",
         cell := ← getNat j "cell", base := ← getNat j "base" }

/-- load a definition set from XML trees, register it under `id`, return the views -/
def opDefsLoad (st : State) (j : Json) : Except String (State × Json) := do
  let id ← j.getObjValAs? String "id"
  let fuel ← getNat j "fuel"
  let alias ← xmlOfJson (← j.getObjVal? "alias")
  let extJ ← j.getObjVal? "alias_ext"
  let ext ← if extJ.isNull then pure none else do pure (some (← xmlOfJson extJ))
  let ents ← xmlOfJson (← j.getObjVal? "entities")
  let defs ← xmlMapOfJson (← j.getObjVal? "defs")
  let ifaces ← xmlMapOfJson (← j.getObjVal? "interfaces")
  let masks ← match j.getObjVal? "masks" with
    | .ok m => masksOfJson m
    | .error _ => pure st.masks
  match loadDefs fuel alias ext ents defs ifaces with
  | .error e => pure (st, errJson e)
  | .ok d =>
    -- NoZeroWidth, evaluated on every client property of every entity
    let zero := d.entities.flatMap fun e => (e.props.filter fun p => !p.ty.elemsNonEmpty).map fun p => e.name ++ "." ++ p.name
    let brief := (j.getObjValAs? Bool "brief").toOption.getD false
    let out := if brief then Json.mkObj [("ok", d.entities.length), ("zeroWidth", toJson zero)]
      else Json.mkObj [("ok", Json.arr (d.entities.map fun e => viewToJson (e.view masks)).toArray)]
    pure ({ st with defs := st.defs.insert id d, masks := masks }, out)

def subsOfJson (j : Json) : Except String (List (String × List Sub)) := do
  let a ← j.getArr?
  let mut table : List (String × List Sub) := []
  for x in a do
    let q ← x.getArr?
    if h : q.size = 3 then
      let key ← q[0].getStr?
      let tag ← natOfJson q[1]
      let raises ← q[2].getBool?
      table := subscribe table key { tag := tag, raises := raises }
    else throw "bad subscription"
  pure table

def dialectOf (s : String) : Except String Dialect :=
  match s with
  | "wowsOld" => pure wowsOld
  | "wowsNew" => pure wowsNew
  | "wot" => pure wotDialect
  | "wowp" => pure wowpDialect
  | _ => throw s!"unknown dialect {s}"

def kvJson (kvs : List (String × Val)) : Json :=
  let sorted := kvs.toArray.qsort (fun a b => a.1 < b.1)
  Json.arr (sorted.map fun (k, v) => Json.arr #[k, valToJson v])

def entityJson (e : Entity) : Json :=
  Json.mkObj [("id", Json.num (JsonNumber.fromInt e.id)), ("type", e.view.name),
    ("client", kvJson e.client), ("cell", kvJson e.cell), ("base", kvJson e.base),
    ("volatile", kvJson e.volatile)]

def worldJson (w : World) : Json :=
  Json.mkObj [("entities", Json.arr (w.entities.map fun (_, e) => entityJson e).toArray),
    ("playerId", match w.playerId with | some i => Json.num (JsonNumber.fromInt i) | none => Json.null),
    ("map", match w.map with | some m => (toHex m : Json) | none => Json.null)]

def logJson : LogEntry → Json
  | .method key sub ent args kwargs => Json.arr #["M", key, sub, Json.num (JsonNumber.fromInt ent),
      Json.arr (args.map valToJson).toArray, kvJson kwargs]
  | .prop key sub ent v => Json.arr #["P", key, sub, Json.num (JsonNumber.fromInt ent), valToJson v]
  | .nested key sub ent path obj => Json.arr #["N", key, sub, Json.num (JsonNumber.fromInt ent), path, valToJson obj]

def jsonOkImpl (b : Bytes) : Bool :=
  match String.fromUTF8? (ByteArray.mk b.toArray) with
  | some s => (Json.parse s).isOk
  | none => false

def endJson (e : PlayEnd) : List (String × Json) :=
  match e with
  | .finished => [("end", "finished")]
  | .headerShort => [("end", "headerShort")]
  | .raised i er => [("end", "raised"), ("index", i), ("err", er.name)]

def opPlay (st : State) (j : Json) (streamOverride : Option Bytes) : Except String Json := do
  let id ← j.getObjValAs? String "defs"
  let defs ← match st.defs.get? id with
    | some d => pure d
    | none => throw s!"unknown defs {id}"
  let dialect ← dialectOf (← j.getObjValAs? String "dialect")
  let strict ← j.getObjValAs? Bool "strict"
  let subs ← j.getObjVal? "subs"
  let reg : Registry := {
    methods := ← subsOfJson (← subs.getObjVal? "methods"),
    props := ← subsOfJson (← subs.getObjVal? "props"),
    nested := ← subsOfJson (← subs.getObjVal? "nested") }
  let stream ← match streamOverride with
    | some b => pure b
    | none => getHex j "stream"
  let cfg : Config := { defs := defs, masks := st.masks, dialect := dialect, reg := reg }
  let every := (j.getObjValAs? Bool "every").toOption.getD false
  if every then
    -- dump the world after every packet (short histories only)
    let (ps, fe) := parsePackets stream
    let rec go (w : World) (i : Nat) (ps : List NetPacket) (acc : Array Json) : Array Json × World × Option (Nat × Err) :=
      match ps with
      | [] => (acc, w, none)
      | np :: rest =>
        let r := stepNet jsonOkImpl cfg w np
        let entry := Json.mkObj [("world", worldJson r.world),
          ("err", match r.err with | some e => (e.name : Json) | none => Json.null),
          ("log", Json.arr ((r.world.log.drop w.log.length).map logJson).toArray)]
        match r.err with
        | some e => if strict then (acc.push entry, r.world, some (i, e)) else go r.world (i + 1) rest (acc.push entry)
        | none => go r.world (i + 1) rest (acc.push entry)
    let (steps, w, raised) := go {} 0 ps #[]
    let ending : PlayEnd := match raised with
      | some (i, e) => .raised i e
      | none => match fe with | .exhausted => .finished | .headerShort => .headerShort
    pure (Json.mkObj (endJson ending ++ [("steps", Json.arr steps), ("world", worldJson w), ("packets", ps.length)]))
  else
    let r := play jsonOkImpl cfg strict {} stream
    pure (Json.mkObj (endJson r.ending ++ [("world", worldJson r.world),
      ("log", Json.arr (r.world.log.map logJson).toArray),
      ("failed", Json.arr (r.failed.map fun (i, e) => Json.arr #[i, e.name]).toArray)]))

def opFrameParse (j : Json) : Except String Json := do
  let stream ← getHex j "stream"
  let (ps, fe) := parsePackets stream
  pure (Json.mkObj [("packets", Json.arr (ps.map fun p => Json.arr #[p.type, p.time, toHex p.payload, p.size]).toArray),
    ("end", match fe with | .exhausted => "exhausted" | .headerShort => "headerShort")])

/-- header, block loop, extension -> game, prefix skip, XOR chain and concatenation run in
the model; the ECB layer is supplied per block by the harness (`dtable`), inflation is
left to the harness (the compressed bytes are returned) -/
def opContainerRead (j : Json) : Except String Json := do
  let ext ← j.getObjValAs? String "ext"
  let file ← getHex j "file"
  let tbl ← (← j.getObjValAs? (Array Json) "dtable").toList.mapM fun e => do
    let a ← e.getArr?
    if h : a.size = 2 then
      match fromHex (← a[0].getStr?), fromHex (← a[1].getStr?) with
      | some c, some p => pure (c, p)
      | _, _ => throw "bad hex in dtable"
    else throw "bad dtable entry"
  let D : Bytes → Bytes := fun c => match tbl.find? (·.1 == c) with | some (_, p) => p | none => []
  match readContainer D some ext file with
  | .error e => pure (errJson e)
  | .ok info =>
    let g := match info.game with | .wows => "wows" | .wot => "wot" | .wowp => "wowp"
    pure (Json.mkObj [("ok", Json.mkObj [("game", g), ("engine", toHex info.engine),
      ("extra", Json.arr (info.extra.map fun b => match b with | some d => (toHex d : Json) | none => Json.null).toArray),
      ("compressed", toHex info.stream)])])

def strList (j : Json) (k : String) : Except String (List String) := do
  pure (← j.getObjValAs? (Array String) k).toList

def opVersionSelect (j : Json) : Except String Json := do
  let game ← j.getObjValAs? String "game"
  let raw ← j.getObjValAs? String "raw"
  let bj ← j.getObjVal? "bundled"
  let b : Bundled := { defs := ← strList bj "defs", modules := ← strList bj "modules", controllers := ← strList bj "controllers" }
  let (norm, res) : Json × Except Refusal Selection ←
    match game with
    | "wows" => let c := normWows raw; pure (toJson c, selectWows b c)
    | "wowp" => let c := normWowp raw; pure (toJson c, selectWowp b c)
    | "wot" => let v := normWot raw; pure (toJson v, selectWot b v)
    | _ => throw s!"unknown game {game}"
  match res with
  | .ok s => pure (Json.mkObj [("norm", norm), ("ok", Json.mkObj [("controller", s.controller), ("defs", s.defs), ("newTable", s.newTable)])])
  | .error r =>
    let (k, v) : String × String := match r with
      | .notSupportedController v => ("notSupportedController", v)
      | .notSupportedDefs => ("notSupportedDefs", "")
      | .importError => ("importError", "")
      | .noControllerClass => ("noControllerClass", "")
      | .invalidVersion => ("invalidVersion", "")
    pure (Json.mkObj [("norm", norm), ("refused", k), ("v", v)])

def bundledOfJson (bj : Json) : Except String Bundled := do
  pure { defs := ← strList bj "defs", modules := ← strList bj "modules", controllers := ← strList bj "controllers" }

/-- `getinfo`: the model's `ReplayParser.get_info` (`ReplayModel.getInfo`) on a real file. The block
cipher is supplied as a table (as in `container.read`), inflate is the identity on what the harness
already inflated (`stream`), json is the harness's (`version`: the game's version field or null),
definitions come from the sets loaded earlier under the id `<game>/<directory>`. -/
def opGetInfo (st : State) (j : Json) : Except String Json := do
  let ext ← j.getObjValAs? String "ext"
  let file ← getHex j "file"
  let tbl ← (← j.getObjValAs? (Array Json) "dtable").toList.mapM fun e => do
    let a ← e.getArr?
    if h : a.size = 2 then
      match fromHex (← a[0].getStr?), fromHex (← a[1].getStr?) with
      | some c, some p => pure (c, p)
      | _, _ => throw "bad hex in dtable"
    else throw "bad dtable entry"
  let D : Bytes → Bytes := fun c => match tbl.find? (·.1 == c) with | some (_, p) => p | none => []
  let stream ← match j.getObjVal? "stream" with
    | .ok sj => if sj.isNull then pure none else do pure (some (← getHex j "stream"))
    | .error _ => pure none
  let version : Option String := (j.getObjValAs? String "version").toOption
  let bj ← j.getObjVal? "bundled"
  let bw ← bundledOfJson (← bj.getObjVal? "wows")
  let bt ← bundledOfJson (← bj.getObjVal? "wot")
  let bp ← bundledOfJson (← bj.getObjVal? "wowp")
  let strict ← j.getObjValAs? Bool "strict"
  let gname : GameId → String := fun g => match g with | .wows => "wows" | .wot => "wot" | .wowp => "wowp"
  let env : Env := {
    D := D, inflate := fun _ => stream, jsonOk := fun _ => true,
    versionOf := fun _ _ => version,
    bundled := fun g => match g with | .wows => bw | .wot => bt | .wowp => bp,
    defsOf := fun g name => (st.defs.get? (gname g ++ "/" ++ name)).getD ⟨[]⟩,
    regOf := fun _ _ => {}, masks := st.masks }
  match getInfo env strict ext file with
  | .raises => pure (Json.mkObj [("raises", true)])
  | .returns _ hidden error =>
    pure (Json.mkObj [("returns", Json.mkObj [("hidden", hidden.isSome),
      ("error", match error with | some e => (e : Json) | none => Json.null),
      ("failed", match hidden with | some r => (r.failed.length : Json) | none => Json.null)])])

def opSigBind (j : Json) : Except String Json := do
  let ps ← (← j.getObjValAs? (Array Json) "sig").toList.mapM fun e => do
    let a ← e.getArr?
    if h : a.size = 3 then
      let name ← a[0].getStr?
      let kind ← match (← a[1].getStr?) with
        | "pos" => pure ParamKind.pos | "pk" => pure ParamKind.pk | "var" => pure ParamKind.var
        | "kw" => pure ParamKind.kw | "varkw" => pure ParamKind.varkw
        | k => throw s!"bad param kind {k}"
      pure ({ name := name, kind := kind, hasDefault := ← a[2].getBool? } : Param)
    else throw "bad param"
  let npos ← getNat j "npos"
  let named ← strList j "named"
  -- the callback is invoked as func(entity, *args, **kwargs): one more positional value
  pure (Json.mkObj [("ok", bind ps (npos + 1) named)])

def imapJson {α : Type} (f : α → Json) (m : List (Int × α)) : Json :=
  Json.arr (m.map fun (k, v) => Json.arr #[Json.num (JsonNumber.fromInt k), f v]).toArray

def opControllerSummary (j : Json) : Except String Json := do
  let evs ← (← j.getObjValAs? (Array Json) "events").toList.mapM fun e => do
    let a ← e.getArr?
    let tag ← (a[0]?.getD Json.null).getStr?
    let int (i : Nat) : Except String Int := intOfJson (a[i]?.getD Json.null)
    match tag with
    | "death" => pure (Event.death (← int 1) (← int 2) (← int 3))
    | "achievement" => pure (Event.achievement (← int 1) (← int 2))
    | "ribbon" => pure (Event.ribbon (← int 1) (← int 2))
    | "shot" => pure (Event.shot (← int 1) (← int 2) (← int 3))
    | "planeDeath" => pure (Event.planeDeath (← int 1) (← natOfJson (a[2]?.getD Json.null)))
    | "battleEnd" => pure (Event.battleEnd (← int 1) (← int 2))
    | "arena" => pure (Event.arena (← int 1))
    | "player" => pure (Event.player (← int 1))
    | "map" =>
      match fromHex (← (a[1]?.getD Json.null).getStr?) with
      | some b => pure (Event.map b)
      | none => throw "bad map hex"
    | "damageStat" =>
      let es ← (← (a[1]?.getD Json.null).getArr?).toList.mapM fun x => do
        let q ← x.getArr?
        pure ((← intOfJson (q[0]?.getD Json.null)), (← intOfJson (q[1]?.getD Json.null)), (← (q[2]?.getD Json.null).getStr?))
      pure (Event.damageStat es)
    | "roster" =>
      let row ← (← (a[2]?.getD Json.null).getArr?).toList.mapM fun x => do
        let q ← x.getArr?
        pure ((← (q[0]?.getD Json.null).getStr?), (← (q[1]?.getD Json.null).getStr?))
      pure (Event.roster (← int 1) row)
    | t => throw s!"unknown event {t}"
  let s := summarize evs
  let cnts := imapJson (fun (v : Int) => Json.num (JsonNumber.fromInt v))
  pure (Json.mkObj [("ok", Json.mkObj [
    ("deaths", Json.arr (s.deaths.map fun (a, b, c) => Json.arr #[Json.num (JsonNumber.fromInt a), Json.num (JsonNumber.fromInt b), Json.num (JsonNumber.fromInt c)]).toArray),
    ("achievements", imapJson cnts s.achievements), ("ribbons", imapJson cnts s.ribbons), ("shots", imapJson cnts s.shots),
    ("damage", imapJson (fun (v : String) => (v : Json)) s.damage), ("planes", cnts s.planes),
    ("players", imapJson (fun (row : List (String × String)) => Json.arr (row.map fun (k, v) => Json.arr #[k, v]).toArray) s.players),
    ("battleResult", match s.battleResult with | some (t, r) => Json.arr #[Json.num (JsonNumber.fromInt t), Json.num (JsonNumber.fromInt r)] | none => Json.null),
    ("map", match s.map with | some m => (toHex m : Json) | none => Json.null),
    ("arenaId", match s.arenaId with | some i => Json.num (JsonNumber.fromInt i) | none => Json.null),
    ("playerId", match s.playerId with | some i => Json.num (JsonNumber.fromInt i) | none => Json.null)])])

def opPackShipped (j : Json) : Except String Json := do
  let files ← strList j "files"
  let cfg : SetupCfg := { dataPatterns := ← strList j "patterns", scripts := ← strList j "scripts" }
  let root ← j.getObjValAs? String "root"
  let script ← j.getObjValAs? String "script"
  let pkgs := packagesOf files
  let sh := files.filter (shippedFile files pkgs cfg)
  let miss := files.filter fun f => neededFile root script f && !shippedFile files pkgs cfg f
  pure (Json.mkObj [("packages", toJson pkgs), ("shipped", toJson sh), ("missing", toJson miss)])

def opJsonEncodable (j : Json) : Except String Json := do
  let t ← pyTermOfJson (← j.getObjVal? "term")
  pure (Json.mkObj [("encodable", encodable t), ("keysOK", keysOK t)])

def opPickleEvents (j : Json) : Except String Json := do
  let bs ← getHex j "bytes"
  let allow : Option (List (Bytes × Bytes)) ←
    match j.getObjVal? "allow" with
    | .ok a =>
      if a.isNull then pure none else do
        let xs ← (← a.getArr?).toList.mapM fun e => do
          let q ← e.getArr?
          pure (((← (q[0]?.getD Json.null).getStr?).toUTF8.toList), ((← (q[1]?.getD Json.null).getStr?).toUTF8.toList))
        pure (some xs)
    | .error _ => pure none
  let r := pickleRun allow (bs.length + 2) bs {}
  let evJson (es : List (Bytes × Bytes)) : Json := Json.arr (es.map fun (m, n) => Json.arr #[toHex m, toHex n]).toArray
  pure (match r with
    | .stop es => Json.mkObj [("end", "stop"), ("events", evJson es)]
    | .refused es m n => Json.mkObj [("end", "refused"), ("events", evJson es), ("refused", Json.arr #[toHex m, toHex n])]
    | .error es => Json.mkObj [("end", "error"), ("events", evJson es)])

def opCodecDecode (st : State) (j : Json) : Except String Json := do
  let t ← getTy st j
  let h ← getNat j "h"
  let bs ← getHex j "bytes"
  match decode h t bs with
  | .ok (v, rest) => pure (Json.mkObj [("ok", valToJson v), ("used", bs.length - rest.length)])
  | .error e => pure (errJson e)

def opCodecDecodeSeq (st : State) (j : Json) : Except String Json := do
  let refs ← j.getObjValAs? (Array String) "tyrefs"
  let tys ← refs.toList.mapM fun name =>
    match st.types.get? name with
    | some t => pure t
    | none => throw s!"unknown tyref {name}"
  let h ← getNat j "h"
  let bs ← getHex j "bytes"
  let rec go (tys : List Ty) (cur : Bytes) (acc : Array Json) : Json :=
    match tys with
    | [] => Json.mkObj [("ok", Json.arr acc), ("used", bs.length - cur.length)]
    | t :: ts =>
      match decode h t cur with
      | .ok (v, rest) => go ts rest (acc.push (valToJson v))
      | .error e => Json.mkObj [("err", e.name), ("at", acc.size)]
  pure (go tys bs #[])

def opCodecEncode (st : State) (j : Json) : Except String Json := do
  let t ← getTy st j
  let h ← getNat j "h"
  let v ← valOfJson (← j.getObjVal? "val")
  pure (Json.mkObj [("ok", toHex (encodeWire h t v)), ("hasTy", hasTy t v), ("userOK", userOK h t v),
    ("size", t.sizeInBytes)])

def opCodecWrite (st : State) (j : Json) : Except String Json := do
  let t ← getTy st j
  let h ← getNat j "h"
  let v ← valOfJson (← j.getObjVal? "val")
  match writeImpl h t v with
  | .ok bs => pure (Json.mkObj [("ok", toHex bs)])
  | .error e => pure (errJson e)

def opCodecWriteArgs (j : Json) : Except String Json := do
  let tys ← (← j.getObjValAs? (Array Json) "tys").toList.mapM tyOfJson
  let vals ← (← j.getObjValAs? (Array Json) "vals").toList.mapM valOfJson
  let h ← getNat j "h"
  match writeArgs h tys vals with
  | .error e => pure (errJson e)
  | .ok bs =>
    match decodeArgs h tys bs with
    | .ok (vs, rest) => pure (Json.mkObj [("ok", toHex bs), ("back", Json.arr (vs.map valToJson).toArray),
        ("left", rest.length)])
    | .error e => pure (Json.mkObj [("ok", toHex bs), ("backErr", e.name)])

def opBitsReq (j : Json) : Except String Json := do
  let n ← getNat j "n"
  pure (Json.mkObj [("ok", bitsRequired n)])

/-- breakpoints of `bitsRequired` on [0, 2^maxExp]: the list of (n, bitsRequired n) at which
the value changes -/
def opBitsTable (j : Json) : Except String Json := do
  let m ← getNat j "maxExp"
  let pts : List Nat := (List.range (m + 1)).flatMap fun k => [2 ^ k, 2 ^ k + 1]
  let pts : List Nat := 0 :: 1 :: pts
  pure (Json.mkObj [("ok", Json.arr (pts.map fun (n : Nat) =>
    Json.arr #[toJson n, toJson (bitsRequired n)]).toArray)])

def opBitsRead (j : Json) : Except String Json := do
  let bs ← getHex j "bytes"
  let ws ← (← j.getObjValAs? (Array Json) "widths").toList.mapM natOfJson
  let rec go (ws : List Nat) (r : BitReader) (acc : Array Json) : Json :=
    match ws with
    | [] => Json.mkObj [("ok", Json.arr acc), ("rest", toHex r.getRest)]
    | w :: ws' =>
      match r.get w with
      | .ok (v, r') => go ws' r' (acc.push v)
      | .error e => Json.mkObj [("err", e.name), ("got", Json.arr acc)]
  pure (go ws (BitReader.ofBytes bs) #[])

/-- an entity with `nprops` client properties whose `pi`-th one is `p : t` holding `v` -/
def nestedProbeEntity (t : Ty) (v : Val) (nprops pi : Nat) : Entity :=
  let props : List PropDef := (List.range nprops).map fun i =>
    if i = pi then PropDef.mk "p" t 0 else PropDef.mk ("_" ++ toString i) (.int 1 false) 0
  let view : EntityView := EntityView.mk "E" [] props [] [] [] []
  Entity.mk 1 view [("p", v)] [] [] []

/-- `nested.encode`: the model's encoder for a nested update on one property, and the model's
own reader applied to the result (the statement of `C06.nested_encode_apply`, executed) -/
def opNestedEncode (st : State) (j : Json) : Except String Json := do
  let t ← getTy st j
  let v ← valOfJson (← j.getObjVal? "val")
  let nprops ← getNat j "nprops"
  let pi ← getNat j "pi"
  let path ← (← j.getObjValAs? (Array Json) "path").toList.mapM natOfJson
  let lj ← j.getObjVal? "leaf"
  let kind ← lj.getObjValAs? String "k"
  let op ← match kind with
    | "dictSet" => do pure (LeafOp.dictSet (← getNat lj "i") (← valOfJson (← lj.getObjVal? "val")))
    | "listSet" => do pure (LeafOp.listSet (← getNat lj "i") (← valOfJson (← lj.getObjVal? "val")))
    | "listClear" => do pure (LeafOp.listClear (← getNat lj "i"))
    | "slice" => do
      let vals ← (← lj.getObjValAs? (Array Json) "vals").toList.mapM valOfJson
      pure (LeafOp.slice (← getNat lj "i") (← getNat lj "j") vals)
    | k => throw s!"unknown leaf kind {k}"
  let e := nestedProbeEntity t v nprops pi
  match encodeNested e pi path op with
  | none => pure (Json.mkObj [("none", true)])
  | some body =>
    let after : Json := match applyNested {} e op.isSlice body with
      | .ok (e', _, _) => (match dictGet? e'.client "p" with | some v' => valToJson v' | none => Json.null)
      | .error _ => Json.mkObj [("err", "apply")]
    pure (Json.mkObj [("ok", toHex body), ("after", after)])

def eventJson : Event → Json
  | .death v k t => Json.arr #["death", (Json.num (JsonNumber.fromInt v)), Json.num (JsonNumber.fromInt k), Json.num (JsonNumber.fromInt t)]
  | .achievement a i => Json.arr #["achievement", Json.num (JsonNumber.fromInt a), Json.num (JsonNumber.fromInt i)]
  | .battleEnd t r => Json.arr #["battleEnd", Json.num (JsonNumber.fromInt t), Json.num (JsonNumber.fromInt r)]
  | .player i => Json.arr #["player", Json.num (JsonNumber.fromInt i)]
  | .arena i => Json.arr #["arena", Json.num (JsonNumber.fromInt i)]
  | .map n => Json.arr #["map", toHex n]
  | _ => Json.arr #["other"]

/-- `summary.fromStream`: the model decodes the stream with the loaded definitions, extracts the
controller's events from its own invocation log and folds them (`ReplayModel.summaryOfStream`) -/
def opSummaryFromStream (st : State) (j : Json) : Except String Json := do
  let id ← j.getObjValAs? String "defs"
  let defs ← match st.defs.get? id with
    | some d => pure d
    | none => throw s!"unknown defs {id}"
  let dialect ← dialectOf (← j.getObjValAs? String "dialect")
  let strict ← j.getObjValAs? Bool "strict"
  let stream ← getHex j "stream"
  let r := play jsonOkImpl { defs := defs, masks := st.masks, dialect := dialect, reg := summaryRegistry } strict {} stream
  let evs := eventsOfLog r.world.log ++ eventsOfWorld r.world
  let s := summaryOfStream jsonOkImpl defs st.masks dialect strict stream
  pure (Json.mkObj (endJson r.ending ++ [("events", Json.arr (evs.map eventJson).toArray),
    ("deaths", Json.arr (s.deaths.map fun d => Json.arr #[Json.num (JsonNumber.fromInt d.1), Json.num (JsonNumber.fromInt d.2.1), Json.num (JsonNumber.fromInt d.2.2)]).toArray),
    ("playerId", match s.playerId with | some i => Json.num (JsonNumber.fromInt i) | none => Json.null),
    ("arenaId", match s.arenaId with | some i => Json.num (JsonNumber.fromInt i) | none => Json.null),
    ("map", match s.map with | some n => (toHex n : Json) | none => Json.null),
    ("failed", r.failed.length)]))

def pureOp (st : State) (r : Except String Json) : Except String (State × Json) := do
  pure (st, ← r)

def dispatch (st : State) (op : String) (j : Json) : Except String (State × Json) :=
  match op with
  | "ty.def" => opTyDef st j
  | "defs.load" => opDefsLoad st j
  | "play" => pureOp st (opPlay st j none)
  | "frame.parse" => pureOp st (opFrameParse j)
  | "container.read" => pureOp st (opContainerRead j)
  | "version.select" => pureOp st (opVersionSelect j)
  | "sig.bind" => pureOp st (opSigBind j)
  | "controller.summary" => pureOp st (opControllerSummary j)
  | "pack.shipped" => pureOp st (opPackShipped j)
  | "json.encodable" => pureOp st (opJsonEncodable j)
  | "pickle.events" => pureOp st (opPickleEvents j)
  | "codec.decode" => pureOp st (opCodecDecode st j)
  | "codec.decodeSeq" => pureOp st (opCodecDecodeSeq st j)
  | "codec.encode" => pureOp st (opCodecEncode st j)
  | "codec.write" => pureOp st (opCodecWrite st j)
  | "codec.writeArgs" => pureOp st (opCodecWriteArgs j)
  | "nested.encode" => pureOp st (opNestedEncode st j)
  | "getinfo" => pureOp st (opGetInfo st j)
  | "summary.fromStream" => pureOp st (opSummaryFromStream st j)
  | "bits.req" => pureOp st (opBitsReq j)
  | "bits.table" => pureOp st (opBitsTable j)
  | "bits.read" => pureOp st (opBitsRead j)
  | _ => throw s!"unknown op {op}"

def handleLine (st : State) (line : String) : State × String :=
  match Json.parse line with
  | .error e => (st, (Json.mkObj [("fatal", s!"parse: {e}")]).compress)
  | .ok j =>
    match j.getObjValAs? String "op" with
    | .error e => (st, (Json.mkObj [("fatal", e)]).compress)
    | .ok op =>
      match dispatch st op j with
      | .ok (st', r) => (st', r.compress)
      | .error e => (st, (Json.mkObj [("fatal", e)]).compress)

/-- `play` with the stream taken from a file (real recordings) -/
def handlePlayFile (st : State) (j : Json) (path : String) : IO String := do
  let data ← IO.FS.readBinFile path
  match opPlay st j (some data.toList) with
  | .ok r => pure r.compress
  | .error e => pure (Json.mkObj [("fatal", e)]).compress

partial def loop (hIn hOut : IO.FS.Stream) (st : State) : IO Unit := do
  let line ← hIn.getLine
  if line.isEmpty then return ()
  let t := line.trimAscii.toString
  if t.isEmpty then loop hIn hOut st
  else
    -- the one request that needs IO: a play whose stream lives in a file
    let viaFile : Option (Json × String) :=
      match Json.parse t with
      | .ok j =>
        match j.getObjValAs? String "op", j.getObjValAs? String "streamFile" with
        | .ok "play", .ok path => some (j, path)
        | _, _ => none
      | .error _ => none
    match viaFile with
    | some (j, path) =>
      hOut.putStrLn (← handlePlayFile st j path)
      loop hIn hOut st
    | none =>
      let (st', out) := handleLine st t
      hOut.putStrLn out
      loop hIn hOut st'

end Driver

def main : IO Unit := do
  let hIn ← IO.getStdin
  let hOut ← IO.getStdout
  Driver.loop hIn hOut {}
  hOut.flush
